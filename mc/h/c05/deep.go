package c05

// deep.go: the "nested to any depth" half of the quantifier.  Linear chains (one member per level) of singleton
// sets, 1-tuples, records, functions nested through the value, functions nested through the key, and a mix of all,
// to depth 12 / 64 / 200 (thorough: 400 too), with and without vector-clock wrapping of every level.  A chain of
// depth d has d+1 nodes, so every operation below is expected to be (low) polynomial in d; an implementation that
// compares each level twice needs 2^d steps and does not return in practice from depth ~40.
//
// Each (family, wrapped) group runs in its own child process (started with PGO_TRACE_DIR so that WrapCausal is
// live), announces every operation before starting it, and is watched by the parent: an operation that has burnt
// hangCPU seconds of CPU without returning is a hang (never a wall-clock verdict; a starved machine only produces
// a discarded run).

import (
	"bufio"
	"bytes"
	"encoding/gob"
	"encoding/json"
	"fmt"
	"io"
	"os"
	"os/exec"
	"path/filepath"
	"strconv"
	"strings"
	"time"

	"github.com/DistCompiler/pgo/distsys/hashmap"
	"github.com/DistCompiler/pgo/distsys/tla"
	"github.com/benbjohnson/immutable"
	"verif/mc/hres"
	"verif/mc/tlabridge"
)

var deepFamilies = []string{"set", "tuple", "record", "fn-value", "fn-key", "mixed"}

func deepDepths(thorough bool) []int {
	if thorough {
		return []int{12, 64, 200, 400}
	}
	return []int{12, 64, 200}
}

var deepOps = []string{"build", "equal-self", "equal-copy", "not-equal", "hash", "member", "function-lookup", "hashmap", "gob", "string"}

// levelKind: which collection wraps level i (1-based from the leaf) of a chain of the family
func levelKind(family string, i int) string {
	if family == "mixed" {
		return deepFamilies[i%5]
	}
	return family
}

// deepBuild builds the chain twice, through different constructors, plus the harness' own canonical text.
// alt selects the second way of constructing every level.
func deepBuild(family string, depth int, leaf tla.Value, wrapped, alt bool) tla.Value {
	return deepBuildEvery(family, depth, leaf, wrapped, alt, 1)
}

// deepBuildEvery wraps the leaf, the outermost value and every `every`-th level.
func deepBuildEvery(family string, depth int, leaf tla.Value, wrapped, alt bool, every int) tla.Value {
	n := 0
	level := 0
	w := func(x tla.Value) tla.Value {
		if !wrapped || !(level == 0 || level == depth || level%every == 0) {
			return x
		}
		n++
		return tla.WrapCausal(x, clockNo(n))
	}
	v := w(leaf)
	zero, a := tla.MakeNumber(0), tla.MakeString("a")
	for i := 1; i <= depth; i++ {
		level = i
		switch levelKind(family, i) {
		case "set":
			if alt {
				v = tla.MakeSetFromMap(immutable.NewMap[tla.Value, bool](tla.ValueHasher{}).Set(v, true))
			} else {
				v = tla.MakeSet(v)
			}
		case "tuple":
			if alt {
				v = tla.ModuleAppend(tla.MakeTuple(), v)
			} else {
				v = tla.MakeTuple(v)
			}
		case "record":
			if alt {
				v = tla.ModuleColonGreaterThanSymbol(a, v)
			} else {
				v = tla.MakeRecord([]tla.RecordField{{Key: a, Value: v}})
			}
		case "fn-value":
			if alt {
				v = tla.MakeRecordFromMap(immutable.NewMap[tla.Value, tla.Value](tla.ValueHasher{}).Set(zero, v))
			} else {
				v = tla.ModuleColonGreaterThanSymbol(zero, v)
			}
		case "fn-key":
			if alt {
				v = tla.MakeRecord([]tla.RecordField{{Key: v, Value: zero}})
			} else {
				v = tla.ModuleColonGreaterThanSymbol(v, zero)
			}
		}
		v = w(v)
	}
	return v
}

func deepText(family string, depth int, leaf string) string {
	var pre, post []string
	for i := depth; i >= 1; i-- {
		switch levelKind(family, i) {
		case "set":
			pre, post = append(pre, "{"), append(post, "}")
		case "tuple":
			pre, post = append(pre, "<<"), append(post, ">>")
		case "record":
			pre, post = append(pre, `("a" :> `), append(post, ")")
		case "fn-value":
			pre, post = append(pre, "(0 :> "), append(post, ")")
		case "fn-key":
			pre, post = append(pre, "("), append(post, " :> 0)")
		}
	}
	var b strings.Builder
	for _, p := range pre {
		b.WriteString(p)
	}
	b.WriteString(leaf)
	for i := len(post) - 1; i >= 0; i-- {
		b.WriteString(post[i])
	}
	return b.String()
}

// deepChildMain runs one (family, wrapped) group: every depth, every operation, announcing each.
func deepChildMain() {
	family := os.Getenv("VERIF_DEEP_FAMILY")
	wrapped := os.Getenv("VERIF_DEEP_WRAPPED") == "1"
	thorough := os.Getenv("VERIF_TIER") == "thorough"
	out := bufio.NewWriter(os.Stdout)
	say := func(f string, a ...any) {
		fmt.Fprintf(out, f+"\n", a...)
		out.Flush()
	}
	if wrapped && tla.WrapCausal(tla.MakeNumber(1), clockNo(0)).GetVClock() == nil {
		say("X wrapping is not live")
		return
	}
	for _, depth := range deepDepths(thorough) {
		var v, w, other tla.Value
		text := deepText(family, depth, "1")
		for _, op := range deepOps {
			say("S %d %s", depth, op)
			msg := ""
			if p := safe(func() {
				switch op {
				case "build":
					v = deepBuild(family, depth, tla.MakeNumber(1), wrapped, false)
					w = deepBuild(family, depth, tla.MakeNumber(1), wrapped, true)
					other = deepBuild(family, depth, tla.MakeNumber(2), wrapped, false)
					if got := canonOf(v, false); got != text {
						msg = "built as " + clip(got)
					} else if got := canonOf(w, false); got != text {
						msg = "second construction built as " + clip(got)
					}
				case "equal-self":
					if !v.Equal(v) {
						msg = "the value is not Equal to itself"
					}
				case "equal-copy":
					if !v.Equal(w) || !w.Equal(v) {
						msg = "two separately built copies are not Equal"
					}
				case "not-equal":
					if v.Equal(other) || other.Equal(v) {
						msg = "Equal to the chain with another innermost element"
					}
				case "hash":
					if v.Hash() != w.Hash() {
						msg = "two separately built copies hash differently"
					} else if v.Hash() != v.Hash() {
						msg = "hash is not stable"
					}
				case "member":
					if !tla.ModuleInSymbol(v, tla.MakeSet(w)).AsBool() {
						msg = "v \\in {copy of v} is FALSE"
					} else if tla.ModuleInSymbol(v, tla.MakeSet(other)).AsBool() {
						msg = "v \\in {other chain} is TRUE"
					}
				case "function-lookup":
					if ok, oth := applyOK(tla.ModuleColonGreaterThanSymbol(w, tla.MakeNumber(7)), v); oth != nil || !ok {
						msg = fmt.Sprintf("(copy :> 7)[v] not found (%v)", oth)
					}
				case "hashmap":
					hm := hashmap.New[int]()
					hm.Set(w, 1)
					hm.Set(other, 2)
					if x, ok := hm.Get(v); !ok || x != 1 {
						msg = fmt.Sprintf("hashmap lookup gives %v %v", x, ok)
					}
				case "gob":
					var buf bytes.Buffer
					var back tla.Value
					gv := v
					if wrapped && depth > 64 {
						// gob of a clock per level is cubic in the depth (seconds of CPU at depth 200): beyond
						// depth 64 the round trip is made on the chain with every 8th level (and both ends) wrapped
						gv = deepBuildEvery(family, depth, tla.MakeNumber(1), true, false, 8)
					}
					if err := gob.NewEncoder(&buf).Encode(&gv); err != nil {
						msg = "gob encode: " + err.Error()
					} else if err := gob.NewDecoder(&buf).Decode(&back); err != nil {
						msg = "gob decode: " + err.Error()
					} else if !back.Equal(v) || !v.Equal(back) || back.Hash() != v.Hash() {
						msg = "the decoded value is not Equal / hashes differently"
					} else if got := canonOf(back, false); got != text {
						msg = "decodes to " + clip(got)
					} else if wrapped && back.GetVClock() == nil {
						msg = "the decoded value lost its clock"
					}
				case "string":
					s := v.String()
					parsed, err := tlabridge.ParseValue(s, tlabridge.ParseOptions{})
					if err != nil {
						msg = "String() is not a TLA+ expression: " + err.Error()
					} else if got := canonOf(parsed, false); got != text {
						msg = "String() denotes " + clip(got)
					} else if s != w.String() {
						msg = "two separately built copies print differently"
					}
				}
			}); p != nil {
				msg = fmt.Sprintf("panic: %v", p)
			}
			if msg == "" {
				say("R %d %s ok", depth, op)
			} else {
				say("R %d %s FAIL %s", depth, op, strings.ReplaceAll(msg, "\n", " "))
			}
		}
	}
	say("D")
}

func clip(s string) string {
	if len(s) > 120 {
		return s[:60] + " ... " + s[len(s)-50:]
	}
	return s
}

func procCPU(pid int) (time.Duration, bool) {
	b, err := os.ReadFile(fmt.Sprintf("/proc/%d/stat", pid))
	if err != nil {
		return 0, false
	}
	s := string(b)
	i := strings.LastIndexByte(s, ')')
	if i < 0 {
		return 0, false
	}
	f := strings.Fields(s[i+1:])
	if len(f) < 13 {
		return 0, false
	}
	ut, _ := strconv.ParseInt(f[11], 10, 64)
	st, _ := strconv.ParseInt(f[12], 10, 64)
	return time.Duration(ut+st) * 10 * time.Millisecond, true
}

type deepResult struct {
	Family  string `json:"family"`
	Wrapped bool   `json:"wrapped"`
	Ops     int    `json:"operations_completed"`
	// at most one failure per group: the group stops at the first hang; plain failures are all collected
	Fails   []deepFail `json:"failures,omitempty"`
	Discard string     `json:"discarded,omitempty"` // environment trouble, no verdict
	MaxCPU  float64    `json:"max_cpu_s_one_operation"`
}

type deepFail struct {
	Depth int    `json:"depth"`
	Op    string `json:"op"`
	Kind  string `json:"kind"` // hang | wrong | died
	Msg   string `json:"msg"`
}

// runDeepGroup runs one group in a child and watches it.
func runDeepGroup(family string, wrapped bool, tier string, hangCPU, envWall time.Duration) deepResult {
	res := deepResult{Family: family, Wrapped: wrapped}
	scratch := os.Getenv("VERIF_SCRATCH")
	if scratch == "" {
		scratch = os.TempDir()
	}
	dir, err := os.MkdirTemp(scratch, "deep-")
	if err != nil {
		res.Discard = err.Error()
		return res
	}
	defer os.RemoveAll(dir)
	cmd := exec.Command(os.Args[0], "-test.run", "^TestCheck$", "-test.timeout", "0", "-test.count", "1")
	wr := "0"
	if wrapped {
		wr = "1"
	}
	cmd.Env = append(os.Environ(), "VERIF_CHILD=deep", "VERIF_DEEP_FAMILY="+family, "VERIF_DEEP_WRAPPED="+wr, "VERIF_TIER="+tier,
		"PGO_TRACE_DIR="+filepath.Join(dir, "trace"), "GOMAXPROCS=2")
	os.MkdirAll(filepath.Join(dir, "trace"), 0o755)
	stdout, err := cmd.StdoutPipe()
	if err != nil {
		res.Discard = err.Error()
		return res
	}
	cmd.Stderr = io.Discard
	if err := cmd.Start(); err != nil {
		res.Discard = err.Error()
		return res
	}
	lines := make(chan string, 256)
	go func() {
		sc := bufio.NewScanner(stdout)
		sc.Buffer(make([]byte, 1<<20), 1<<26)
		for sc.Scan() {
			lines <- sc.Text()
		}
		close(lines)
	}()
	curDepth, curOp := 0, ""
	// CPU the operation took at the previous (smaller) depth, for the report
	lastCost := map[string]time.Duration{}
	threshold := func(op string) time.Duration { return hangCPU }
	var startCPU time.Duration
	startWall := time.Now()
	done := false
	tick := time.NewTicker(200 * time.Millisecond)
	defer tick.Stop()
loop:
	for {
		select {
		case l, ok := <-lines:
			if !ok {
				break loop
			}
			f := strings.SplitN(l, " ", 4)
			switch f[0] {
			case "S":
				curDepth, _ = strconv.Atoi(f[1])
				curOp = f[2]
				startCPU, _ = procCPU(cmd.Process.Pid)
				startWall = time.Now()
			case "R":
				if cpu, ok := procCPU(cmd.Process.Pid); ok {
					lastCost[f[2]] = cpu - startCPU
					if (cpu - startCPU).Seconds() > res.MaxCPU {
						res.MaxCPU = (cpu - startCPU).Seconds()
					}
				}
				res.Ops++
				if len(f) == 4 && strings.HasPrefix(f[3], "FAIL") {
					d, _ := strconv.Atoi(f[1])
					res.Fails = append(res.Fails, deepFail{d, f[2], "wrong", strings.TrimPrefix(f[3], "FAIL ")})
				}
				curOp = ""
			case "X":
				res.Discard = l
			case "D":
				done = true
			}
		case <-tick.C:
			if curOp == "" {
				continue
			}
			if cpu, ok := procCPU(cmd.Process.Pid); ok && cpu-startCPU >= threshold(curOp) {
				res.Fails = append(res.Fails, deepFail{curDepth, curOp, "hang", fmt.Sprintf("burnt %v of CPU without returning (the same operation took %v at the previous depth)", threshold(curOp), lastCost[curOp])})
				res.MaxCPU = (cpu - startCPU).Seconds()
				break loop
			}
			if time.Since(startWall) >= envWall {
				res.Discard = fmt.Sprintf("depth %d %s: no verdict within %v of wall time (machine too slow)", curDepth, curOp, envWall)
				break loop
			}
		}
	}
	cmd.Process.Kill()
	go func() {
		for range lines {
		}
	}()
	cmd.Wait()
	if !done && res.Discard == "" && (len(res.Fails) == 0 || res.Fails[len(res.Fails)-1].Kind != "hang") {
		res.Fails = append(res.Fails, deepFail{curDepth, curOp, "died", "the process died during this operation (stack overflow / fatal error)"})
	}
	return res
}

// deepReplay is the replay payload of a deep-chain violation.
type deepReplay struct {
	Family  string `json:"family"`
	Wrapped bool   `json:"wrapped"`
}

// runDeep runs all groups (in parallel), confirms every failing group 4 more times and reports.
func runDeep(c *checker, tier string, workers int, only *deepReplay) (stats map[string]any) {
	// every operation on these chains costs well under 2 s of CPU on the pinned tree (measured on a loaded machine)
	hangCPU, envWall := 6*time.Second, 3*time.Minute
	if tier == "thorough" {
		hangCPU = 20 * time.Second
	}
	type group struct {
		family  string
		wrapped bool
	}
	var groups []group
	for _, f := range deepFamilies {
		for _, w := range []bool{false, true} {
			if only == nil || (only.Family == f && only.Wrapped == w) {
				groups = append(groups, group{f, w})
			}
		}
	}
	if workers < 1 {
		workers = 1
	}
	run := func(gs []group) []deepResult {
		out := make([]deepResult, len(gs))
		sem := make(chan struct{}, workers)
		done := make(chan int, len(gs))
		for i, g := range gs {
			i, g := i, g
			go func() {
				sem <- struct{}{}
				out[i] = runDeepGroup(g.family, g.wrapped, tier, hangCPU, envWall)
				<-sem
				done <- i
			}()
		}
		for range gs {
			<-done
		}
		return out
	}
	first := run(groups)
	ops, discarded, divergences := 0, 0, 0
	maxCPU := 0.0
	var results []deepResult
	sig := func(x deepResult) string {
		var s []string
		for _, f := range x.Fails {
			s = append(s, fmt.Sprintf("%d/%s/%s", f.Depth, f.Op, f.Kind))
		}
		return strings.Join(s, ",")
	}
	// confirm: every failing group runs 4 more times (all of them in one parallel batch) and must fail in the
	// same operations in the same way
	var again []group
	var failing []int
	for gi, r := range first {
		ops += r.Ops
		results = append(results, r)
		if r.Discard != "" {
			discarded++
			continue
		}
		if len(r.Fails) == 0 {
			if r.MaxCPU > maxCPU {
				maxCPU = r.MaxCPU
			}
			continue
		}
		failing = append(failing, gi)
		again = append(again, groups[gi], groups[gi], groups[gi], groups[gi])
	}
	confirm := run(again)
	for fi, gi := range failing {
		r := first[gi]
		same := true
		for _, a := range confirm[4*fi : 4*fi+4] {
			if a.Discard == "" && sig(a) != sig(r) {
				same = false
			}
		}
		if !same {
			divergences++
			continue
		}
		for _, f := range r.Fails {
			key := fmt.Sprintf("deep/%s/%s", f.Op, r.Family)
			if f.Kind == "hang" {
				key = fmt.Sprintf("deep/%s-hang/%s", f.Op, r.Family)
			} else if f.Kind == "died" {
				key = fmt.Sprintf("deep/%s-crash/%s", f.Op, r.Family)
			}
			wr := ""
			if r.Wrapped {
				wr = ", every level wrapped by WrapCausal"
			}
			what := fmt.Sprintf("chain of %d nested %s levels%s: %s: %s", f.Depth, r.Family, wr, f.Op, f.Msg)
			rp, _ := json.Marshal(deepReplay{r.Family, r.Wrapped})
			c.mu.Lock()
			if _, dup := c.viol[key]; !dup {
				c.viol[key] = hresViol(key, what, replay{Check: "deep", Deep: rp})
			}
			c.mu.Unlock()
		}
	}
	return map[string]any{
		"families": deepFamilies, "depths": deepDepths(tier == "thorough"), "operations_per_chain": deepOps, "groups": len(groups),
		"operations_completed": ops, "groups_discarded_env": discarded, "divergences": divergences,
		"max_cpu_s_of_one_operation_in_passing_groups": maxCPU, "hang_cpu_s": hangCPU.Seconds(), "results": results,
	}
}

func hresViol(key, what string, r replay) hres.Viol {
	return hres.Viol{Key: key, What: what, Replay: r}
}

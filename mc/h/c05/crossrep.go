package c05

// crossrep.go: the cross-representation family.  For every size n = 0..3 and several element vectors, the tuple
// <<v1..vn>> against the function with domain 1..n built by every route the runtime offers (MakeFunction over 1..n,
// :> / @@ chains in both orders, MakeRecord, MakeRecordFromMap, the gob-decoded copy of each; for n = 0 the empty
// function from MakeRecord(nil) and MakeFunction over {}).  TLC evaluates  function = tuple  to TRUE for all of
// them; here Equal, Hash, \in, Cardinality, function lookup, hashmap lookup, the same inside a set / tuple, and the
// printed forms must agree with that.  Every disagreement is reported under crossKey.

import (
	"fmt"

	"github.com/DistCompiler/pgo/distsys/hashmap"
	"github.com/DistCompiler/pgo/distsys/tla"
	"verif/mc/tlabridge"
)

type crossCase struct {
	Vector int    `json:"vector"`
	N      int    `json:"n"`
	Route  string `json:"route"`
}

var crossVectors = [][]tla.Value{
	{tla.MakeNumber(5), tla.MakeNumber(6), tla.MakeNumber(7)},
	{tla.MakeString("a"), tla.MakeString("b"), tla.MakeString("a")},
	{tla.MakeSet(), tla.MakeTuple(tla.MakeNumber(1)), tla.MakeBool(true)},
	{tla.MakeTuple(tla.MakeNumber(0)), tla.MakeSet(tla.MakeNumber(1), tla.MakeNumber(2)), tla.MakeNumber(-1)},
}

var crossRoutes = []string{"MakeFunction over 1..n", ":> @@ ascending", ":> @@ descending", "MakeRecord", "MakeRecordFromMap via EXCEPT", "gob-decoded MakeFunction", "gob-decoded :> @@"}

func crossBuild(vec []tla.Value, n int, route string, wrap wrapper) (f tla.Value, ok bool) {
	w := func(x tla.Value) tla.Value {
		if wrap != nil {
			return wrap(x)
		}
		return x
	}
	idx := func(i int) tla.Value { return w(tla.MakeNumber(int32(i))) }
	chain := func(desc bool) tla.Value {
		var acc tla.Value
		first := true
		for k := 1; k <= n; k++ {
			i := k
			if desc {
				i = n + 1 - k
			}
			one := tla.ModuleColonGreaterThanSymbol(idx(i), w(vec[i-1]))
			if first {
				acc, first = one, false
			} else {
				acc = tla.ModuleDoubleAtSignSymbol(acc, one)
			}
		}
		return acc
	}
	mkFunction := func() tla.Value {
		dom := tla.ModuleDotDotSymbol(tla.MakeNumber(1), tla.MakeNumber(int32(n)))
		return tla.MakeFunction([]tla.Value{dom}, func(a []tla.Value) tla.Value { return w(vec[a[0].AsNumber()-1]) })
	}
	switch route {
	case "MakeFunction over 1..n":
		return w(mkFunction()), true
	case ":> @@ ascending", ":> @@ descending":
		if n == 0 {
			return f, false
		}
		return w(chain(route == ":> @@ descending")), true
	case "MakeRecord":
		var fields []tla.RecordField
		for i := n; i >= 1; i-- {
			fields = append(fields, tla.RecordField{Key: idx(i), Value: w(vec[i-1])})
		}
		return w(tla.MakeRecord(fields)), true
	case "MakeRecordFromMap via EXCEPT":
		if n == 0 {
			return f, false
		}
		base := chain(false)
		return w(tla.FunctionSubstitution(base, []tla.FunctionSubstitutionRecord{{Keys: []tla.Value{idx(1)}, Value: func(old tla.Value) tla.Value { return old }}})), true
	case "gob-decoded MakeFunction":
		g, err := gobRoundTrip(w(mkFunction()))
		return g, err == nil
	case "gob-decoded :> @@":
		if n == 0 {
			return f, false
		}
		g, err := gobRoundTrip(w(chain(false)))
		return g, err == nil
	}
	return f, false
}

// checkCrossRep runs the family; wrap != nil wraps every sub-value (causal half).
func (c *checker) checkCrossRep(wrap wrapper) {
	w := func(x tla.Value) tla.Value {
		if wrap != nil {
			return wrap(x)
		}
		return x
	}
	for vi, vec := range crossVectors {
		for n := 0; n <= 3; n++ {
			var el []tla.Value
			for _, x := range vec[:n] {
				el = append(el, w(x))
			}
			t := w(tla.MakeTuple(el...))
			for _, route := range crossRoutes {
				cc := &crossCase{vi, n, route}
				rp := replay{Check: "cross", Cross: cc}
				if p := safe(func() {
					f, ok := crossBuild(vec, n, route, wrap)
					if !ok {
						return
					}
					var bad []string
					chk := func(name string, good bool) {
						c.n["cross_representation_checks"].Add(1)
						if !good {
							bad = append(bad, name)
						}
					}
					chk("t.Equal(f)", t.Equal(f))
					chk("f.Equal(t)", f.Equal(t))
					chk("Hash", t.Hash() == f.Hash())
					chk("t \\in {f}", tla.ModuleInSymbol(t, tla.MakeSet(f)).AsBool())
					chk("f \\in {t}", tla.ModuleInSymbol(f, tla.MakeSet(t)).AsBool())
					chk("Cardinality({t, f}) = 1", tla.ModuleCardinality(tla.MakeSet(t, f)).AsNumber() == 1)
					chk("t = f", tla.ModuleEqualsSymbol(t, f).AsBool())
					found, other := applyOK(tla.ModuleColonGreaterThanSymbol(f, tla.MakeNumber(7)), t)
					chk("(f :> 7)[t]", found && other == nil)
					hm := hashmap.New[int]()
					hm.Set(f, 1)
					_, got := hm.Get(t)
					chk("hashmap{f}.Get(t)", got)
					chk("{t}.Equal({f})", tla.MakeSet(t).Equal(tla.MakeSet(f)))
					chk("<<t>>.Equal(<<f>>)", tla.MakeTuple(t).Equal(tla.MakeTuple(f)))
					chk("(0 :> t).Equal((0 :> f))", tla.ModuleColonGreaterThanSymbol(tla.MakeNumber(0), t).Equal(tla.ModuleColonGreaterThanSymbol(tla.MakeNumber(0), f)))
					// the printed forms are two TLA+ expressions for one value (this part holds on the pinned tree)
					pt, e1 := tlabridge.ParseValue(t.String(), tlabridge.ParseOptions{Normalize: true})
					pf, e2 := tlabridge.ParseValue(f.String(), tlabridge.ParseOptions{Normalize: true})
					c.n["cross_representation_checks"].Add(1)
					if e1 != nil || e2 != nil || canonOf(pt, true) != canonOf(pf, true) {
						c.fail("string/tuple-and-function-print-different-values", fmt.Sprintf("%s and %s do not denote one value (%v %v)", t.String(), f.String(), e1, e2), rp)
					}
					if len(bad) > 0 {
						c.failCross(fmt.Sprintf("t = %s and f = %s [%s] are the same TLA+ value (TLC: f = t is TRUE) but these disagree: %v", t.String(), f.String(), route, bad), rp)
					}
				}); p != nil {
					c.fail("panic/cross-representation", fmt.Sprintf("vector %d n=%d %s: %v", vi, n, route, p), rp)
				}
			}
		}
	}
}

package c05

import (
	"bytes"
	"context"
	"encoding/gob"
	"encoding/json"
	"errors"
	"fmt"
	"os"
	"os/exec"
	"path/filepath"
	"sort"
	"strings"
	"sync"
	"sync/atomic"
	"testing"
	"time"

	"github.com/DistCompiler/pgo/distsys/hashmap"
	"github.com/DistCompiler/pgo/distsys/tla"
	"github.com/benbjohnson/immutable"
	"verif/mc/hres"
	"verif/mc/tlabridge"
)

// ---- instances ------------------------------------------------------------------------------------------------

type inst struct {
	sh      *shape
	v       int
	wrapped bool
	val     tla.Value
	clock   *tla.VClock // the clock given to the outermost WrapCausal (wrapped instances only)
	hash    uint32      // val.Hash(), taken once after construction
}

func (i *inst) String() string {
	w := ""
	if i.wrapped {
		w = " +causal"
	}
	return fmt.Sprintf("%s [%s]%s", i.sh.strict, variantName(i.sh, i.v), w)
}

type instRef struct {
	Shape   string `json:"shape"`
	Variant int    `json:"variant"`
	Wrapped bool   `json:"wrapped,omitempty"`
}

func (i *inst) ref() *instRef { return &instRef{i.sh.strict, i.v, i.wrapped} }

type replay struct {
	Check    string          `json:"check"`
	A        *instRef        `json:"a,omitempty"`
	B        *instRef        `json:"b,omitempty"`
	C        *instRef        `json:"c,omitempty"`
	Causal   bool            `json:"causal"`
	Thorough bool            `json:"thorough_universe"`
	Expr     string          `json:"tlc_expr,omitempty"`
	Deep     json.RawMessage `json:"deep,omitempty"`
	Cross    *crossCase      `json:"cross,omitempty"`
}

var selfA, selfB = tla.MakeNumber(1), tla.MakeString("n2")

var clockCache [6]*tla.VClock

// clockNo returns one of six different clocks (immutable values, shared).
func clockNo(i int) tla.VClock {
	i %= 6
	if i < 0 {
		i += 6
	}
	if clockCache[i] == nil {
		c := mkClock(i)
		clockCache[i] = &c
	}
	return *clockCache[i]
}

func mkClock(i int) tla.VClock {
	var c tla.VClock
	for k := 0; k <= i%3; k++ {
		c = c.Inc("AServer", selfA)
	}
	if i%2 == 1 {
		c = c.Inc("AClient", selfB).Inc("AClient", selfB)
	}
	return c
}

func clockEq(a, b *tla.VClock) bool {
	if a == nil || b == nil {
		return a == b
	}
	ja, _ := json.Marshal(a)
	jb, _ := json.Marshal(b)
	var la, lb []any
	json.Unmarshal(ja, &la)
	json.Unmarshal(jb, &lb)
	return len(la) == len(lb) && a.Get("AServer", selfA) == b.Get("AServer", selfA) && a.Get("AClient", selfB) == b.Get("AClient", selfB)
}

func mkInst(sh *shape, v int, wrapped bool) (in *inst, err error) {
	defer func() {
		if x := recover(); x != nil {
			err = fmt.Errorf("constructor panicked: %v", x)
		}
	}()
	in = &inst{sh: sh, v: v, wrapped: wrapped}
	if !wrapped {
		in.val = build(sh, v, nil)
		return in, nil
	}
	n := sh.id*7 + v
	var last tla.VClock
	in.val = build(sh, v, func(x tla.Value) tla.Value {
		n++
		last = clockNo(n)
		return tla.WrapCausal(x, last)
	})
	in.clock = &last
	return in, nil
}

// ---- the checker -----------------------------------------------------------------------------------------------

type checker struct {
	causal   bool
	thorough bool
	mu       sync.Mutex
	viol     map[string]hres.Viol
	n        map[string]*atomic.Int64
}

var counters = []string{"instances", "construct", "reflexive", "variant_equal_hash", "gob_roundtrip", "gob_clock", "string_reparse",
	"big_hashmap_lookup", "big_immutable_lookup", "pairs", "pairs_must_equal", "pairs_must_differ", "pairs_either", "hash_agree",
	"member_agree", "apply_agree", "hashmap_agree", "immutable_agree", "transitivity_pairs", "vclock_gob", "tlc_string_eval", "tlc_refuses_mixed_kinds",
	"pairs_cross_representation", "cross_representation_checks", "cross_representation_disagreements"}

func newChecker(causal, thorough bool) *checker {
	c := &checker{causal: causal, thorough: thorough, viol: map[string]hres.Viol{}, n: map[string]*atomic.Int64{}}
	for _, k := range counters {
		c.n[k] = new(atomic.Int64)
	}
	return c
}

func (c *checker) fail(key, what string, r replay) {
	if c.causal {
		key = "causal/" + key
	}
	r.Causal, r.Thorough = c.causal, c.thorough
	c.mu.Lock()
	defer c.mu.Unlock()
	if _, ok := c.viol[key]; !ok {
		c.viol[key] = hres.Viol{Key: key, What: what, Replay: r}
	}
}

// crossKey is the single key under which every consequence of one root cause is reported: a tuple and the
// function with domain 1..n (the empty function for n = 0) are one TLA+ value but two disjoint Go representations.
const crossKey = "equal/tuple-vs-function-over-1..n"

func (c *checker) failCross(what string, r replay) {
	c.n["cross_representation_disagreements"].Add(1)
	r.Causal, r.Thorough = c.causal, c.thorough
	c.mu.Lock()
	defer c.mu.Unlock()
	if _, ok := c.viol[crossKey]; !ok {
		c.viol[crossKey] = hres.Viol{Key: crossKey, What: what, Replay: r}
	}
}

// unmodel: tlabridge reads the model value defaultInitValue as the string of its name; put the zero Value back.
func unmodel(v tla.Value) tla.Value {
	switch {
	case v.IsString() && v.AsString() == "defaultInitValue":
		return tla.ModuledefaultInitValue
	case v.IsSet():
		var el []tla.Value
		it := v.AsSet().Iterator()
		for !it.Done() {
			k, _, _ := it.Next()
			el = append(el, unmodel(k))
		}
		return tla.MakeSet(el...)
	case v.IsTuple():
		var el []tla.Value
		it := v.AsTuple().Iterator()
		for !it.Done() {
			_, e := it.Next()
			el = append(el, unmodel(e))
		}
		return tla.MakeTuple(el...)
	case v.IsFunction():
		var f []tla.RecordField
		it := v.AsFunction().Iterator()
		for !it.Done() {
			k, x, _ := it.Next()
			f = append(f, tla.RecordField{Key: unmodel(k), Value: unmodel(x)})
		}
		return tla.MakeRecord(f)
	}
	return v
}

func kindName(s *shape) string {
	return map[byte]string{'b': "bool", 'n': "number", 's': "string", 'd': "default-init-value", 'S': "set", 'T': "tuple", 'F': "function"}[s.kind]
}

func safe(f func()) (panicked any) {
	defer func() { panicked = recover() }()
	f()
	return nil
}

func gobRoundTrip(v tla.Value) (tla.Value, error) {
	var buf bytes.Buffer
	if err := gob.NewEncoder(&buf).Encode(&v); err != nil {
		return tla.Value{}, err
	}
	var out tla.Value
	if err := gob.NewDecoder(&buf).Decode(&out); err != nil {
		return tla.Value{}, err
	}
	return out, nil
}

// message mimics how values travel: inside a struct, behind tla.Value fields, several per message
type message struct {
	Tag   string
	Value tla.Value
	Again tla.Value
}

// checkInstance: laws about one value.  canon0 is the canonical-variant instance of the same shape.
func (c *checker) checkInstance(in, canon0 *inst) {
	c.n["instances"].Add(1)
	r := replay{Check: "instance", A: in.ref()}
	k := kindName(in.sh)
	x := in.val
	if p := safe(func() {
		// shapes holding <<0>> and (1 :> 0) as two members / keys are excused from the representation-level demands:
		// an implementation that identifies them (as TLA+ does) collapses such a value
		strictDemands := !in.sh.ambig
		c.n["construct"].Add(1)
		if got := canonOf(x, false); strictDemands && got != in.sh.strict {
			c.fail("construct/"+k+"/"+variantName(in.sh, in.v), fmt.Sprintf("%v built as %s", in, got), r)
		}
		c.n["reflexive"].Add(1)
		if !x.Equal(x) {
			c.fail("equal/not-reflexive/"+k, fmt.Sprintf("%v is not Equal to itself", in), r)
		}
		c.n["variant_equal_hash"].Add(1)
		if strictDemands && (!x.Equal(canon0.val) || !canon0.val.Equal(x)) {
			c.fail("equal/construction-order/"+k, fmt.Sprintf("%v is not Equal to the same value built as %v", in, canon0), replay{Check: "pair", A: in.ref(), B: canon0.ref()})
		}
		if strictDemands && x.Hash() != canon0.val.Hash() {
			c.fail("hash/construction-order/"+k, fmt.Sprintf("%v hashes to %d but the same value built as %v hashes to %d", in, x.Hash(), canon0, canon0.val.Hash()), replay{Check: "pair", A: in.ref(), B: canon0.ref()})
		}
		// gob
		c.n["gob_roundtrip"].Add(1)
		y, err := gobRoundTrip(x)
		if err != nil {
			c.fail("gob/error/"+k, fmt.Sprintf("%v: gob round trip failed: %v", in, err), r)
		} else {
			if !y.Equal(x) || !x.Equal(y) || (strictDemands && !y.Equal(canon0.val)) {
				c.fail("gob/not-equal/"+k, fmt.Sprintf("%v decodes to %v which is not Equal to it", in, y), r)
			}
			if y.Hash() != x.Hash() {
				c.fail("gob/hash-differs/"+k, fmt.Sprintf("%v decodes to a value with another hash", in), r)
			}
			if got := canonOf(y, false); strictDemands && got != in.sh.strict {
				c.fail("gob/content-differs/"+k, fmt.Sprintf("%v decodes to %s", in, got), r)
			}
			if in.wrapped {
				c.n["gob_clock"].Add(1)
				if !clockEq(y.GetVClock(), in.clock) {
					c.fail("gob/clock-differs/"+k, fmt.Sprintf("%v with clock %v decodes with clock %v", in, in.clock, y.GetVClock()), r)
				}
			} else if y.GetVClock() != nil {
				c.fail("gob/clock-invented/"+k, fmt.Sprintf("%v decodes with a clock", in), r)
			}
		}
		var buf bytes.Buffer
		msg := message{"m", x, canon0.val}
		if c.causal && in.v != 0 {
			// (the message round trip of the non-canonical wrapped builds is skipped: gob with clocks is slow)
		} else if err := gob.NewEncoder(&buf).Encode(&msg); err != nil {
			c.fail("gob/error-in-message/"+k, fmt.Sprintf("%v inside a message: %v", in, err), r)
		} else {
			var back message
			if err := gob.NewDecoder(&buf).Decode(&back); err != nil || !back.Value.Equal(x) || (strictDemands && !back.Again.Equal(x)) || back.Value.Hash() != x.Hash() {
				c.fail("gob/message-not-equal/"+k, fmt.Sprintf("%v inside a message decodes to %v / %v (err %v)", in, back.Value, back.Again, err), r)
			}
		}
		// printing
		c.n["string_reparse"].Add(1)
		txt := x.String()
		parsed, err := tlabridge.ParseValue(txt, tlabridge.ParseOptions{})
		if err != nil {
			c.fail("string/unparseable/"+k, fmt.Sprintf("%v prints as %q which is not a TLA+ value expression: %v", in, txt, err), r)
		} else if got := canonOf(unmodel(parsed), true); got != in.sh.norm && !in.sh.ambig {
			c.fail("string/denotes-other-value/"+k, fmt.Sprintf("%v prints as %q which denotes %s, not %s", in, txt, got, in.sh.norm), r)
		}
	}); p != nil {
		c.fail("panic/instance/"+k, fmt.Sprintf("%v: panic %v", in, p), r)
	}
}

// perB holds the containers keyed by one value b, used to compare lookups with Equal.
type perB struct {
	set tla.Value
	fn  tla.Value
	hm  *hashmap.HashMap[int]
	im  *immutable.Map[tla.Value, int]
}

func mkPerB(b tla.Value) *perB {
	hm := hashmap.New[int]()
	hm.Set(b, 7)
	return &perB{set: tla.MakeSet(b), fn: tla.ModuleColonGreaterThanSymbol(b, tla.MakeNumber(7)), hm: hm,
		im: immutable.NewMap[tla.Value, int](tla.ValueHasher{}).Set(b, 7)}
}

func applyOK(fn, arg tla.Value) (ok bool, other any) {
	defer func() {
		if x := recover(); x != nil {
			if e, isErr := x.(error); isErr && errors.Is(e, tla.ErrTLAType) {
				ok = false
				return
			}
			other = x
		}
	}()
	return fn.ApplyFunction(arg).Equal(tla.MakeNumber(7)), nil
}

type pairCounts struct {
	pairs, mustEqual, mustDiffer, either, crossRep, hashAgree, member, apply, hashmap, immutable int64
}

func (c *checker) addPairCounts(pc *pairCounts) {
	c.n["pairs"].Add(pc.pairs)
	c.n["pairs_must_equal"].Add(pc.mustEqual)
	c.n["pairs_must_differ"].Add(pc.mustDiffer)
	c.n["pairs_either"].Add(pc.either)
	c.n["pairs_cross_representation"].Add(pc.crossRep)
	c.n["hash_agree"].Add(pc.hashAgree)
	c.n["member_agree"].Add(pc.member)
	c.n["apply_agree"].Add(pc.apply)
	c.n["hashmap_agree"].Add(pc.hashmap)
	c.n["immutable_agree"].Add(pc.immutable)
	*pc = pairCounts{}
}

// checkPair: laws about two values; returns a.Equal(b).  Nothing is allocated unless a law is broken.
func (c *checker) checkPair(a, b *inst, pb *perB, pc *pairCounts) bool {
	pc.pairs++
	r := func() replay { return replay{Check: "pair", A: a.ref(), B: b.ref()} }
	kk := func() string { return kindName(a.sh) + "-" + kindName(b.sh) }
	eq := a.val.Equal(b.val)
	if eq != b.val.Equal(a.val) {
		c.fail("equal/asymmetric/"+kk(), fmt.Sprintf("%v Equal %v is %v but the converse is %v", a, b, eq, !eq), r())
	}
	switch {
	case a.sh.ambig || b.sh.ambig:
		pc.either++
	case a.sh.sid == b.sh.sid:
		pc.mustEqual++
		if !eq {
			c.fail("equal/construction-order/"+kindName(a.sh), fmt.Sprintf("%v is not Equal to the same value built as %v", a, b), r())
		}
	case a.sh.nid != b.sh.nid:
		pc.mustDiffer++
		if eq {
			c.fail("equal/conflates-distinct/"+kk(), fmt.Sprintf("%v is Equal to the different value %v", a, b), r())
		}
	default:
		// <<0>> vs (1 :> 0), at any depth: one TLA+ value in two Go representations.  They must be Equal and hash
		// equally like any other two builds of one value; all disagreements share one root cause and one key
		pc.crossRep++
		if !eq || a.hash != b.hash {
			c.failCross(fmt.Sprintf("%v and %v are the same TLA+ value (a tuple is the function over 1..n) but Equal is %v and the hashes are %d / %d", a, b, eq, a.hash, b.hash), r())
		}
	}
	if eq {
		pc.hashAgree++
		if a.hash != b.hash {
			c.fail("hash/equal-values-differ/"+kk(), fmt.Sprintf("%v and %v are Equal but hash to %d and %d", a, b, a.hash, b.hash), r())
		}
	}
	// container lookups: for every pair of canonical builds, and for every pair on which a lookup can consult
	// Equal at all (Equal, expected Equal, or colliding hashes); the remaining pairs are plain hash misses
	if pb != nil && (a.v == 0 || eq || a.hash == b.hash || a.sh.nid == b.sh.nid) {
		pc.member++
		if in := tla.ModuleInSymbol(a.val, pb.set).AsBool(); in != eq {
			c.fail("lookup/set-membership/"+kk(), fmt.Sprintf("%v \\in {%v} is %v but Equal is %v", a, b, in, eq), r())
		}
		pc.apply++
		if ok, other := applyOK(pb.fn, a.val); other != nil {
			c.fail("lookup/function-application-panic/"+kk(), fmt.Sprintf("(%v :> 7)[%v] panicked: %v", b, a, other), r())
		} else if ok != eq {
			c.fail("lookup/function-application/"+kk(), fmt.Sprintf("(%v :> 7)[%v] found=%v but Equal is %v", b, a, ok, eq), r())
		}
		pc.hashmap++
		if _, ok := pb.hm.Get(a.val); ok != eq {
			c.fail("lookup/hashmap/"+kk(), fmt.Sprintf("hashmap{%v}.Get(%v) found=%v but Equal is %v", b, a, ok, eq), r())
		}
		pc.immutable++
		if _, ok := pb.im.Get(a.val); ok != eq {
			c.fail("lookup/immutable-map/"+kk(), fmt.Sprintf("immutable.Map{%v}.Get(%v) found=%v but Equal is %v", b, a, ok, eq), r())
		}
	}
	return eq
}

type halfStats struct {
	Shapes        int                `json:"shapes"`
	StrictClasses int                `json:"distinct_values_strict"`
	NormClasses   int                `json:"distinct_tla_values"`
	Instances     int                `json:"instances"`
	PairColumns   int                `json:"pair_columns"`
	ByDepth       map[string]int     `json:"shapes_by_depth"`
	ByKind        map[string]int     `json:"shapes_by_kind"`
	Counts        map[string]int64   `json:"checks"`
	EqualClasses  int                `json:"equal_classes_observed"`
	HashValues    int                `json:"distinct_hashes_observed"`
	CoreSize      int                `json:"core_size"`
	Complete      bool               `json:"complete"`
	PhaseSeconds  map[string]float64 `json:"phase_seconds"`
	Samples       []string           `json:"samples"`
}

// runHalf runs every check without (causal=false) or with (causal=true) vector-clock wrapping.
func runHalf(causal bool, env hres.Env) (*checker, *halfStats) {
	tStart := time.Now()
	c := newChecker(causal, env.Thorough())
	u := buildUniverse(env.Thorough())
	st := &halfStats{Shapes: len(u.shapes), StrictClasses: u.nStrict, NormClasses: u.nNorm, ByDepth: map[string]int{}, ByKind: map[string]int{}, Complete: true, CoreSize: u.coreSize}
	var all []*inst
	canon := make([]*inst, len(u.shapes)) // canonical instance per shape (unwrapped variant 0)
	for _, sh := range u.shapes {
		st.ByDepth[fmt.Sprint(sh.depth)]++
		st.ByKind[kindName(sh)]++
		for v := 0; v < variants(sh); v++ {
			for _, wrapped := range []bool{false, true} {
				if wrapped && !causal {
					continue
				}
				if !wrapped && causal && v != 0 {
					continue // the plain half covers the unwrapped variants; here variant 0 is the unwrapped witness
				}
				in, err := mkInst(sh, v, wrapped)
				if err != nil {
					c.fail("construct/panic/"+kindName(sh)+"/"+variantName(sh, v), fmt.Sprintf("%s [%s]: %v", sh.strict, variantName(sh, v), err), replay{Check: "instance", A: &instRef{sh.strict, v, wrapped}})
					continue
				}
				if wrapped && in.val.GetVClock() == nil {
					c.fail("harness/wrapping-not-live", "WrapCausal returned an unwrapped value although PGO_TRACE_DIR is set", replay{Check: "instance", A: in.ref()})
				}
				if canon[sh.id] == nil {
					canon[sh.id] = in
				}
				all = append(all, in)
			}
		}
	}
	st.Instances = len(all)
	for i := 0; i < len(all) && len(st.Samples) < 8; i += len(all)/8 + 1 {
		safe(func() { st.Samples = append(st.Samples, fmt.Sprintf("%v  prints %s", all[i], all[i].val.String())) })
	}

	// one big table holding the canonical instance of every shape: lookups must find exactly the own shape
	bigHM := hashmap.New[int]()
	bigIM := immutable.NewMap[tla.Value, int](tla.ValueHasher{})
	for _, sh := range u.shapes {
		if canon[sh.id] != nil {
			in := canon[sh.id]
			if p := safe(func() {
				bigHM.Set(in.val, sh.id)
				bigIM = bigIM.Set(in.val, sh.id)
			}); p != nil {
				c.fail("panic/container-many-keys/"+kindName(sh), fmt.Sprintf("inserting %v into a hashmap / immutable.Map holding the other values: %v", in, p), replay{Check: "instance", A: in.ref()})
			}
		}
	}
	// which shapes may legitimately shadow each other in the big table: same TLA+ value, other representation
	sameNorm := map[int][]int{}
	for _, sh := range u.shapes {
		sameNorm[sh.nid] = append(sameNorm[sh.nid], sh.id)
	}
	okID := func(sh *shape, got int) bool {
		if got == sh.id {
			return true
		}
		if sh.ambig {
			return true
		}
		for _, id := range sameNorm[sh.nid] {
			if id == got {
				return true
			}
		}
		return false
	}

	workers := env.Workers
	if workers < 1 {
		workers = 1
	}
	var wg sync.WaitGroup
	next := new(atomic.Int64)
	st.PhaseSeconds = map[string]float64{}
	t0 := time.Now()
	st.PhaseSeconds["build"] = time.Since(tStart).Seconds()
	// phase A: per instance
	for w := 0; w < workers; w++ {
		wg.Add(1)
		go func() {
			defer wg.Done()
			for {
				i := int(next.Add(1) - 1)
				if i >= len(all) {
					return
				}
				in := all[i]
				c.checkInstance(in, canon[in.sh.id])
				if p := safe(func() {
					c.n["big_hashmap_lookup"].Add(1)
					if id, ok := bigHM.Get(in.val); !ok || !okID(in.sh, id) {
						c.fail("lookup/hashmap-many-keys/"+kindName(in.sh), fmt.Sprintf("a hashmap holding every value returns found=%v entry %d for %v", ok, id, in), replay{Check: "instance", A: in.ref()})
					}
					c.n["big_immutable_lookup"].Add(1)
					if id, ok := bigIM.Get(in.val); !ok || !okID(in.sh, id) {
						c.fail("lookup/immutable-map-many-keys/"+kindName(in.sh), fmt.Sprintf("an immutable.Map holding every value returns found=%v entry %d for %v", ok, id, in), replay{Check: "instance", A: in.ref()})
					}
				}); p != nil {
					c.fail("panic/lookup/"+kindName(in.sh), fmt.Sprintf("%v: %v", in, p), replay{Check: "instance", A: in.ref()})
				}
			}
		}()
	}
	wg.Wait()

	st.PhaseSeconds["per_instance"] = time.Since(t0).Seconds()
	t0 = time.Now()
	// phase B: pairs.  thorough, plain half: ALL ordered pairs of instances.  otherwise: every instance against the canonical build
	// (variant 0) and the alternative-children build (last variant) of every value, wrapped and unwrapped.
	// Column j of the Equal matrix is owned by the worker that took j.
	n := len(all)
	var cols []int
	for j, b := range all {
		if (env.Thorough() && !causal) || b.v == 0 || (b.v == variants(b.sh)-1 && (!causal || env.Thorough())) {
			cols = append(cols, j)
		}
	}
	st.PairColumns = len(cols)
	words := (n + 63) / 64
	rows := make([][]uint64, n) // rows[j] != nil only for columns
	hashes := make([]uint32, n)
	for i, in := range all {
		if p := safe(func() {
			in.hash = in.val.Hash()
			if in.val.Hash() != in.hash {
				c.fail("hash/unstable/"+kindName(in.sh), fmt.Sprintf("%v hashes differently on a second call", in), replay{Check: "instance", A: in.ref()})
			}
		}); p != nil {
			c.fail("panic/hash/"+kindName(in.sh), fmt.Sprintf("%v: Hash panics: %v", in, p), replay{Check: "instance", A: in.ref()})
		}
		hashes[i] = in.hash
	}
	next.Store(0)
	var timedOut atomic.Bool
	for w := 0; w < workers; w++ {
		wg.Add(1)
		go func() {
			defer wg.Done()
			var pc pairCounts
			defer c.addPairCounts(&pc)
			for {
				cj := int(next.Add(1) - 1)
				if cj >= len(cols) {
					return
				}
				j := cols[cj]
				if time.Now().After(env.Deadline) {
					timedOut.Store(true)
					return
				}
				b := all[j]
				row := make([]uint64, words)
				var pb *perB
				if b.v == 0 {
					// containers keyed by b: for the canonical variant of every shape (wrapped and unwrapped)
					if p := safe(func() { pb = mkPerB(b.val) }); p != nil {
						c.fail("panic/container/"+kindName(b.sh), fmt.Sprintf("building containers keyed by %v: %v", b, p), replay{Check: "instance", A: b.ref()})
					}
				}
				for i := 0; i < n; {
					// one recover frame per stretch of the row; a panic is attributed to the pair it happened on
					if p := safe(func() {
						for ; i < n; i++ {
							if c.checkPair(all[i], b, pb, &pc) {
								row[i/64] |= 1 << uint(i%64)
							}
						}
					}); p != nil {
						a := all[i]
						c.fail("panic/pair/"+kindName(a.sh)+"-"+kindName(b.sh), fmt.Sprintf("%v vs %v: %v", a, b, p), replay{Check: "pair", A: a.ref(), B: b.ref()})
						i++
					}
				}
				rows[j] = row
			}
		}()
	}
	wg.Wait()
	if timedOut.Load() {
		st.Complete = false
	} else {
		// transitivity over all triples (x, c1, c2), x any instance, c1, c2 column instances (thorough: all triples):
		// Equal must be exactly "same connected component" of its own graph.
		bit := func(j, i int) bool { return rows[j][i/64]&(1<<uint(i%64)) != 0 } // all[i].Equal(all[j]), j a column
		parent := make([]int, n)
		for i := range parent {
			parent[i] = i
		}
		var find func(int) int
		find = func(x int) int {
			for parent[x] != x {
				parent[x] = parent[parent[x]]
				x = parent[x]
			}
			return x
		}
		for _, j := range cols {
			for i := 0; i < n; i++ {
				if bit(j, i) {
					parent[find(i)] = find(j)
				}
			}
		}
		comp := map[int][]int{}
		for i := 0; i < n; i++ {
			comp[find(i)] = append(comp[find(i)], i)
		}
		st.EqualClasses = len(comp)
		for _, members := range comp {
			for _, j := range members {
				if rows[j] == nil {
					continue
				}
				for _, i := range members {
					c.n["transitivity_pairs"].Add(1)
					if !bit(j, i) {
						// i ~ ... ~ j by a chain of Equal pairs, but not Equal: find a middle element
						mid := -1
						for _, m := range members {
							if rows[m] != nil && bit(m, i) && bit(j, m) {
								mid = m
								break
							}
						}
						r := replay{Check: "triple", A: all[i].ref(), B: all[j].ref()}
						what := fmt.Sprintf("%v and %v are linked by a chain of Equal values but are not Equal", all[i], all[j])
						if mid >= 0 {
							r.C = all[mid].ref()
							what = fmt.Sprintf("%v Equal %v and %v Equal %v, but %v is not Equal %v", all[i], all[mid], all[mid], all[j], all[i], all[j])
						}
						c.fail("equal/not-transitive/"+kindName(all[i].sh)+"-"+kindName(all[j].sh), what, r)
					}
				}
			}
		}
	}
	hs := map[uint32]bool{}
	for _, h := range hashes {
		hs[h] = true
	}
	st.HashValues = len(hs)

	st.PhaseSeconds["pairs_and_transitivity"] = time.Since(t0).Seconds()
	// tuple vs function over 1..n, sizes 0..3, every construction route
	if causal {
		k := 0
		c.checkCrossRep(func(x tla.Value) tla.Value { k++; return tla.WrapCausal(x, clockNo(k)) })
	} else {
		c.checkCrossRep(nil)
	}

	// VClock alone
	for i := 0; i < 12; i++ {
		c.n["vclock_gob"].Add(1)
		ck := clockNo(i)
		var buf bytes.Buffer
		var back tla.VClock
		if err := gob.NewEncoder(&buf).Encode(&ck); err != nil {
			c.fail("gob/vclock-error", fmt.Sprintf("clock %v: %v", ck, err), replay{Check: "vclock"})
		} else if err := gob.NewDecoder(&buf).Decode(&back); err != nil || !clockEq(&ck, &back) {
			c.fail("gob/vclock-differs", fmt.Sprintf("clock %v decodes to %v (%v)", ck, back, err), replay{Check: "vclock"})
		}
	}

	// thorough: TLC evaluates  printed = canonical  for every value TLC can build
	if env.Thorough() && !causal {
		c.tlcStrings(env, all)
	}
	st.Counts = map[string]int64{}
	for k, v := range c.n {
		st.Counts[k] = v.Load()
	}
	return c, st
}

func (c *checker) tlcStrings(env hres.Env, all []*inst) {
	var exprs []string
	var who []*inst
	seen := map[string]bool{}
	for _, in := range all {
		if !in.sh.tlcOK {
			continue
		}
		e := fmt.Sprintf("(%s) = (%s)", in.val.String(), in.sh.norm)
		if seen[e] {
			continue
		}
		seen[e] = true
		exprs = append(exprs, e)
		who = append(who, in)
	}
	ctx, cancel := context.WithDeadline(context.Background(), env.Deadline)
	defer cancel()
	// REPL mode: an expression TLC cannot evaluate does not cost a JVM start
	r := &tlabridge.Runner{Parallel: env.Workers, Timeout: 90 * time.Second}
	res, err := r.EvalREPL(ctx, exprs)
	if err != nil {
		// TLC unavailable or out of time: not a verdict
		c.n["tlc_string_eval"].Store(-1)
		return
	}
	for i, x := range res {
		c.n["tlc_string_eval"].Add(1)
		rp := replay{Check: "tlc", A: who[i].ref(), Expr: x.Expr}
		switch {
		case !x.OK && x.ErrClass == "type":
			// TLC refuses to build or compare values whose members are of different kinds (at any depth); that is
			// TLC's limitation, not a defect of the printed form (the parser-based check above covers these values)
			c.n["tlc_refuses_mixed_kinds"].Add(1)
		case !x.OK:
			c.fail("string/tlc-rejects/"+kindName(who[i].sh), fmt.Sprintf("TLC cannot evaluate %s: %s", x.Expr, strings.ReplaceAll(x.ErrMsg, "\n", " ")), rp)
		case x.Value != "TRUE":
			c.fail("string/tlc-denotes-other-value/"+kindName(who[i].sh), fmt.Sprintf("TLC evaluates %s to %s", x.Expr, x.Value), rp)
		}
	}
}

// ---- replay ------------------------------------------------------------------------------------------------------

func replayOne(env hres.Env, r replay) *checker {
	c := newChecker(r.Causal, r.Thorough)
	u := buildUniverse(r.Thorough)
	get := func(ref *instRef) *inst {
		if ref == nil {
			return nil
		}
		sh, ok := u.byText[ref.Shape]
		if !ok {
			env.T.Fatalf("replay: unknown shape %s", ref.Shape)
		}
		in, err := mkInst(sh, ref.Variant, ref.Wrapped)
		if err != nil {
			c.fail("construct/panic/"+kindName(sh)+"/"+variantName(sh, ref.Variant), err.Error(), r)
			return nil
		}
		return in
	}
	a, b, m := get(r.A), get(r.B), get(r.C)
	canonOfShape := func(in *inst) *inst {
		x, _ := mkInst(in.sh, 0, false)
		return x
	}
	switch r.Check {
	case "instance":
		if a != nil {
			c.checkInstance(a, canonOfShape(a))
			big := hashmap.New[int]()
			for _, sh := range u.shapes {
				if x, err := mkInst(sh, 0, false); err == nil {
					big.Set(x.val, sh.id)
				}
			}
			if id, ok := big.Get(a.val); !ok || (id != a.sh.id && u.shapes[id].nid != a.sh.nid) {
				c.fail("lookup/hashmap-many-keys/"+kindName(a.sh), fmt.Sprintf("found=%v entry %d for %v", ok, id, a), r)
			}
		}
	case "pair", "triple":
		if a != nil && b != nil {
			c.checkInstance(a, canonOfShape(a))
			c.checkInstance(b, canonOfShape(b))
			var pc pairCounts
			a.hash, b.hash = a.val.Hash(), b.val.Hash()
			c.checkPair(a, b, mkPerB(b.val), &pc)
			c.checkPair(b, a, mkPerB(a.val), &pc)
			if m != nil && a.val.Equal(m.val) && m.val.Equal(b.val) && !a.val.Equal(b.val) {
				c.fail("equal/not-transitive/"+kindName(a.sh)+"-"+kindName(b.sh), fmt.Sprintf("%v Equal %v Equal %v but not %v Equal %v", a, m, b, a, b), r)
			}
		}
	case "tlc":
		res, err := (&tlabridge.Runner{Parallel: 1}).EvalREPL(context.Background(), []string{r.Expr})
		if err == nil && !(res[0].OK && res[0].Value == "TRUE") && res[0].ErrClass != "type" {
			c.fail("string/tlc-denotes-other-value/"+kindName(a.sh), fmt.Sprintf("TLC: %s -> %s %s", r.Expr, res[0].Value, res[0].ErrMsg), r)
		}
	case "cross":
		if r.Causal {
			k := 0
			c.checkCrossRep(func(x tla.Value) tla.Value { k++; return tla.WrapCausal(x, clockNo(k)) })
		} else {
			c.checkCrossRep(nil)
		}
	case "vclock":
		runHalfVClockOnly(c)
	}
	return c
}

func runHalfVClockOnly(c *checker) {
	for i := 0; i < 12; i++ {
		ck := clockNo(i)
		var buf bytes.Buffer
		var back tla.VClock
		if err := gob.NewEncoder(&buf).Encode(&ck); err != nil || gob.NewDecoder(&buf).Decode(&back) != nil || !clockEq(&ck, &back) {
			c.fail("gob/vclock-differs", fmt.Sprintf("clock %v decodes to %v", ck, back), replay{Check: "vclock"})
		}
	}
}

// ---- child process with PGO_TRACE_DIR (WrapCausal is only live when the variable is set at process start) -----------

type childOut struct {
	Stats      *halfStats  `json:"stats"`
	Violations []hres.Viol `json:"violations"`
	Live       bool        `json:"wrapping_live"`
}

func runChild(env hres.Env, rp *replay) (*childOut, error) {
	scratch := os.Getenv("VERIF_SCRATCH")
	if scratch == "" {
		scratch = filepath.Join(os.TempDir(), fmt.Sprintf("c05-%d", os.Getpid()))
	}
	dir := filepath.Join(scratch, "causal-child")
	if err := os.MkdirAll(filepath.Join(dir, "trace"), 0o755); err != nil {
		return nil, err
	}
	defer os.RemoveAll(dir)
	out := filepath.Join(dir, "out.json")
	cmd := exec.Command(os.Args[0], "-test.run", "^TestCheck$", "-test.timeout", "0", "-test.count", "1")
	cmd.Env = append(os.Environ(), "VERIF_CHILD=causal", "VERIF_CHILD_OUT="+out, "PGO_TRACE_DIR="+filepath.Join(dir, "trace"),
		fmt.Sprintf("VERIF_BUDGET_S=%d", int(time.Until(env.Deadline).Seconds())+1), "VERIF_TIER="+env.Tier, fmt.Sprintf("VERIF_WORKERS=%d", env.Workers))
	if rp != nil {
		b, _ := json.Marshal(rp)
		cmd.Env = append(cmd.Env, "VERIF_CHILD_REPLAY="+string(b))
	}
	var log bytes.Buffer
	cmd.Stdout, cmd.Stderr = &log, &log
	if err := cmd.Run(); err != nil {
		return nil, fmt.Errorf("causal child failed: %v\n%s", err, log.String())
	}
	b, err := os.ReadFile(out)
	if err != nil {
		return nil, fmt.Errorf("causal child wrote no result: %v\n%s", err, log.String())
	}
	var co childOut
	if err := json.Unmarshal(b, &co); err != nil {
		return nil, err
	}
	return &co, nil
}

func childMain(t *testing.T) {
	env := hres.Env{Tier: os.Getenv("VERIF_TIER"), T: t, Workers: 4, Deadline: time.Now().Add(8 * time.Minute)}
	fmt.Sscan(os.Getenv("VERIF_WORKERS"), &env.Workers)
	var secs int
	if _, err := fmt.Sscan(os.Getenv("VERIF_BUDGET_S"), &secs); err == nil && secs > 0 {
		env.Deadline = time.Now().Add(time.Duration(secs) * time.Second)
	}
	probe := tla.WrapCausal(tla.MakeNumber(1), clockNo(0))
	co := &childOut{Live: probe.GetVClock() != nil}
	var c *checker
	if s := os.Getenv("VERIF_CHILD_REPLAY"); s != "" {
		var r replay
		if err := json.Unmarshal([]byte(s), &r); err != nil {
			t.Fatal(err)
		}
		c = replayOne(env, r)
	} else {
		c, co.Stats = runHalf(true, env)
	}
	co.Violations = sortedViol(c)
	b, _ := json.Marshal(co)
	if err := os.WriteFile(os.Getenv("VERIF_CHILD_OUT"), b, 0o644); err != nil {
		t.Fatal(err)
	}
}

func sortedViol(c *checker) []hres.Viol {
	keys := make([]string, 0, len(c.viol))
	for k := range c.viol {
		keys = append(keys, k)
	}
	sort.Strings(keys)
	out := []hres.Viol{}
	for _, k := range keys {
		out = append(out, c.viol[k])
	}
	return out
}

func TestCheck(t *testing.T) {
	if os.Getenv("VERIF_CHILD") == "causal" {
		childMain(t)
		return
	}
	if os.Getenv("VERIF_CHILD") == "deep" {
		deepChildMain()
		return
	}
	hres.Main(t, func(env hres.Env) *hres.Result {
		res := &hres.Result{Property: "C05", Level: "exploration"}
		res.Assumptions = []string{
			"strings are over printable ASCII (the property's restriction); TLA+ string literals cannot carry other bytes",
			"reference identity of a value is a canonical text computed by the harness from its own shape tree (sort.Strings), never by Value.Equal/Hash",
			"a tuple and a function over 1..n (or the empty function) denote one TLA+ value: they must be Equal, hash equally and be interchangeable in sets, function lookup and maps; every disagreement of this one kind is reported under the single key " + crossKey + " (values that contain both representations as two members/keys of one collection are excused from the representation-level demands)",
			"deep chains: an operation on a chain of depth <= 200 (thorough 400) that has burnt 5 s (thorough 20 s) of CPU without returning is a hang; wall-clock slowness alone is never a verdict",
			"String() is parsed by verif/mc/tlabridge (TLC value syntax + the :> / @@ expression form); in the thorough tier TLC itself evaluates printed = canonical for every value TLC can construct (it refuses sets of mixed kinds)",
			"the causal half runs in a child process started with PGO_TRACE_DIR set, so WrapCausal really wraps (checked by the child)",
		}
		if env.Replay != nil {
			var r replay
			if err := json.Unmarshal(env.Replay, &r); err != nil {
				t.Fatal(err)
			}
			if r.Check == "deep" {
				var dr deepReplay
				if err := json.Unmarshal(r.Deep, &dr); err != nil {
					t.Fatal(err)
				}
				c := newChecker(false, env.Thorough())
				runDeep(c, env.Tier, env.Workers, &dr)
				res.Violations = sortedViol(c)
			} else if r.Causal {
				co, err := runChild(env, &r)
				if err != nil {
					t.Fatal(err)
				}
				res.Violations = co.Violations
			} else {
				res.Violations = sortedViol(replayOne(env, r))
			}
			res.Coverage = map[string]any{"evaluations": 1, "distinct_nontrivial": 0, "rule": "replay", "samples": []any{r}}
			return res
		}
		plain, pst := runHalf(false, env)
		deepStats := runDeep(plain, env.Tier, env.Workers, nil)
		res.Violations = append(res.Violations, sortedViol(plain)...)
		co, err := runChild(env, nil)
		if err != nil {
			t.Fatalf("%v", err)
		}
		if !co.Live {
			t.Fatalf("causal child: WrapCausal is not live although PGO_TRACE_DIR was set")
		}
		have := map[string]bool{}
		for _, v := range res.Violations {
			have[v.Key] = true
		}
		for _, v := range co.Violations {
			if !have[v.Key] { // crossKey is one key for both halves
				res.Violations = append(res.Violations, v)
			}
		}
		deepOpsDone, _ := deepStats["operations_completed"].(int)
		evals := pst.Counts["pairs"] + pst.Counts["instances"] + co.Stats.Counts["pairs"] + co.Stats.Counts["instances"] +
			pst.Counts["cross_representation_checks"] + co.Stats.Counts["cross_representation_checks"] + int64(deepOpsDone)
		res.Coverage = map[string]any{
			"evaluations":         evals,
			"distinct_nontrivial": pst.StrictClasses,
			"rule": "every value of the universe (atoms incl. defaultInitValue, the zero Value; every set/tuple/function of <=2 atoms; every set/tuple/function of <=2 members of a core of depth<=2 values (core_size), i.e. depth 3; two-pair functions take their values from a 2..4 element pool) " +
				"is built through every constructor and insertion order (MakeSet orders and duplicates, MakeSetFromMap, \\cup, MakeTuple, Append, \\o, Tail, MakeRecord orders/overrides, :> @@ both orders, MakeRecordFromMap, MakeFunction, EXCEPT, alternative-built children); " +
				"checked per instance: reflexivity, Equal+Hash against the canonical build, gob round trip alone and inside a message struct, String() re-parsed, lookup in a hashmap/immutable.Map holding every value; " +
				"checked for pairs (thorough, unwrapped half: ALL ordered pairs of instances; otherwise: every instance x the canonical and the alternative-children build of every value, wrapped and unwrapped = pair_columns): symmetry, same value => Equal, different TLA+ value => not Equal, Equal => same Hash, and agreement of \\in, function application, hashmap.Get, immutable.Map.Get with Equal (for all pairs of canonical builds and all pairs that are Equal, expected Equal or hash-colliding); " +
				"transitivity for all triples (instance, column, column) via the Equal matrix (Equal must be exactly the connected components of its own graph); the same again with every value and sub-value wrapped by WrapCausal (child process). " +
				"plus the cross-representation family (tuple vs function over 1..n, n = 0..3, 4 element vectors, 7 construction routes incl. gob-decoded, 13 agreement checks each) and the deep chains (6 families x depths 12/64/200 x 10 operations, wrapped and unwrapped, in watched child processes). evaluations = instances + ordered pairs + cross-representation checks (both halves) + deep-chain operations; distinct_nontrivial = number of distinct values (distinct canonical texts) in the universe",
			"samples":              pst.Samples,
			"exhaustive":           pst.Complete && co.Stats.Complete,
			"plain_half":           pst,
			"causal_half":          co.Stats,
			"causal_wrapping_live": co.Live,
			"depth_bound":          3,
			"max_collection_size":  2,
			"tlc_used":             env.Thorough(),
			"divergences":          deepStats["divergences"],
			"deep_chains":          deepStats,
			"not_covered":          "values deeper than 3 or collections larger than 2; strings longer than 3 characters; non-ASCII strings (outside the property)",
		}
		return res
	})
}

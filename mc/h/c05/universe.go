// Package c05: equality, hashing, printing and gob encoding of tla.Value are coherent (property C05).
//
// universe.go builds the value universe *independently of the code under test*: every value is first a
// `shape` tree with its own canonical texts (computed here with sort.Strings, never with Value.Equal/Hash),
// and is then materialised as tla.Values through every constructor and insertion order ("variants").
package c05

import (
	"fmt"
	"sort"
	"strings"

	"github.com/DistCompiler/pgo/distsys/tla"
	"github.com/benbjohnson/immutable"
)

type shape struct {
	kind  byte // b n s S(et) T(uple) F(unction)
	b     bool
	n     int32
	s     string
	elems []*shape // set members (pairwise distinct by strict text) or tuple components
	keys  []*shape // function keys (pairwise distinct by strict text)
	vals  []*shape
	depth int

	strict string // canonical text, tuples and functions kept apart
	norm   string // canonical TLA+ text with TLC's identification: function over 1..n == tuple, empty function == <<>>
	ambig  bool   // contains two function keys / set members that are one TLA+ value (<<0>> and (1 :> 0)): its TLA+ meaning depends on the identification, so no "must differ" demand is derived from it
	tlcOK  bool   // TLC can build this value (it refuses sets / function domains whose members are of different kinds)
	id     int    // index in universe
	sid    int    // class id of strict text
	nid    int    // class id of norm text
}

func quoteTLA(s string) string {
	var b strings.Builder
	b.WriteByte('"')
	for i := 0; i < len(s); i++ {
		switch s[i] {
		case '"':
			b.WriteString(`\"`)
		case '\\':
			b.WriteString(`\\`)
		default:
			b.WriteByte(s[i])
		}
	}
	b.WriteByte('"')
	return b.String()
}

func atomB(v bool) *shape   { return finish(&shape{kind: 'b', b: v, depth: 1}) }
func atomN(n int32) *shape  { return finish(&shape{kind: 'n', n: n, depth: 1}) }
func atomS(s string) *shape { return finish(&shape{kind: 's', s: s, depth: 1}) }

// atomD is defaultInitValue (tla.ModuledefaultInitValue, the zero Value): generated code stores it in locals and in
// the tuples of stack frames, so it is a member of the value universe like any other atom.
func atomD() *shape { return finish(&shape{kind: 'd', depth: 1}) }

func maxDepth(xs ...[]*shape) int {
	d := 0
	for _, l := range xs {
		for _, x := range l {
			if x.depth > d {
				d = x.depth
			}
		}
	}
	return d
}

func mkSet(elems ...*shape) *shape {
	return finish(&shape{kind: 'S', elems: elems, depth: 1 + maxDepth(elems)})
}
func mkTuple(elems ...*shape) *shape {
	return finish(&shape{kind: 'T', elems: elems, depth: 1 + maxDepth(elems)})
}
func mkFn(keys, vals []*shape) *shape {
	return finish(&shape{kind: 'F', keys: keys, vals: vals, depth: 1 + maxDepth(keys, vals)})
}

// tlcKind is the comparability class TLC uses: all functions, tuples and records compare with each other.
func (s *shape) tlcKind() byte {
	if s.kind == 'T' {
		return 'F'
	}
	return s.kind
}

func sameTLCKind(xs []*shape) bool {
	for _, x := range xs {
		if x.tlcKind() != xs[0].tlcKind() {
			return false
		}
	}
	return true
}

func finish(s *shape) *shape {
	s.tlcOK = true
	for _, l := range [][]*shape{s.elems, s.keys, s.vals} {
		for _, x := range l {
			s.tlcOK = s.tlcOK && x.tlcOK
			s.ambig = s.ambig || x.ambig
		}
	}
	switch s.kind {
	case 'b':
		if s.b {
			s.strict = "TRUE"
		} else {
			s.strict = "FALSE"
		}
		s.norm = s.strict
	case 'n':
		s.strict = fmt.Sprint(s.n)
		s.norm = s.strict
		if s.n < 0 {
			s.norm = "(" + s.strict + ")"
		}
	case 's':
		s.strict = quoteTLA(s.s)
		s.norm = s.strict
	case 'd':
		s.strict, s.norm = "defaultInitValue", "defaultInitValue"
		s.tlcOK = false // a model value of the PlusCal translation, not a TLA+ expression TLC can be given
	case 'S':
		var a, b []string
		for _, e := range s.elems {
			a, b = append(a, e.strict), append(b, e.norm)
		}
		sort.Strings(a)
		sort.Strings(b)
		s.strict = "{" + strings.Join(a, ", ") + "}"
		s.tlcOK = s.tlcOK && sameTLCKind(s.elems)
		// members that are distinct strictly but equal in TLA+ (<<0>> and (1 :> 0)) make the TLA+ set smaller
		var uniq []string
		for i := range b {
			if i > 0 && b[i] == b[i-1] {
				s.tlcOK, s.ambig = false, true
				continue
			}
			uniq = append(uniq, b[i])
		}
		s.norm = "{" + strings.Join(uniq, ", ") + "}"
	case 'T':
		var a, b []string
		for _, e := range s.elems {
			a, b = append(a, e.strict), append(b, e.norm)
		}
		s.strict = "<<" + strings.Join(a, ", ") + ">>"
		s.norm = "<<" + strings.Join(b, ", ") + ">>"
	case 'F':
		type pr struct{ ks, vs, kn, vn string }
		var ps []pr
		for i := range s.keys {
			ps = append(ps, pr{s.keys[i].strict, s.vals[i].strict, s.keys[i].norm, s.vals[i].norm})
		}
		sort.Slice(ps, func(i, j int) bool { return ps[i].ks < ps[j].ks })
		var a []string
		for _, p := range ps {
			a = append(a, p.ks+" :> "+p.vs)
		}
		s.strict = "(" + strings.Join(a, " @@ ") + ")"
		s.tlcOK = s.tlcOK && sameTLCKind(s.keys)
		// normal form: domain exactly 1..n -> tuple
		n := len(s.keys)
		byIdx := make([]string, n)
		seq := true
		for i, k := range s.keys {
			if k.kind == 'n' && k.n >= 1 && int(k.n) <= n && byIdx[k.n-1] == "" {
				byIdx[k.n-1] = s.vals[i].norm
			} else {
				seq = false
			}
		}
		if seq {
			s.norm = "<<" + strings.Join(byIdx, ", ") + ">>"
		} else {
			sort.Slice(ps, func(i, j int) bool { return ps[i].kn < ps[j].kn })
			var b []string
			for i, p := range ps {
				if i > 0 && p.kn == ps[i-1].kn {
					s.tlcOK, s.ambig = false, true // two keys that are one TLA+ value
				}
				b = append(b, p.kn+" :> "+p.vn)
			}
			s.norm = "(" + strings.Join(b, " @@ ") + ")"
		}
	}
	return s
}

// canonOf renders a tla.Value in the same strict / normalised texts, using only the accessors and iterators
// (never Equal or Hash directly).  Duplicated set members or function keys stay visible as duplicates.
func canonOf(v tla.Value, norm bool) string {
	v = v.StripVClock()
	switch {
	case v.IsBool():
		if v.AsBool() {
			return "TRUE"
		}
		return "FALSE"
	case v.IsNumber():
		if norm && v.AsNumber() < 0 {
			return fmt.Sprintf("(%d)", v.AsNumber())
		}
		return fmt.Sprint(v.AsNumber())
	case v.IsString():
		return quoteTLA(v.AsString())
	case v.IsSet():
		var a []string
		it := v.AsSet().Iterator()
		for !it.Done() {
			k, _, _ := it.Next()
			a = append(a, canonOf(k, norm))
		}
		sort.Strings(a)
		return "{" + strings.Join(a, ", ") + "}"
	case v.IsTuple():
		var a []string
		it := v.AsTuple().Iterator()
		for !it.Done() {
			_, e := it.Next()
			a = append(a, canonOf(e, norm))
		}
		return "<<" + strings.Join(a, ", ") + ">>"
	case v.IsFunction():
		type pr struct {
			k    tla.Value
			ks   string
			vs   string
			used bool
		}
		var ps []pr
		it := v.AsFunction().Iterator()
		for !it.Done() {
			k, val, _ := it.Next()
			ps = append(ps, pr{k: k.StripVClock(), ks: canonOf(k, norm), vs: canonOf(val, norm)})
		}
		if norm {
			n := len(ps)
			byIdx := make([]string, n)
			seq := true
			for _, p := range ps {
				if p.k.IsNumber() && p.k.AsNumber() >= 1 && int(p.k.AsNumber()) <= n && byIdx[p.k.AsNumber()-1] == "" {
					byIdx[p.k.AsNumber()-1] = p.vs
				} else {
					seq = false
				}
			}
			if seq {
				return "<<" + strings.Join(byIdx, ", ") + ">>"
			}
		}
		sort.Slice(ps, func(i, j int) bool { return ps[i].ks < ps[j].ks })
		var a []string
		for _, p := range ps {
			a = append(a, p.ks+" :> "+p.vs)
		}
		return "(" + strings.Join(a, " @@ ") + ")"
	}
	return "defaultInitValue" // the zero Value: no kind at all
}

// ---- enumeration ------------------------------------------------------------------------------------------

type universe struct {
	shapes   []*shape
	byText   map[string]*shape
	nStrict  int
	nNorm    int
	coreSize int
}

func (u *universe) add(s *shape) *shape {
	if old, ok := u.byText[s.strict]; ok {
		return old
	}
	s.id = len(u.shapes)
	u.shapes = append(u.shapes, s)
	u.byText[s.strict] = s
	return s
}

// collections adds every set, tuple and function of at most 2 elements over `pool` (function values from valPool
// for two-pair functions, to keep the count polynomial).
func (u *universe) collections(pool, valPool []*shape) {
	u.add(mkSet())
	u.add(mkTuple())
	u.add(mkFn(nil, nil))
	for i, a := range pool {
		u.add(mkSet(a))
		u.add(mkTuple(a))
		for _, v := range pool {
			u.add(mkFn([]*shape{a}, []*shape{v}))
		}
		for j, b := range pool {
			u.add(mkTuple(a, b))
			if j > i {
				u.add(mkSet(a, b))
				for _, v := range valPool {
					for _, w := range valPool {
						u.add(mkFn([]*shape{a, b}, []*shape{v, w}))
					}
				}
			}
		}
	}
}

// buildUniverse: depth 1 = atoms; depth 2 = all collections of <=2 atoms; depth 3 = all collections of <=2
// members of a core of depth<=2 values (every kind, both orders of magnitude, the tuple/function look-alikes).
func buildUniverse(thorough bool) *universe {
	u := &universe{byText: map[string]*shape{}}
	atoms := []*shape{atomB(true), atomB(false), atomN(0), atomN(1), atomN(-1), atomS(""), atomS("a"), atomS(`a"b`)}
	if thorough {
		atoms = append(atoms, atomN(2), atomS(`\`), atomS("b c"))
	}
	D := atomD()
	T, N0, N1, Sa, Sq := atoms[0], atoms[2], atoms[3], atoms[6], atoms[7]
	atoms = append(atoms, D)
	for _, a := range atoms {
		u.add(a)
	}
	n2 := atomN(2)
	seqFn := mkFn([]*shape{N1}, []*shape{N0}) // (1 :> 0), the same TLA+ value as <<0>>
	var core, vals2, vals3 []*shape
	if thorough {
		vals2 = []*shape{N0, Sa, T}
		core = []*shape{
			N0, N1, Sa, Sq, T,
			mkSet(), mkSet(N0), mkSet(N0, N1), mkSet(Sa, N0),
			mkTuple(), mkTuple(N0), mkTuple(N0, N1), mkTuple(N1, N0),
			mkFn(nil, nil), seqFn, mkFn([]*shape{N1, n2}, []*shape{N0, N1}),
			mkFn([]*shape{Sa}, []*shape{N0}), mkFn([]*shape{N0}, []*shape{N0}), mkFn([]*shape{Sa, Sq}, []*shape{N1, T}),
		}
		vals3 = []*shape{N0, mkSet(N0), mkTuple(N0), seqFn}
	} else {
		vals2 = []*shape{N0, Sa}
		core = []*shape{
			N0, Sq, T,
			mkSet(), mkSet(N0, N1),
			mkTuple(), mkTuple(N0), mkTuple(N1, N0),
			mkFn(nil, nil), seqFn, mkFn([]*shape{Sa, Sq}, []*shape{N1, T}), mkFn([]*shape{N0}, []*shape{N0}),
		}
		vals3 = []*shape{N0, seqFn}
	}
	// a stack-frame-like tuple holding defaultInitValue, so that it also occurs nested inside sets, tuples and
	// functions (membership in a set of such tuples, as key and as value)
	core = append(core, mkTuple(N0, D))
	u.collections(atoms, vals2)
	for i, c := range core {
		core[i] = u.add(c)
	}
	for i, c := range vals3 {
		vals3[i] = u.add(c)
	}
	u.coreSize = len(core)
	u.collections(core, vals3)
	// class ids
	sid, nid := map[string]int{}, map[string]int{}
	for _, s := range u.shapes {
		if _, ok := sid[s.strict]; !ok {
			sid[s.strict] = len(sid)
		}
		if _, ok := nid[s.norm]; !ok {
			nid[s.norm] = len(nid)
		}
		s.sid, s.nid = sid[s.strict], nid[s.norm]
	}
	u.nStrict, u.nNorm = len(sid), len(nid)
	return u
}

// ---- materialisation: every constructor and insertion order -------------------------------------------------

// variants returns the number of different ways build can construct s.
func variants(s *shape) int {
	switch s.kind {
	case 'S':
		return []int{3, 4, 7}[len(s.elems)]
	case 'T':
		return []int{3, 5, 6}[len(s.elems)]
	case 'F':
		return []int{3, 5, 9}[len(s.keys)]
	}
	return 1
}

var variantNames = map[byte][][]string{
	'S': {{"MakeSet()", "MakeSetFromMap(empty)", "{0} \\ {0}"},
		{"MakeSet(x)", "MakeSet(x,x)", "MakeSetFromMap", "MakeSet(alt-built x)"},
		{"MakeSet(x,y)", "MakeSet(y,x)", "MakeSet(x,y,x)", "MakeSetFromMap(builder x,y)", "MakeSetFromMap(Set y,Set x)", "{y} \\cup {x}", "MakeSet(alt-built x,y)"}},
	'T': {{"MakeTuple()", "MakeTupleFromList(empty)", "Tail(<<0>>)"},
		{"MakeTuple(x)", "Append(<<>>,x)", "MakeTupleFromList", "Tail(<<0,x>>)", "MakeTuple(alt-built x)"},
		{"MakeTuple(x,y)", "Append(Append(<<>>,x),y)", "MakeTupleFromList", "<<x>> \\o <<y>>", "Tail(<<0,x,y>>)", "MakeTuple(alt-built x,y)"}},
	'F': {{"MakeRecord(nil)", "MakeRecordFromMap(empty)", "MakeFunction over {}"},
		{"MakeRecord", "k :> v", "MakeRecordFromMap", "MakeFunction", "MakeRecord(alt-built)"},
		{"MakeRecord(k1,k2)", "MakeRecord(k2,k1)", "MakeRecord(k1->junk,k2,k1)", "(k1:>v1) @@ (k2:>v2)", "(k2:>v2) @@ (k1:>v1)", "MakeRecordFromMap", "MakeFunction", "EXCEPT from other values", "MakeRecord(alt-built)"}},
}

func variantName(s *shape, v int) string {
	switch s.kind {
	case 'S', 'T':
		return variantNames[s.kind][len(s.elems)][v]
	case 'F':
		return variantNames['F'][len(s.keys)][v]
	}
	return "literal"
}

type wrapper func(tla.Value) tla.Value

// build constructs s by variant v.  wrap (may be nil) is applied to every sub-value and to the result: it is the
// causal wrapping of the second half of the check.
func build(s *shape, v int, wrap wrapper) tla.Value {
	w := func(x tla.Value) tla.Value {
		if wrap != nil {
			return wrap(x)
		}
		return x
	}
	child := func(c *shape, alt bool) tla.Value {
		if alt {
			return build(c, variants(c)-1, wrap)
		}
		return build(c, 0, wrap)
	}
	switch s.kind {
	case 'b':
		return w(tla.MakeBool(s.b))
	case 'n':
		return w(tla.MakeNumber(s.n))
	case 's':
		return w(tla.MakeString(s.s))
	case 'd':
		return w(tla.ModuledefaultInitValue)
	case 'S':
		n := len(s.elems)
		alt := v == variants(s)-1 && n > 0
		var e []tla.Value
		for _, c := range s.elems {
			e = append(e, child(c, alt))
		}
		switch {
		case n == 0:
			switch v {
			case 0:
				return w(tla.MakeSet())
			case 1:
				return w(tla.MakeSetFromMap(immutable.NewMap[tla.Value, bool](tla.ValueHasher{})))
			default:
				return w(tla.ModuleBackslashSymbol(tla.MakeSet(tla.MakeNumber(0)), tla.MakeSet(tla.MakeNumber(0))))
			}
		case n == 1:
			switch v {
			case 1:
				return w(tla.MakeSet(e[0], e[0]))
			case 2:
				return w(tla.MakeSetFromMap(immutable.NewMap[tla.Value, bool](tla.ValueHasher{}).Set(e[0], true)))
			default:
				return w(tla.MakeSet(e[0]))
			}
		default:
			switch v {
			case 1:
				return w(tla.MakeSet(e[1], e[0]))
			case 2:
				return w(tla.MakeSet(e[0], e[1], e[0]))
			case 3:
				b := immutable.NewMapBuilder[tla.Value, bool](tla.ValueHasher{})
				b.Set(e[0], true)
				b.Set(e[1], true)
				return w(tla.MakeSetFromMap(b.Map()))
			case 4:
				return w(tla.MakeSetFromMap(immutable.NewMap[tla.Value, bool](tla.ValueHasher{}).Set(e[1], true).Set(e[0], true)))
			case 5:
				return w(tla.ModuleUnionSymbol(tla.MakeSet(e[1]), tla.MakeSet(e[0])))
			default:
				return w(tla.MakeSet(e[0], e[1]))
			}
		}
	case 'T':
		n := len(s.elems)
		alt := v == variants(s)-1 && n > 0
		var e []tla.Value
		for _, c := range s.elems {
			e = append(e, child(c, alt))
		}
		switch v {
		case 1:
			if n == 0 {
				return w(tla.MakeTupleFromList(immutable.NewList[tla.Value]()))
			}
			t := tla.MakeTuple()
			for _, x := range e {
				t = tla.ModuleAppend(t, x)
			}
			return w(t)
		case 2:
			if n == 0 {
				return w(tla.ModuleTail(tla.MakeTuple(tla.MakeNumber(0))))
			}
			return w(tla.MakeTupleFromList(immutable.NewList[tla.Value](e...)))
		case 3:
			if n == 1 {
				return w(tla.ModuleTail(tla.MakeTuple(tla.MakeNumber(0), e[0])))
			}
			if n == 2 {
				return w(tla.ModuleOSymbol(tla.MakeTuple(e[0]), tla.MakeTuple(e[1])))
			}
		case 4:
			if n == 2 {
				return w(tla.ModuleTail(tla.MakeTuple(tla.MakeNumber(0), e[0], e[1])))
			}
		}
		return w(tla.MakeTuple(e...))
	case 'F':
		n := len(s.keys)
		alt := v == variants(s)-1 && n > 0
		var k, val []tla.Value
		for i := range s.keys {
			k = append(k, child(s.keys[i], alt))
			val = append(val, child(s.vals[i], alt))
		}
		field := func(i int) tla.RecordField { return tla.RecordField{Key: k[i], Value: val[i]} }
		mkFunction := func() tla.Value {
			dom := tla.MakeSet(k...)
			return tla.MakeFunction([]tla.Value{dom}, func(args []tla.Value) tla.Value {
				c := canonOf(args[0], false)
				for i := range s.keys {
					if s.keys[i].strict == c {
						return val[i]
					}
				}
				panic("c05: MakeFunction called the body on a value outside the domain: " + c)
			})
		}
		switch {
		case n == 0:
			switch v {
			case 1:
				return w(tla.MakeRecordFromMap(immutable.NewMap[tla.Value, tla.Value](tla.ValueHasher{})))
			case 2:
				return w(mkFunction())
			}
			return w(tla.MakeRecord(nil))
		case n == 1:
			switch v {
			case 1:
				return w(tla.ModuleColonGreaterThanSymbol(k[0], val[0]))
			case 2:
				return w(tla.MakeRecordFromMap(immutable.NewMap[tla.Value, tla.Value](tla.ValueHasher{}).Set(k[0], val[0])))
			case 3:
				return w(mkFunction())
			}
			return w(tla.MakeRecord([]tla.RecordField{field(0)}))
		default:
			junk := tla.MakeString("junk")
			switch v {
			case 1:
				return w(tla.MakeRecord([]tla.RecordField{field(1), field(0)}))
			case 2:
				return w(tla.MakeRecord([]tla.RecordField{{Key: k[0], Value: junk}, field(1), field(0)}))
			case 3:
				return w(tla.ModuleDoubleAtSignSymbol(tla.ModuleColonGreaterThanSymbol(k[0], val[0]), tla.ModuleColonGreaterThanSymbol(k[1], val[1])))
			case 4:
				return w(tla.ModuleDoubleAtSignSymbol(tla.ModuleColonGreaterThanSymbol(k[1], val[1]), tla.ModuleColonGreaterThanSymbol(k[0], val[0])))
			case 5:
				return w(tla.MakeRecordFromMap(immutable.NewMap[tla.Value, tla.Value](tla.ValueHasher{}).Set(k[1], val[1]).Set(k[0], val[0])))
			case 6:
				return w(mkFunction())
			case 7:
				base := tla.MakeRecord([]tla.RecordField{{Key: k[1], Value: junk}, {Key: k[0], Value: junk}})
				return w(tla.FunctionSubstitution(base, []tla.FunctionSubstitutionRecord{
					{Keys: []tla.Value{k[0]}, Value: func(tla.Value) tla.Value { return val[0] }},
					{Keys: []tla.Value{k[1]}, Value: func(tla.Value) tla.Value { return val[1] }},
				}))
			}
			return w(tla.MakeRecord([]tla.RecordField{field(0), field(1)}))
		}
	}
	panic("c05: bad shape")
}

// C19: the failure detector is complete and settles to accurate answers.
//
// E1 exploration over the real resources.Monitor / resources.NewFailureDetector on loopback sockets.
// Every causally possible order of {monitor start, detector start(s), archetype start(s),
// archetype end in {normal, error, panic}, monitor shutdown} is executed on fresh instances; after
// every event each started detector is polled (ReadValue) until it shows the answer the history
// requires, then has to keep showing it.
package c19

import (
	"encoding/json"
	"errors"
	"fmt"
	"log"
	"net"
	"os"
	"sort"
	"strings"
	"sync"
	"sync/atomic"
	"testing"
	"time"

	"github.com/DistCompiler/pgo/distsys"
	"github.com/DistCompiler/pgo/distsys/resources"
	"github.com/DistCompiler/pgo/distsys/tla"
	"verif/mc/explore"
	"verif/mc/hres"
)

// ---------------------------------------------------------------------------------------------
// configurations

type config struct {
	Name       string  `json:"name"`
	NDet       int     `json:"detectors"`
	NArch      int     `json:"archetypes"`
	Watch      []int   `json:"watch"` // detector i watches archetype Watch[i]
	IntervalMs int     `json:"pull_interval_ms"`
	TimeoutMs  int     `json:"rpc_timeout_ms"`
	Blackhole  bool    `json:"blackhole"`     // after shutdown a listener that accepts and never answers takes the address over
	NoShutdown bool    `json:"no_shutdown"`   // monitor is started first and never shut down (bounds the 2x2 configuration)
	Ends       [][]int `json:"ends"`          // admissible end kinds per archetype
	SymDet     bool    `json:"sym_det"`       // detectors are interchangeable: detector i+1 may only start after detector i
	MonFirst   bool    `json:"monitor_first"` // the monitor is started first (it may still be shut down later)
	// EarlyClose: the monitor's shutdown is ordered before / around the start of serving: either Close() and later
	// `go ListenAndServe()` (events "M-" then "M+"), or `go ListenAndServe()` followed at once by Close() without waiting
	// for the listener (event "M+-").  The monitor is shut down in every such order: detectors must settle on failed.
	EarlyClose bool `json:"early_close"`
	// Relay: every detector reaches the monitor through its own harness-controlled TCP relay that adds LatMs of real
	// latency to every answer and offers the fault events stall / release / cut (at most Faults stall-or-cut events per order).
	Relay     bool  `json:"relay"`
	LatMs     int   `json:"relay_latency_ms"`
	Faults    int   `json:"fault_budget"`
	Ks        []int `json:"stalled_probes"`                 // a stall holds the answers until this many consecutive probes have timed out
	StallOnly []int `json:"stall_only_detectors,omitempty"` // detectors that may be stalled/cut (nil: all)
}

const (
	endNormal = iota
	endError
	endPanic
)

var endName = []string{"normal", "error", "panic"}

var allEnds = []int{endNormal, endError, endPanic}

func configs(thorough bool) []config {
	iv, to := 4, 5000
	cs := []config{
		{Name: "1det-1arch", NDet: 1, NArch: 1, Watch: []int{0}, IntervalMs: iv, TimeoutMs: to, Ends: [][]int{allEnds}},
		{Name: "2det-1arch", NDet: 2, NArch: 1, Watch: []int{0, 0}, IntervalMs: iv, TimeoutMs: to, Ends: [][]int{allEnds}, SymDet: true},
		{Name: "1det-1arch-blackhole", NDet: 1, NArch: 1, Watch: []int{0}, IntervalMs: iv, TimeoutMs: 40, Blackhole: true, Ends: [][]int{allEnds}},
		// two archetypes under one monitor, the detector watches the first one; the second one is a bystander that panics
		{Name: "1det-2arch", NDet: 1, NArch: 2, Watch: []int{0}, IntervalMs: iv, TimeoutMs: to, Ends: [][]int{allEnds, {endPanic}}, NoShutdown: true},
	}
	// temporarily slow / unreachable monitor whose connection survives: RPC timeout < pull interval as in the defaults
	// (1 s / 2 s) and the raftkvs configurations; answers take 5 ms through the relay
	riv, rto, rlat := 60, 30, 5
	cs = append(cs,
		config{Name: "relay/1det-1arch", NDet: 1, NArch: 1, Watch: []int{0}, IntervalMs: riv, TimeoutMs: rto, Ends: [][]int{allEnds}, NoShutdown: true,
			Relay: true, LatMs: rlat, Faults: 1, Ks: []int{1, 3}},
		config{Name: "relay/1det-1arch-shutdown", NDet: 1, NArch: 1, Watch: []int{0}, IntervalMs: riv, TimeoutMs: rto, Ends: [][]int{{endPanic}}, MonFirst: true,
			Relay: true, LatMs: rlat, Faults: 1, Ks: []int{1}},
	)
	// monitor shutdown ordered before / around the start of serving (short RPC timeout: a listener that is up but never
	// serves makes every probe wait for the timeout)
	cs = append(cs,
		config{Name: "1det-1arch-early-close", NDet: 1, NArch: 1, Watch: []int{0}, IntervalMs: iv, TimeoutMs: 200, Ends: [][]int{allEnds}, EarlyClose: true},
		config{Name: "2det-1arch-early-close", NDet: 2, NArch: 1, Watch: []int{0, 0}, IntervalMs: iv, TimeoutMs: 200, Ends: [][]int{allEnds}, SymDet: true, EarlyClose: true},
		config{Name: "relay/1det-1arch-early-close", NDet: 1, NArch: 1, Watch: []int{0}, IntervalMs: riv, TimeoutMs: rto, Ends: [][]int{{endNormal, endPanic}}, EarlyClose: true,
			Relay: true, LatMs: rlat, Faults: 1, Ks: []int{1}},
	)
	if thorough {
		cs = append(cs,
			config{Name: "relay/1det-1arch-2faults", NDet: 1, NArch: 1, Watch: []int{0}, IntervalMs: riv, TimeoutMs: rto, Ends: [][]int{{endNormal, endPanic}}, NoShutdown: true,
				Relay: true, LatMs: rlat, Faults: 2, Ks: []int{1, 2}},
			config{Name: "relay/1det-1arch-shutdown-full", NDet: 1, NArch: 1, Watch: []int{0}, IntervalMs: riv, TimeoutMs: rto, Ends: [][]int{allEnds}, MonFirst: true,
				Relay: true, LatMs: rlat, Faults: 1, Ks: []int{1, 3}},
			config{Name: "relay/2det-1arch-one-stalled", NDet: 2, NArch: 1, Watch: []int{0, 0}, IntervalMs: riv, TimeoutMs: rto, Ends: [][]int{{endNormal, endPanic}}, NoShutdown: true,
				Relay: true, LatMs: rlat, Faults: 1, Ks: []int{1}, StallOnly: []int{0}},
			config{Name: "relay/1det-1arch-slow-link", NDet: 1, NArch: 1, Watch: []int{0}, IntervalMs: 100, TimeoutMs: 40, Ends: [][]int{{endNormal, endPanic}}, NoShutdown: true,
				Relay: true, LatMs: 20, Faults: 1, Ks: []int{1, 2}},
		)
	}
	if thorough {
		cs = append(cs,
			config{Name: "1det-2arch-full", NDet: 1, NArch: 2, Watch: []int{0}, IntervalMs: iv, TimeoutMs: to, Ends: [][]int{allEnds, allEnds}},
			config{Name: "2det-2arch", NDet: 2, NArch: 2, Watch: []int{0, 1}, IntervalMs: iv, TimeoutMs: to, Ends: [][]int{allEnds, allEnds}, NoShutdown: true},
			config{Name: "2det-1arch-blackhole", NDet: 2, NArch: 1, Watch: []int{0, 0}, IntervalMs: iv, TimeoutMs: 40, Blackhole: true, Ends: [][]int{allEnds}, SymDet: true},
			// other polling / timeout settings
			config{Name: "1det-1arch-slowpoll", NDet: 1, NArch: 1, Watch: []int{0}, IntervalMs: 15, TimeoutMs: to, Ends: [][]int{allEnds}},
			config{Name: "1det-1arch-fastpoll", NDet: 1, NArch: 1, Watch: []int{0}, IntervalMs: 1, TimeoutMs: to, Ends: [][]int{allEnds}},
			config{Name: "2det-1arch-timeout<interval", NDet: 2, NArch: 1, Watch: []int{0, 0}, IntervalMs: 30, TimeoutMs: 10, Blackhole: true, Ends: [][]int{allEnds}, SymDet: true},
		)
	} else {
		cs = append(cs,
			config{Name: "2det-2arch", NDet: 2, NArch: 2, Watch: []int{0, 1}, IntervalMs: iv, TimeoutMs: to, Ends: [][]int{{endNormal, endPanic}, {endError}}, NoShutdown: true},
		)
	}
	return cs
}

// ---------------------------------------------------------------------------------------------
// per-worker environment: own loopback address, ports from a private range (rebind on failure)

type worker struct {
	ip   string
	port int
}

var (
	envTimeouts   atomic.Int64
	portRetries   atomic.Int64
	pollsTotal    atomic.Int64
	checksTotal   atomic.Int64
	maxReadMicros atomic.Int64
	maxWaitPolls  atomic.Int64

	monitorCloseRacePanics atomic.Int64
	accuracyToleratedTotal atomic.Int64 // accuracy checks (short RPC timeout) that ended on "alive most of the time" instead of the streak
	lateStartListening     atomic.Int64 // a monitor closed before/while starting nevertheless came up listening
	lateStartReturned      atomic.Int64 // ... or its ListenAndServe returned first
	closeInWindowRuns      atomic.Int64
	relayStalls            atomic.Int64
	relayLateReleases      atomic.Int64
)

func (w *worker) freeAddr() string {
	for try := 0; try < 200; try++ {
		w.port++
		if w.port >= 32000 {
			w.port = 20000
		}
		addr := fmt.Sprintf("%s:%d", w.ip, w.port)
		l, err := net.Listen("tcp", addr)
		if err != nil {
			portRetries.Add(1)
			continue
		}
		l.Close()
		return addr
	}
	return ""
}

// ---------------------------------------------------------------------------------------------
// the tiny archetype: one label whose body parks until the driver tells it how to end

var errBoom = errors.New("verif: scripted archetype error")

type archCtl struct {
	id      tla.Value
	ctx     *distsys.MPCalContext
	cmd     chan int
	started chan struct{}
	once    sync.Once
	done    chan error
	state   int // 0 not started, 1 running, 2 ended
	endKind int
	escaped any           // panic that escaped RunArchetype
	ending  chan struct{} // closed when the archetype's last critical section is about to return / panic
}

func newArch(j int, fns ...distsys.MPCalContextConfigFn) *archCtl {
	a := &archCtl{id: tla.MakeNumber(int32(j + 1)), cmd: make(chan int, 1), started: make(chan struct{}), done: make(chan error, 1), ending: make(chan struct{})}
	arch := distsys.MPCalArchetype{
		Name:  "AVerif",
		Label: "AVerif.loop",
		JumpTable: distsys.MakeMPCalJumpTable(
			distsys.MPCalCriticalSection{Name: "AVerif.loop", Body: func(iface distsys.ArchetypeInterface) error {
				a.once.Do(func() { close(a.started) })
				k := <-a.cmd
				close(a.ending)
				switch k {
				case endNormal:
					return iface.Goto("AVerif.Done")
				case endError:
					return errBoom
				default:
					panic("verif: scripted archetype panic")
				}
			}},
			distsys.MPCalCriticalSection{Name: "AVerif.Done", Body: func(distsys.ArchetypeInterface) error { return distsys.ErrDone }},
		),
		ProcTable: distsys.MakeMPCalProcTable(),
		PreAmble:  func(distsys.ArchetypeInterface) {},
	}
	a.ctx = distsys.NewMPCalContext(a.id, arch, fns...)
	return a
}

type detCtl struct {
	coll, twinColl *resources.FailureDetector
	res, twin      distsys.ArchetypeResource
	started        bool
	relay          *relay
	stalled        bool // answers of the monitor are being held back by the relay
	stallSince     time.Time
	sawMonitorUp   bool // the detector existed while the monitor was listening (it has an established connection)
}

type world struct {
	c        *explore.Ctx
	cfg      config
	addr     string
	mon      *resources.Monitor
	monErr   chan error
	monUp    bool
	monDown  bool
	hole     net.Listener
	holeMu   sync.Mutex
	held     []net.Conn
	arch     []*archCtl
	det      []*detCtl
	iface    distsys.ArchetypeInterface
	interval time.Duration
	history  []string
	faults   int

	closedEarly   bool // Close() ran before ListenAndServe was started
	closeAtOnce   bool // Close() runs right after `go ListenAndServe()`
	closeInWindow bool // Close() runs between ListenAndServe's net.Listen and its first Accept (log gate)
	monPanic      atomic.Value
	gateFired     atomic.Bool
}

type discard struct{ why string }

const envCap = 15 * time.Second

func (w *world) discard(why string) {
	envTimeouts.Add(1)
	panic(discard{why})
}

func (w *world) startMonitor() {
	w.monErr = make(chan error, 1)
	go func() {
		// Monitor.Close sets m.listener = nil while ListenAndServe's accept loop may be about to call
		// m.listener.Accept(): a nil dereference inside the code under test that would kill the harness process.
		// It is outside C19's statement; it is counted and the monitor is treated as gone.
		defer func() {
			if x := recover(); x != nil {
				monitorCloseRacePanics.Add(1)
				w.monPanic.Store(fmt.Sprint(x))
				w.monErr <- fmt.Errorf("ListenAndServe panicked: %v", x)
			}
		}()
		w.monErr <- w.mon.ListenAndServe()
	}()
	if w.closeInWindow {
		// Close() exactly between net.Listen and the first Accept: it ran inside the log gate.  ListenAndServe has to
		// return (its listener is closed) and must not crash; recovering the panic here stands for the process crash.
		select {
		case <-w.monErr:
		case <-time.After(envCap):
			w.fail("monitor/listen-and-serve-does-not-return/close-between-listen-and-accept", fmt.Sprintf("ListenAndServe has not returned %v after Close() ran between its net.Listen and its first Accept", envCap))
		}
		if p, _ := w.monPanic.Load().(string); p != "" {
			w.fail("monitor/crash/close-between-listen-and-accept", "Close() between ListenAndServe's net.Listen and its first Accept (the `go mon.ListenAndServe(); ...; mon.Close()` pattern of a short run) makes ListenAndServe panic, which kills the process that hosts the monitor: "+p)
		}
		if !w.gateFired.Load() {
			w.discard("the monitor did not log its start")
		}
		closeInWindowRuns.Add(1)
		w.monUp = true
		return
	}
	if w.closeAtOnce {
		// `go mon.ListenAndServe()` immediately followed by Close(), as a server that is closed right after creation does
		_ = w.mon.Close()
		w.monDown = true
	}
	deadline := time.Now().Add(envCap)
	for {
		select {
		case err := <-w.monErr:
			if w.monDown {
				// closed before / while it started: ListenAndServe may legitimately have returned (with or without error)
				lateStartReturned.Add(1)
				w.monUp = true
				return
			}
			w.discard(fmt.Sprintf("monitor could not listen on %s: %v", w.addr, err))
		default:
		}
		conn, err := net.DialTimeout("tcp", w.addr, time.Second)
		if err == nil {
			conn.Close()
			if w.monDown {
				lateStartListening.Add(1)
			}
			break
		}
		if time.Now().After(deadline) {
			w.discard("monitor not reachable after start")
		}
		time.Sleep(200 * time.Microsecond)
	}
	w.monUp = true
}

// closeEarly: Close() before ListenAndServe has been started at all.
func (w *world) closeEarly() {
	_ = w.mon.Close()
	w.monDown = true
	w.closedEarly = true
}

func (w *world) stopMonitor() {
	_ = w.mon.Close()
	w.monDown = true
	if w.cfg.Blackhole {
		var l net.Listener
		var err error
		for i := 0; i < 200; i++ {
			l, err = net.Listen("tcp", w.addr)
			if err == nil {
				break
			}
			time.Sleep(time.Millisecond)
		}
		if err != nil {
			w.discard("blackhole could not take the monitor address over: " + err.Error())
		}
		w.hole = l
		go func() {
			for {
				conn, err := l.Accept()
				if err != nil {
					return
				}
				w.holeMu.Lock()
				w.held = append(w.held, conn) // accepted, never answered
				w.holeMu.Unlock()
			}
		}()
	}
}

func (w *world) startDetector(i int) {
	d := w.det[i]
	mk := func() (*resources.FailureDetector, distsys.ArchetypeResource) {
		target := w.addr
		if d.relay != nil {
			target = d.relay.addr
		}
		coll := resources.NewFailureDetector(func(tla.Value) string { return target },
			resources.WithFailureDetectorPullInterval(w.interval),
			resources.WithFailureDetectorTimeout(time.Duration(w.cfg.TimeoutMs)*time.Millisecond))
		res, err := coll.Index(w.iface, w.arch[w.cfg.Watch[i]].id)
		if err != nil {
			panic(err)
		}
		return coll, res
	}
	d.coll, d.res = mk()
	d.twinColl, d.twin = mk() // the twin is never read before the end of the execution
	d.started = true
}

func (w *world) startArch(j int) {
	a := w.arch[j]
	go func() {
		defer func() {
			if x := recover(); x != nil {
				a.escaped = x
				a.done <- fmt.Errorf("panic escaped RunArchetype: %v", x)
			}
		}()
		a.done <- w.mon.RunArchetype(a.ctx)
	}()
	select {
	case <-a.started:
	case <-time.After(envCap):
		w.discard("archetype did not start")
	}
	a.state = 1
}

func (w *world) endArch(j, kind int) {
	a := w.arch[j]
	a.cmd <- kind
	var err error
	select {
	case err = <-a.done:
	case <-time.After(envCap):
		w.discard("archetype did not end")
	}
	a.state, a.endKind = 2, kind
	if a.escaped != nil {
		w.fail("monitor/panic-escapes-RunArchetype", fmt.Sprintf("a panic of the monitored archetype escaped Monitor.RunArchetype: %v", a.escaped))
	}
	if (kind == endNormal) != (err == nil) {
		w.fail("monitor/run-result/"+endName[kind], fmt.Sprintf("RunArchetype returned %v for an archetype that ended by %s", err, endName[kind]))
	}
}

// stallDetector: from now on the relay holds the monitor's answers to detector i (the connection stays); the event
// is over when k consecutive probes of the detector (and of its twin) have been sent and have timed out.
func (w *world) stallDetector(i int) {
	d := w.det[i]
	k := w.cfg.Ks[w.c.Choose(len(w.cfg.Ks), "probes")]
	w.history[len(w.history)-1] += fmt.Sprintf("(%d)", k)
	w.faults++
	relayStalls.Add(1)
	d.stalled = true
	d.stallSince = d.relay.stall()
	last, ok := d.relay.waitRequests(d.stallSince, k, envCap)
	if !ok {
		w.discard("no probe reached the relay during a stall")
	}
	// the k-th probe times out TimeoutMs after it was sent
	time.Sleep(time.Until(last.Add(time.Duration(w.cfg.TimeoutMs)*time.Millisecond + 6*time.Millisecond)))
}

// releaseDetector lets the held (late) answers go: either right away - normally before the detector's next tick, as the
// timeout is shorter than the interval - or only after one more probe has been sent.
func (w *world) releaseDetector(i int) {
	d := w.det[i]
	late := 0
	if w.monUp && !w.monDown && d.relay.liveConns() > 0 {
		late = w.c.Choose(2, "release-after-next-probe")
	}
	if late == 1 {
		w.history[len(w.history)-1] += "(after-next-probe)"
		if _, ok := d.relay.waitRequests(time.Now(), 1, envCap); !ok {
			w.discard("no further probe reached the relay before a late release")
		}
		relayLateReleases.Add(1)
	}
	d.relay.release()
	d.stalled = false
}

// required answer of detector i under the history so far: "T" (failed), "F" (alive), "" (the statement does not say)
func (w *world) required(i int) (want, cause string) {
	a := w.arch[w.cfg.Watch[i]]
	if w.det[i].stalled {
		// the monitor is late / unreachable for this detector: it may report anything, or abort, within its bound
		return "", ""
	}
	switch {
	case a.state == 2:
		return "T", "archetype-ended-" + endName[a.endKind]
	case w.monDown && w.closedEarly:
		return "T", "monitor-closed-before-serving"
	case w.monDown && w.closeInWindow:
		return "T", "monitor-closed-between-listen-and-accept"
	case w.monDown && w.closeAtOnce:
		return "T", "monitor-closed-while-starting"
	case w.monDown:
		// the detector either holds a connection that was established before the shutdown or has to dial a closed address
		conn := "detector-connects-after"
		if w.det[i].sawMonitorUp {
			conn = "detector-connected-before"
		}
		if w.cfg.Blackhole && !w.det[i].sawMonitorUp {
			return "T", "monitor-shutdown-then-silent/" + conn
		}
		return "T", "monitor-shutdown/" + conn
	case a.state == 1 && w.monUp:
		if w.cfg.TimeoutMs < 1000 && !w.cfg.Relay {
			// with a short RPC timeout a slow answer legitimately counts as a failure (no accuracy guarantee under
			// timeouts); "alive" is only demanded in the configurations whose timeout (5 s) cannot expire by scheduling noise
			return "", ""
		}
		return "F", "running-and-reachable"
	}
	return "", ""
}

func (w *world) read(res distsys.ArchetypeResource) string {
	t0 := time.Now()
	v, err := res.ReadValue(w.iface)
	el := time.Since(t0)
	pollsTotal.Add(1)
	for {
		old := maxReadMicros.Load()
		if el.Microseconds() <= old || maxReadMicros.CompareAndSwap(old, el.Microseconds()) {
			break
		}
	}
	// generous: one polling interval plus 3 s of scheduling slack; the precise bound is the "delay" sub-check
	if el > w.interval+3*time.Second {
		w.fail("delay/read-blocked", fmt.Sprintf("ReadValue took %v with a polling interval of %v", el, w.interval))
	}
	if err != nil {
		if err == distsys.ErrCriticalSectionAborted {
			return "abort"
		}
		w.fail("read/error", fmt.Sprintf("ReadValue returned error %v", err))
	}
	switch {
	case v.Equal(tla.ModuleTRUE):
		return "T"
	case v.Equal(tla.ModuleFALSE):
		return "F"
	}
	w.fail("read/not-boolean", fmt.Sprintf("ReadValue returned %v", v))
	return ""
}

const settlePolls = 20

// fullDeadline: how long a detector may take to settle on the required answer: 2500 intervals of 4 ms, >= 100 intervals
// for the slowest configuration (100 ms).
const fullDeadline = 10 * time.Second

// keyOf: "completeness/<cause>" when failed must be reported (reached and kept), "accuracy/<cause>" when alive must be.
func keyOf(want, cause string) string {
	if want == "F" {
		return "accuracy/" + cause
	}
	return "completeness/" + cause
}

var (
	failMu  sync.Mutex
	failCnt = map[string]int{}
)

func noteFail(k string) {
	failMu.Lock()
	failCnt[k]++
	failMu.Unlock()
}

// every candidate is remembered so that those that did not reproduce can be shown in the evidence
var candidates = map[string][]string{}

func (w *world) fail(key, what string) {
	failMu.Lock()
	if len(candidates[key]) < 3 {
		candidates[key] = append(candidates[key], what+" | history: "+strings.Join(w.history, " "))
	}
	failMu.Unlock()
	w.c.Fail(key, what, w.history)
}

func failCount(k string) int {
	failMu.Lock()
	defer failMu.Unlock()
	return failCnt[k]
}

// check polls every started detector until it shows the required answer, then requires settlePolls further agreeing polls
// spread over >= 5 polling intervals.
func (w *world) check() {
	w.checkAnswers()
	w.serialise()
}

func (w *world) serialise() {
	{
		if !(w.monUp && !w.monDown) {
			return
		}
		// serialise: before the next event every started detector (and its twin) has reached the listening monitor
		deadline := time.Now().Add(envCap)
		for _, d := range w.det {
			if !d.started {
				continue
			}
			for !(resources.VerifFDConnected(d.res) && resources.VerifFDConnected(d.twin)) {
				if time.Now().After(deadline) {
					w.discard("detector did not connect to a listening monitor")
				}
				time.Sleep(w.interval / 4)
			}
			d.sawMonitorUp = true
		}
	}
}

func (w *world) checkAnswers() {
	type need struct {
		i           int
		want, cause string
	}
	var needs []need
	for i, d := range w.det {
		if !d.started {
			continue
		}
		want, cause := w.required(i)
		if want == "" {
			continue
		}
		needs = append(needs, need{i, want, cause})
	}
	if len(needs) == 0 {
		// nothing is required; still let the detectors complete polls so that the next event meets a settled detector
		time.Sleep(3*w.interval + time.Millisecond)
		return
	}
	checksTotal.Add(int64(len(needs)))
	// completeness: thousands of polling intervals
	limit := fullDeadline
	for _, n := range needs {
		// a key that has already failed 1+5 times is confirmed and reported; later executions that run into the same
		// key only need to be recognised as duplicates, so they do not wait the full deadline again
		switch fc := failCount(keyOf(n.want, n.cause)); {
		case fc >= 6:
			limit = fullDeadline / 12
			if limit < 12*w.interval {
				limit = 12 * w.interval
			}
		case fc >= 1:
			limit = fullDeadline / 3 // the confirmation re-runs of a key that already failed once with the full deadline
		}
	}
	// "within a bounded number of polling intervals and keeps doing so": before the deadline there must be a moment from
	// which settlePolls+1 consecutive polls (a quarter interval apart, i.e. over 5 intervals) all give the required answer.
	// A poll that was already in flight when the event happened may still deliver one stale answer; that only restarts
	// the count, it is not a failure by itself.
	deadline := time.Now().Add(limit)
	streak := map[int]int{}
	last := map[int]string{}
	flips := map[int]int{}
	total, match := map[int]int{}, map[int]int{}
	accuracyTolerated := false
	var polls int64
	for {
		done := true
		for _, n := range needs {
			got := w.read(w.det[n.i].res)
			if got == n.want {
				streak[n.i]++
			} else {
				if streak[n.i] > 0 {
					flips[n.i]++
				}
				streak[n.i] = 0
				polls++
			}
			last[n.i] = got
			total[n.i]++
			if got == n.want {
				match[n.i]++
			}
			if streak[n.i] <= settlePolls {
				done = false
			}
		}
		if done {
			break
		}
		if time.Now().After(deadline) {
			for _, n := range needs {
				if streak[n.i] > settlePolls {
					continue
				}
				if n.want == "F" && w.cfg.TimeoutMs < 1000 && 2*match[n.i] > total[n.i] {
					// short RPC timeout (relay configurations): a probe that is answered late legitimately counts as a
					// failure, and under load that can keep interrupting the run of agreeing answers; a detector that
					// reports alive most of the time is not stuck - only one that (almost) never does is reported
					accuracyToleratedTotal.Add(1)
					accuracyTolerated = true
					continue
				}
				noteFail(keyOf(n.want, n.cause))
				w.fail(keyOf(n.want, n.cause), fmt.Sprintf("detector %d does not settle on the required answer %q within %v (= %d polling intervals): last answer %s (state %s), it left the required answer %d times (%s)",
					n.i, n.want, limit, int(limit/w.interval), last[n.i], resources.VerifFDState(w.det[n.i].res), flips[n.i], n.cause))
			}
		}
		if accuracyTolerated && time.Now().After(deadline) {
			break
		}
		time.Sleep(w.interval / 4)
	}
	for {
		old := maxWaitPolls.Load()
		if polls <= old || maxWaitPolls.CompareAndSwap(old, polls) {
			break
		}
	}
}

func reportOf(state string) string {
	switch state {
	case "uninitialized":
		return "abort"
	case "alive":
		return "F"
	}
	return "T"
}

// finalTwin: a detector that was never read must be in the same state and give the same report as its read twin.
func (w *world) finalTwin() {
	for i, d := range w.det {
		if !d.started {
			continue
		}
		want, cause := w.required(i)
		if want == "" {
			continue
		}
		deadline := time.Now().Add(10 * time.Second)
		for {
			// what each would report (alive -> FALSE, uninitialised -> abort, anything else -> TRUE), from the accessor
			a, b := resources.VerifFDState(d.res), resources.VerifFDState(d.twin)
			if reportOf(a) == reportOf(b) {
				break
			}
			if time.Now().After(deadline) {
				w.fail("read-changes-report/"+cause, fmt.Sprintf("detector %d that was read is in state %s, its never-read twin in state %s", i, a, b))
			}
			time.Sleep(w.interval / 2)
		}
		// the twin's own first reads: it must settle on the same report (one stale in-flight poll tolerated as above)
		ok := false
		var got string
		for time.Now().Before(deadline) {
			if got = w.read(d.twin); got == want {
				ok = true
				break
			}
			time.Sleep(w.interval / 2)
		}
		if !ok {
			w.fail("read-changes-report/"+cause, fmt.Sprintf("never-read twin of detector %d answers %q where the read one answers %q", i, got, want))
		}
	}
}

func (w *world) cleanup() {
	for _, a := range w.arch {
		if a.state == 1 {
			select {
			case a.cmd <- endNormal:
			default:
			}
		}
	}
	dets := w.det
	for _, d := range dets {
		if d.relay != nil {
			d.relay.release()
		}
	}
	mon, hole := w.mon, w.hole
	w.holeMu.Lock()
	held := w.held
	w.holeMu.Unlock()
	go func() {
		for _, d := range dets {
			if d.started {
				_ = d.coll.Close()
				_ = d.twinColl.Close()
			}
		}
		_ = mon.Close()
		for _, d := range dets {
			if d.relay != nil {
				d.relay.close()
			}
		}
		if hole != nil {
			hole.Close()
		}
		for _, c := range held {
			c.Close()
		}
	}()
}

func bodyFor(cfgs []config) func(c *explore.Ctx) {
	return func(c *explore.Ctx) {
		wk := c.User.(*worker)
		ci := c.Choose(len(cfgs), "cfg")
		cfg := cfgs[ci]
		w := &world{c: c, cfg: cfg, iface: distsys.NewMPCalContextWithoutArchetype().IFace(),
			interval: time.Duration(cfg.IntervalMs) * time.Millisecond}
		defer func() {
			if x := recover(); x != nil {
				if d, ok := x.(discard); ok {
					c.Outcome("discarded:" + d.why)
					w.cleanup()
					return
				}
				w.cleanup()
				panic(x)
			}
			w.cleanup()
		}()
		w.addr = wk.freeAddr()
		if w.addr == "" {
			w.discard("no free port")
		}
		w.mon = resources.NewMonitor(w.addr)
		for j := 0; j < cfg.NArch; j++ {
			w.arch = append(w.arch, newArch(j))
		}
		for i := 0; i < cfg.NDet; i++ {
			d := &detCtl{}
			if cfg.Relay {
				r, err := newRelay(wk.ip+":0", w.addr, time.Duration(cfg.LatMs)*time.Millisecond)
				if err != nil {
					w.discard("relay cannot listen: " + err.Error())
				}
				d.relay = r
			}
			w.det = append(w.det, d)
		}
		if cfg.NoShutdown || cfg.MonFirst {
			w.startMonitor()
			w.history = append(w.history, "M+")
		}
		for {
			type ev struct {
				name string
				do   func()
			}
			var evs []ev
			if cfg.EarlyClose {
				switch {
				case !w.monUp && !w.monDown:
					evs = append(evs, ev{"M-", w.closeEarly})
					evs = append(evs, ev{"M+-", func() { w.closeAtOnce = true; w.startMonitor() }})
					evs = append(evs, ev{"M+|-", func() {
						w.closeInWindow = true
						theLogGate.arm(w.addr, func() {
							_ = w.mon.Close()
							w.gateFired.Store(true)
						})
						w.monDown = true // by the time startMonitor returns
						w.startMonitor()
					}})
				case !w.monUp:
					evs = append(evs, ev{"M+", w.startMonitor})
				}
			} else if !cfg.NoShutdown {
				if !w.monUp {
					evs = append(evs, ev{"M+", w.startMonitor})
				} else if !w.monDown {
					evs = append(evs, ev{"M-", w.stopMonitor})
				}
			}
			for i := range w.det {
				i := i
				if !w.det[i].started && (!cfg.SymDet || i == 0 || w.det[i-1].started) {
					evs = append(evs, ev{fmt.Sprintf("D%d+", i), func() { w.startDetector(i) }})
				}
			}
			for j := range w.arch {
				j := j
				switch w.arch[j].state {
				case 0:
					evs = append(evs, ev{fmt.Sprintf("A%d+", j), func() { w.startArch(j) }})
				case 1:
					evs = append(evs, ev{fmt.Sprintf("A%d-", j), func() {
						k := cfg.Ends[j][c.Choose(len(cfg.Ends[j]), "end")]
						w.history[len(w.history)-1] += endName[k]
						w.endArch(j, k)
					}})
				}
			}
			for i := range w.det {
				i := i
				d := w.det[i]
				if d.relay == nil || !d.started {
					continue
				}
				may := cfg.StallOnly == nil
				for _, x := range cfg.StallOnly {
					may = may || x == i
				}
				if d.stalled {
					evs = append(evs, ev{fmt.Sprintf("release%d", i), func() { w.releaseDetector(i) }})
				} else if may && w.faults < cfg.Faults && w.monUp && !w.monDown {
					evs = append(evs, ev{fmt.Sprintf("stall%d", i), func() { w.stallDetector(i) }})
					evs = append(evs, ev{fmt.Sprintf("cut%d", i), func() {
						w.faults++
						relayCuts.Add(1)
						d.relay.cut()
					}})
				}
			}
			if len(evs) == 0 {
				break
			}
			e := evs[c.Choose(len(evs), "ev")]
			w.history = append(w.history, e.name)
			e.do()
			w.check()
		}
		w.finalTwin()
		var fin []string
		for i, d := range w.det {
			want, _ := w.required(i)
			fin = append(fin, fmt.Sprintf("d%d:%s/%s", i, want, resources.VerifFDState(d.res)))
		}
		c.Outcome(cfg.Name + " " + strings.Join(w.history, " ") + " => " + strings.Join(fin, " "))
	}
}

// ---------------------------------------------------------------------------------------------
// delay sub-check: reading never delays a section by more than one polling interval.
// Interval raised to 1.5 s; the bound checked is "< 2 intervals" for a read of an uninitialised detector
// (it sleeps one interval) and "< 1 interval" for a read of an initialised one, i.e. 1.5 s of slack each.

type delayCase struct {
	Name      string `json:"name"`
	MonitorUp bool   `json:"monitor_up"`
	ArchRuns  bool   `json:"archetype_runs"`
	Hung      string `json:"hung_monitor,omitempty"` // "silent-listener" | "relay-holds-answers": see runHung
}

var delayCases = []delayCase{
	{"uninitialised/monitor-up/archetype-running", true, true, ""},
	{"uninitialised/monitor-up/archetype-unknown", true, false, ""},
	{"uninitialised/monitor-down", false, false, ""},
	{"uninitialised/monitor-hung/silent-listener", true, false, "silent-listener"},
	{"uninitialised/monitor-hung/relay-holds-answers", true, true, "relay-holds-answers"},
}

const delayInterval = 1500 * time.Millisecond

// hung monitor: the connection is accepted but IsAlive is never answered (a silent listener, or the relay holding every
// answer from the start), RPC timeout = 200 polling intervals.  The detector's first poll therefore stays in flight for
// 40 s; every ReadValue issued meanwhile has to come back (aborted) after about one interval.  Judged generously:
// it must return within 10 intervals (2 s).
const (
	hungInterval = 200 * time.Millisecond
	hungTimeout  = 200 * hungInterval
	hungBound    = 10 * hungInterval
)

func runHung(dc delayCase, wk *worker) (out string, fail *hres.Viol) {
	iface := distsys.NewMPCalContextWithoutArchetype().IFace()
	a := newArch(0)
	var target string
	var closers []func()
	defer func() {
		for _, f := range closers {
			f()
		}
	}()
	switch dc.Hung {
	case "silent-listener":
		l, err := net.Listen("tcp", wk.ip+":0")
		if err != nil {
			envTimeouts.Add(1)
			return "discarded", nil
		}
		target = l.Addr().String()
		var mu sync.Mutex
		var held []net.Conn
		go func() {
			for {
				c, err := l.Accept()
				if err != nil {
					return
				}
				mu.Lock()
				held = append(held, c)
				mu.Unlock()
			}
		}()
		closers = append(closers, func() {
			l.Close()
			mu.Lock()
			for _, c := range held {
				c.Close()
			}
			mu.Unlock()
		})
	default: // relay-holds-answers: a real monitor with the archetype running, behind a relay that lets no answer through
		addr := wk.freeAddr()
		mon := resources.NewMonitor(addr)
		go func() {
			defer func() { recover() }()
			_ = mon.ListenAndServe()
		}()
		dl := time.Now().Add(envCap)
		for {
			conn, err := net.DialTimeout("tcp", addr, time.Second)
			if err == nil {
				conn.Close()
				break
			}
			if time.Now().After(dl) {
				envTimeouts.Add(1)
				return "discarded", nil
			}
			time.Sleep(time.Millisecond)
		}
		go func() { defer func() { recover() }(); _ = mon.RunArchetype(a.ctx) }()
		select {
		case <-a.started:
		case <-time.After(envCap):
			envTimeouts.Add(1)
			return "discarded", nil
		}
		r, err := newRelay(wk.ip+":0", addr, 5*time.Millisecond)
		if err != nil {
			envTimeouts.Add(1)
			return "discarded", nil
		}
		r.stall()
		target = r.addr
		closers = append(closers, func() {
			r.close()
			select {
			case a.cmd <- endNormal:
			default:
			}
			go mon.Close()
		})
	}
	coll := resources.NewFailureDetector(func(tla.Value) string { return target },
		resources.WithFailureDetectorPullInterval(hungInterval), resources.WithFailureDetectorTimeout(hungTimeout))
	closers = append(closers, func() { go coll.Close() }) // runs first: LIFO not needed, Close is asynchronous and the hung connections are cut right after
	res, _ := coll.Index(iface, a.id)
	var obs []string
	for k := 0; k < 4; k++ {
		type rr struct {
			v   tla.Value
			err error
			el  time.Duration
		}
		ch := make(chan rr, 1)
		st := resources.VerifFDState(res)
		t0 := time.Now()
		go func() {
			v, err := res.ReadValue(iface)
			ch <- rr{v, err, time.Since(t0)}
		}()
		select {
		case r := <-ch:
			ans := "abort"
			if r.err == nil {
				ans = r.v.String()
			}
			obs = append(obs, fmt.Sprintf("%s:%s:%s", st, ans, r.el.Round(100*time.Millisecond)))
			if st == "uninitialized" && r.err != distsys.ErrCriticalSectionAborted && resources.VerifFDState(res) == "uninitialized" {
				return "", &hres.Viol{Key: "delay/uninitialised-read-does-not-abort", What: fmt.Sprintf("ReadValue of an uninitialised detector returned (%v,%v)", r.v, r.err), Replay: map[string]any{"delay": dc}}
			}
		case <-time.After(hungBound):
			return "", &hres.Viol{Key: "delay/uninitialised-read-over-one-interval/monitor-hung",
				What: fmt.Sprintf("ReadValue of a detector in state %s whose first poll is in flight against a monitor that accepts but never answers (%s) has not returned after %v = %d polling intervals of %v (RPC timeout %v): reading lasts as long as the first poll",
					st, dc.Name, hungBound, int(hungBound/hungInterval), hungInterval, hungTimeout),
				Replay: map[string]any{"delay": dc}}
		}
	}
	return dc.Name + " " + strings.Join(obs, " "), nil
}

func runDelay(dc delayCase, wk *worker) (out string, fail *hres.Viol) {
	if dc.Hung != "" {
		return runHung(dc, wk)
	}
	iface := distsys.NewMPCalContextWithoutArchetype().IFace()
	addr := wk.freeAddr()
	mon := resources.NewMonitor(addr)
	a := newArch(0)
	defer func() {
		select {
		case a.cmd <- endNormal:
		default:
		}
		go mon.Close()
	}()
	if dc.MonitorUp {
		errc := make(chan error, 1)
		go func() {
			defer func() {
				if x := recover(); x != nil {
					monitorCloseRacePanics.Add(1)
				}
			}()
			errc <- mon.ListenAndServe()
		}()
		dl := time.Now().Add(envCap)
		for {
			conn, err := net.DialTimeout("tcp", addr, time.Second)
			if err == nil {
				conn.Close()
				break
			}
			if time.Now().After(dl) {
				envTimeouts.Add(1)
				return "discarded", nil
			}
			time.Sleep(time.Millisecond)
		}
	}
	if dc.ArchRuns {
		go func() { _ = mon.RunArchetype(a.ctx) }()
		select {
		case <-a.started:
		case <-time.After(envCap):
			envTimeouts.Add(1)
			return "discarded", nil
		}
	}
	coll := resources.NewFailureDetector(func(tla.Value) string { return addr },
		resources.WithFailureDetectorPullInterval(delayInterval), resources.WithFailureDetectorTimeout(5*time.Second))
	defer func() { go coll.Close() }()
	res, _ := coll.Index(iface, a.id)
	var obs []string
	rd := func(bound time.Duration, what string) *hres.Viol {
		st := resources.VerifFDState(res)
		t0 := time.Now()
		v, err := res.ReadValue(iface)
		el := time.Since(t0)
		ans := "abort"
		if err == nil {
			ans = v.String()
		}
		obs = append(obs, fmt.Sprintf("%s:%s:%s", st, ans, el.Round(100*time.Millisecond)))
		if el >= bound {
			return &hres.Viol{Key: "delay/" + what, What: fmt.Sprintf("ReadValue of a detector in state %s took %v; polling interval %v, bound %v (%s)", st, el, delayInterval, bound, dc.Name),
				Replay: map[string]any{"delay": dc}}
		}
		if st == "uninitialized" && err != distsys.ErrCriticalSectionAborted && resources.VerifFDState(res) == "uninitialized" {
			return &hres.Viol{Key: "delay/uninitialised-read-does-not-abort", What: fmt.Sprintf("ReadValue of an uninitialised detector returned (%v,%v)", v, err), Replay: map[string]any{"delay": dc}}
		}
		return nil
	}
	// 1. uninitialised: may sleep one interval, never two
	if f := rd(2*delayInterval, "uninitialised-read-over-one-interval"); f != nil {
		return "", f
	}
	// 2. wait (accessor) for the first poll, then reads must not sleep at all: bound one interval
	dl := time.Now().Add(envCap)
	for resources.VerifFDState(res) == "uninitialized" {
		if time.Now().After(dl) {
			envTimeouts.Add(1)
			return "discarded", nil
		}
		time.Sleep(5 * time.Millisecond)
	}
	for k := 0; k < 3; k++ {
		if f := rd(delayInterval, "initialised-read-over-one-interval"); f != nil {
			return "", f
		}
	}
	return dc.Name + " " + strings.Join(obs, " "), nil
}

// ---------------------------------------------------------------------------------------------

type replay struct {
	Choices []int      `json:"choices,omitempty"`
	Tier    string     `json:"tier,omitempty"`
	Delay   *delayCase `json:"delay,omitempty"`
	Shared  bool       `json:"shared_detector,omitempty"` // choices of the shared-detector exploration
	Gate    bool       `json:"cleanup_gate,omitempty"`    // choices of the cleanup-gate exploration
}

func TestCheck(t *testing.T) {
	log.SetOutput(theLogGate) // discards everything; lets an execution run code at the monitor's "started listening" log line
	hres.Main(t, func(env hres.Env) *hres.Result {
		res := &hres.Result{Property: "C19", Level: "exploration"}
		res.Assumptions = []string{
			"monitor shutdown = Monitor.Close() (optionally followed by a silent listener on the same address); process death is not simulated",
			"completeness deadline = 10 s of real time (2500 intervals of 4 ms; 100 of the slowest configuration); an answer that is still wrong then, 6 times in a row, is reported",
			"accuracy (alive while running and reachable) is demanded only in configurations with a 5 s RPC timeout; with the 10-40 ms timeouts of the silent-monitor configurations only completeness is demanded",
			"before the watched archetype has started, and while it runs under a monitor that has not been started yet, the statement requires nothing and nothing is demanded",
			"relay configurations: the detector reaches the monitor through a harness TCP relay (5-20 ms real latency on answers); stall = answers held until k probes have timed out, release = held answers delivered (before or after the next probe), cut = connections closed; while stalled nothing is demanded, afterwards alive / failed as usual, alive also with the 30 ms RPC timeout (there, if the run of 21 agreeing answers is not reached within the deadline, a detector that answered alive on more than half of its reads passes: late answers legitimately count as failures)",
			"early-close configurations also contain the order Close() exactly between ListenAndServe's net.Listen and its first Accept (forced through the log output writer at the line \"Monitor: started listening\"): ListenAndServe must return and must not panic (the panic is recovered in the harness goroutine and reported as the process crash it would be), detectors must report failed",
			"early-close configurations: Monitor.Close() before `go ListenAndServe()`, or right after it without waiting for the listener; the harness then waits until the address accepts a connection or ListenAndServe has returned, accepts both, and demands failed in both",
			"shared-detector configurations drive the real raftkvs client bootstrap (bootstrap.NewClient, Client.Run, Client.Close) against a monitored archetype; a failure gets one of the keys completeness/shared-detector-closed-by-sibling/raftkvs-client[-created-after] only if the accessor shows the detector was closed when a sibling client ended (harness log) and a control detector built by the same helper does report the failure; otherwise the generic key",
			"cleanup-gate configurations: the archetype has ended when its last critical section has (signalled from inside the section; for the gated resource additionally: Run has entered the resource's Close); failed is then demanded within the usual 10 s, judged only after the monitor has answered at least 200 polls since the end (counted by a byte relay); the key completeness/end-recorded-only-after-resource-cleanup is used only if at the verdict RunArchetype had not returned, the monitor still recorded alive, and the detector turned to failed once the Close was allowed to finish - otherwise the generic key",
			"hung-monitor delay cases: pull interval 200 ms, RPC timeout 40 s, monitor accepts and never answers; a read must return within 10 intervals",
			"operation-level orders only: goroutine interleavings inside net/rpc and mainLoop are not controlled",
		}
		cfgs := configs(env.Thorough())
		if env.Replay != nil {
			var r replay
			if err := json.Unmarshal(env.Replay, &r); err != nil {
				t.Fatal(err)
			}
			res.Coverage = map[string]any{"evaluations": 1, "distinct_nontrivial": 0, "rule": "replay", "samples": []any{r}}
			if r.Delay != nil {
				_, f := runDelay(*r.Delay, &worker{ip: procIP(200), port: 20000})
				if f != nil {
					res.Violations = append(res.Violations, *f)
				}
				return res
			}
			if r.Gate {
				v, _, _ := explore.ReplayOnce(gateBody(gateConfigs(r.Tier == "thorough")), r.Choices, 0, &worker{ip: procIP(230), port: 20000})
				if v != nil {
					res.Violations = append(res.Violations, hres.Viol{Key: v.Key, What: v.What, Replay: r})
				}
				return res
			}
			if r.Shared {
				v, _, _ := explore.ReplayOnce(sharedBody(sharedConfigs(r.Tier == "thorough")), r.Choices, 0, &worker{ip: procIP(220), port: 20000})
				if v != nil {
					res.Violations = append(res.Violations, hres.Viol{Key: v.Key, What: v.What, Replay: r})
				}
				return res
			}
			if r.Tier != "" {
				cfgs = configs(r.Tier == "thorough")
			}
			v, _, _ := explore.ReplayOnce(bodyFor(cfgs), r.Choices, 0, &worker{ip: procIP(200), port: 20000})
			if v != nil {
				res.Violations = append(res.Violations, hres.Viol{Key: v.Key, What: v.What, Replay: r})
			}
			return res
		}

		// delay sub-check runs beside the exploration (it is almost all sleeping)
		type dres struct {
			out string
			f   *hres.Viol
		}
		dch := make(chan dres, len(delayCases))
		for i, dc := range delayCases {
			go func(i int, dc delayCase) {
				wk := &worker{ip: procIP(201 + i), port: 20000}
				out, f := runDelay(dc, wk)
				if f != nil { // confirm 5x like every other violation
					for k := 0; k < 5 && f != nil; k++ {
						_, f2 := runDelay(dc, wk)
						if f2 == nil || f2.Key != f.Key {
							f = nil
						}
					}
				}
				dch <- dres{out, f}
			}(i, dc)
		}

		// shared-detector configurations (real raftkvs bootstrap wiring, process-global detector map): one at a time, beside the rest
		scfgs := sharedConfigs(env.Thorough())
		sch := make(chan *explore.Stats, 1)
		go func() {
			sch <- explore.Run(sharedBody(scfgs), explore.Options{Budget: 0, Workers: 1, Deadline: env.Deadline.Add(-20 * time.Second), Samples: 2,
				Setup: func(int) any { return &worker{ip: procIP(220), port: 20000} }})
		}()

		// cleanup-gate configurations: beside the rest as well
		gcfgs := gateConfigs(env.Thorough())
		gch := make(chan *explore.Stats, 1)
		go func() {
			gch <- explore.Run(gateBody(gcfgs), explore.Options{Budget: 0, Workers: 6, Deadline: env.Deadline.Add(-20 * time.Second), Samples: 2,
				Setup: func(w int) any { return &worker{ip: procIP(230 + w), port: 20000} }})
		}()

		workers := env.Workers * 6 // the executions sleep almost all the time
		if workers < 16 {
			workers = 16
		}
		if workers > 48 {
			workers = 48
		}
		st := explore.Run(bodyFor(cfgs), explore.Options{
			Budget: 0, Workers: workers, Deadline: env.Deadline.Add(-20 * time.Second), Samples: 4,
			Setup: func(w int) any { return &worker{ip: procIP(w + 1), port: 20000 + (w*97)%1000} },
		})
		viol := map[string]hres.Viol{}
		for _, v := range st.Violations {
			viol[v.Key] = hres.Viol{Key: v.Key, What: v.What + " | history: " + fmt.Sprint(v.Detail), Replay: replay{Choices: v.Choices, Tier: env.Tier}}
		}
		gst := <-gch
		for _, v := range gst.Violations {
			if _, ok := viol[v.Key]; !ok {
				viol[v.Key] = hres.Viol{Key: v.Key, What: v.What + " | history: " + fmt.Sprint(v.Detail), Replay: replay{Choices: v.Choices, Tier: env.Tier, Gate: true}}
			}
		}
		sst := <-sch
		for _, v := range sst.Violations {
			if _, ok := viol[v.Key]; !ok {
				viol[v.Key] = hres.Viol{Key: v.Key, What: v.What + " | history: " + fmt.Sprint(v.Detail), Replay: replay{Choices: v.Choices, Tier: env.Tier, Shared: true}}
			}
		}
		var delayOut []string
		for range delayCases {
			d := <-dch
			if d.f != nil {
				if _, ok := viol[d.f.Key]; !ok {
					viol[d.f.Key] = *d.f
				}
			} else {
				delayOut = append(delayOut, d.out)
			}
		}
		sort.Strings(delayOut)
		keys := make([]string, 0, len(viol))
		for k := range viol {
			keys = append(keys, k)
		}
		sort.Strings(keys)
		for _, k := range keys {
			res.Violations = append(res.Violations, viol[k])
		}
		perCfg := map[string]int{}
		discarded := 0
		for o, n := range sst.OutcomeHist {
			if strings.HasPrefix(o, "discarded:") {
				discarded += n
				continue
			}
			perCfg[strings.SplitN(o, " ", 2)[0]] += n
		}
		for _, sm := range sst.Samples {
			st.Samples = append(st.Samples, sm)
		}
		for o, n := range gst.OutcomeHist {
			if strings.HasPrefix(o, "discarded:") {
				discarded += n
				continue
			}
			perCfg[strings.SplitN(o, " ", 2)[0]] += n
		}
		for _, sm := range gst.Samples {
			st.Samples = append(st.Samples, sm)
		}
		for o, n := range st.OutcomeHist {
			if strings.HasPrefix(o, "discarded:") {
				discarded += n
				continue
			}
			perCfg[strings.SplitN(o, " ", 2)[0]] += n
		}
		var samples []any
		for _, s := range st.Samples {
			samples = append(samples, s)
		}
		for _, d := range delayOut {
			samples = append(samples, map[string]any{"delay_case": d})
		}
		res.Coverage = map[string]any{
			"evaluations":         int(st.Executions) + int(sst.Executions) + int(gst.Executions) + len(delayCases),
			"distinct_nontrivial": st.Outcomes + sst.Outcomes + gst.Outcomes - boolInt(discarded > 0) + len(delayOut),
			"rule": "every causally possible order of {monitor start, detector start, archetype start, archetype end in {normal,error,panic}, monitor shutdown, and in the relay configurations stall(d,k) / release(d, before|after the next probe) / cut(d) within the fault budget} per configuration " +
				"(fresh Monitor + NewFailureDetector on loopback per order); after each event every started detector is polled until 21 consecutive ReadValue answers, spread over 5 polling intervals, give the required answer " +
				"(deadline 10 s); a never-read twin detector must end in the same state and report; " +
				"distinct = distinct (configuration, event order with end kinds, required/observed final states); plus the delay cases with the interval raised to 1.5 s",
			"samples":                  samples,
			"configurations":           cfgs,
			"orders_per_configuration": perCfg,
			"exhaustive":               st.Exhaustive && sst.Exhaustive && gst.Exhaustive && discarded == 0,
			"cleanup_gate": map[string]any{"configurations": gcfgs, "executions": gst.Executions, "checks": gateChecks.Load(), "checks_while_a_close_was_held": gateHeld.Load(),
				"max_answered_polls_after_end_at_verdict": gateAnswered.Load(), "min_answered_polls_required": gateMinAnswered, "divergences": gst.Divergences, "wall_s": gst.WallS},
			"shared_detector": map[string]any{"configurations": scfgs, "executions": sst.Executions, "violating_executions": int(sst.Executions) - sumNonDiscarded(sst.OutcomeHist),
				"checks": sharedChecks.Load(), "checks_on_detector_closed_by_sibling": sharedClosed.Load(), "divergences": sst.Divergences, "wall_s": sst.WallS},
			"cap_hit":               st.CapHit,
			"divergences":           st.Divergences + sst.Divergences + gst.Divergences,
			"discarded_env_timeout": discarded,
			"env_timeouts":          envTimeouts.Load(),
			"port_rebinds":          portRetries.Load(),
			"accuracy_checks_passed_on_majority_alive": accuracyToleratedTotal.Load(),
			"unconfirmed_candidates":                   unconfirmed(viol),
			"monitor_close_race_panics_recovered":      monitorCloseRacePanics.Load(),
			"early_close":                              map[string]any{"late_listener_came_up": lateStartListening.Load(), "listen_and_serve_returned_first": lateStartReturned.Load(), "close_between_listen_and_accept": closeInWindowRuns.Load()},
			"relay": map[string]any{"stalls": relayStalls.Load(), "releases_after_next_probe": relayLateReleases.Load(), "cuts": relayCuts.Load(),
				"requests_forwarded": relayRequests.Load(), "answers_forwarded": relayAnswers.Load(), "answers_released_late": relayHeld.Load()},
			"detector_checks":          checksTotal.Load(),
			"polls":                    pollsTotal.Load(),
			"max_polls_until_required": maxWaitPolls.Load(),
			"max_read_latency_us":      maxReadMicros.Load(),
			"delay_cases":              len(delayCases),
			"delay_cases_passed":       len(delayOut),
			"settle_polls":             settlePolls,
			"workers":                  workers,
			"explore_wall_s":           st.WallS,
			"not_covered":              "goroutine interleavings inside net/rpc; process death of the monitor host; more than 2 detectors/archetypes",
		}
		return res
	})
}

func boolInt(b bool) int {
	if b {
		return 1
	}
	return 0
}

func unconfirmed(confirmed map[string]hres.Viol) map[string][]string {
	failMu.Lock()
	defer failMu.Unlock()
	out := map[string][]string{}
	for k, v := range candidates {
		if _, ok := confirmed[k]; !ok {
			out[k] = v
		}
	}
	return out
}

// procIP: a loopback address private to this worker of this process (concurrent runs of the check - e.g. a mutant sweep
// beside a normal run - must never meet on an address).
func procIP(w int) string { return fmt.Sprintf("127.19.%d.%d", w, 1+os.Getpid()%250) }

func sumNonDiscarded(h map[string]int) int {
	n := 0
	for _, c := range h {
		n += c
	}
	return n
}

// logGate is the process-wide log output: it discards everything, but an execution can arm it for its monitor address;
// the armed function then runs synchronously inside the monitor's log.Printf("Monitor: started listening on <addr>"),
// i.e. after ListenAndServe's net.Listen and before its first Accept.
type logGate struct {
	mu sync.Mutex
	m  map[string]func()
}

var theLogGate = &logGate{m: map[string]func(){}}

const logGateMark = "Monitor: started listening on "

func (g *logGate) arm(addr string, f func()) {
	g.mu.Lock()
	g.m[addr] = f
	g.mu.Unlock()
}

func (g *logGate) Write(p []byte) (int, error) {
	if i := strings.Index(string(p), logGateMark); i >= 0 {
		addr := strings.TrimSpace(string(p[i+len(logGateMark):]))
		g.mu.Lock()
		f := g.m[addr]
		delete(g.m, addr)
		g.mu.Unlock()
		if f != nil {
			f()
		}
	}
	return len(p), nil
}

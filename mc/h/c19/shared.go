package c19

import (
	"fmt"
	"net"
	"strings"
	"sync"
	"sync/atomic"
	"time"

	"github.com/DistCompiler/pgo/distsys"
	"github.com/DistCompiler/pgo/distsys/resources"
	"github.com/DistCompiler/pgo/distsys/tla"
	"github.com/DistCompiler/pgo/systems/raftkvs/bootstrap"
	rcfg "github.com/DistCompiler/pgo/systems/raftkvs/configs"
	"verif/mc/explore"
)

// shared-detector configurations: the REAL raftkvs client bootstrap wiring (bootstrap.NewClient / Client.Run / Client.Close)
// in one process, watching server 1, which is a monitored archetype under a real Monitor + RunArchetype.
// getFailureDetector hands the same SingleFailureDetector objects (package-global fdMap) to every client archetype of the
// process; the events are {a client ends, the server ends (normal/error/panic), a further client is created and run} in
// every order.  After each event the detector that the running clients read has to settle on the required answer.
//
// The bootstrap package keeps its detectors in a package-global map, so these executions run one at a time.

type sharedCfg struct {
	Name    string `json:"name"`
	Initial []int  `json:"clients_at_start"`
	Later   int    `json:"client_created_by_event"` // 0: none
	EndOne  int    `json:"client_that_ends"`
	Ends    []int  `json:"server_end_kinds"`
}

func sharedConfigs(thorough bool) []sharedCfg {
	ends2 := []int{endError}
	if thorough {
		ends2 = allEnds
	}
	return []sharedCfg{
		{Name: "shared-detector/raftkvs-2-clients", Initial: []int{1, 2}, EndOne: 1, Ends: allEnds},
		{Name: "shared-detector/raftkvs-client-created-later", Initial: []int{1}, Later: 3, EndOne: 1, Ends: ends2},
	}
}

const (
	sharedInterval = 20 * time.Millisecond
	sharedTimeout  = 2 * time.Second
)

var (
	sharedMu     sync.Mutex // bootstrap's fdMap is process-global
	sharedChecks atomic.Int64
	sharedClosed atomic.Int64 // checks that met a detector already closed by a sibling
)

type sharedClient struct {
	id        int
	cl        *bootstrap.Client
	reqCh     chan bootstrap.Request
	done      chan error
	running   bool
	createdAt int // event index at creation
}

type sharedWorld struct {
	c        *explore.Ctx
	cfg      sharedCfg
	root     rcfg.Root
	mon      *resources.Monitor
	arch     *archCtl
	clients  []*sharedClient
	history  []string
	step     int
	closedAt int // event index at which a sibling's end closed the detector (0: not yet)
	iface    distsys.ArchetypeInterface
	controls []*resources.SingleFailureDetector
}

func (w *sharedWorld) discard(why string) {
	envTimeouts.Add(1)
	panic(discard{why})
}

func (w *sharedWorld) fail(key, what string) {
	noteFail(key)
	failMu.Lock()
	if len(candidates[key]) < 3 {
		candidates[key] = append(candidates[key], what+" | history: "+strings.Join(w.history, " "))
	}
	failMu.Unlock()
	w.c.Fail(key, what, w.history)
}

func (w *sharedWorld) startClient(id int) {
	sc := &sharedClient{id: id, cl: bootstrap.NewClient(id, w.root), reqCh: make(chan bootstrap.Request), done: make(chan error, 1), running: true, createdAt: w.step}
	respCh := make(chan bootstrap.Response)
	go func() { sc.done <- sc.cl.Run(sc.reqCh, respCh) }()
	w.clients = append(w.clients, sc)
}

func (w *sharedWorld) stopClient(sc *sharedClient) {
	if !sc.running {
		return
	}
	sc.running = false
	fin := make(chan struct{})
	go func() {
		_ = sc.cl.Close()
		close(sc.reqCh)
		<-sc.done
		close(fin)
	}()
	select {
	case <-fin:
	case <-time.After(envCap):
		w.discard("raftkvs client did not stop")
	}
}

func (w *sharedWorld) detector() distsys.ArchetypeResource {
	return bootstrap.VerifClientDetector(tla.MakeNumber(1))
}

func (w *sharedWorld) read(res distsys.ArchetypeResource) string {
	v, err := res.ReadValue(w.iface)
	pollsTotal.Add(1)
	if err != nil {
		return "abort"
	}
	if v.Equal(tla.ModuleTRUE) {
		return "T"
	}
	return "F"
}

// settle: the same rule as everywhere in C19 - settlePolls+1 consecutive agreeing answers before the deadline.
func (w *sharedWorld) settle(res distsys.ArchetypeResource, want string, limit time.Duration) (ok bool, last string) {
	deadline := time.Now().Add(limit)
	streak := 0
	for {
		last = w.read(res)
		if last == want {
			streak++
			if streak > settlePolls {
				return true, last
			}
		} else {
			streak = 0
		}
		if time.Now().After(deadline) {
			return false, last
		}
		time.Sleep(sharedInterval / 4)
	}
}

func (w *sharedWorld) check() {
	var running []*sharedClient
	for _, sc := range w.clients {
		if sc.running {
			running = append(running, sc)
		}
	}
	fd := w.detector()
	if len(running) == 0 || fd == nil {
		return // no archetype is watching
	}
	want, cause := "F", "running-and-reachable"
	if w.arch.state == 2 {
		want, cause = "T", "archetype-ended-"+endName[w.arch.endKind]
	}
	sharedChecks.Add(1)
	closed := resources.VerifFDClosed(fd)
	generic := keyOf(want, cause)
	key := generic
	limit := fullDeadline
	if closed && w.closedAt > 0 {
		sharedClosed.Add(1)
		// the cause is established from the harness's own log: a sibling client archetype ended (event closedAt) and
		// the accessor shows that this closed the detector the running clients still read
		before := false
		for _, sc := range running {
			if sc.createdAt < w.closedAt {
				before = true
			}
		}
		if before {
			key = "completeness/shared-detector-closed-by-sibling/raftkvs-client"
		} else {
			key = "completeness/shared-detector-closed-by-sibling/raftkvs-client-created-after"
		}
		// a closed detector has no poll loop left (Close waited for it): 60 intervals are as good as any number
		limit = 60 * sharedInterval
	}
	if want != "T" {
		key = generic // the specific keys are about completeness only
	}
	if fc := failCount(key); fc >= 6 {
		limit = 12 * sharedInterval
	}
	ok, last := w.settle(fd, want, limit)
	if ok {
		return
	}
	if key != generic {
		// control: a private detector built by the same helper right now must see the truth, otherwise the monitor
		// itself is the problem and the generic key applies
		ctl := bootstrap.VerifNewSingleFD(w.root, tla.MakeNumber(1))
		w.controls = append(w.controls, ctl)
		if cok, _ := w.settle(ctl, want, fullDeadline); !cok {
			key = generic
		}
	}
	var ids []string
	for _, sc := range running {
		ids = append(ids, fmt.Sprintf("%d(created at step %d)", sc.id, sc.createdAt))
	}
	w.fail(key, fmt.Sprintf("the detector for server 1 that raftkvs client(s) %s read does not settle on %q within %v (= %d polling intervals): last answer %s, state %s, closed=%v (closed when a sibling client ended at step %d; getFailureDetector shares one SingleFailureDetector between all client archetypes and every ending context closes it) (%s)",
		strings.Join(ids, ","), want, limit, int(limit/sharedInterval), last, resources.VerifFDState(fd), closed, w.closedAt, cause))
}

func (w *sharedWorld) cleanup() {
	// synchronously: a client context that is still shutting down closes whatever is in bootstrap's global detector map,
	// i.e. it would close the detectors of the NEXT execution
	var wg sync.WaitGroup
	for _, sc := range w.clients {
		if sc.running {
			sc.running = false
			wg.Add(1)
			go func(sc *sharedClient) {
				defer wg.Done()
				_ = sc.cl.Close()
				close(sc.reqCh)
				<-sc.done
			}(sc)
		}
	}
	fin := make(chan struct{})
	go func() { wg.Wait(); close(fin) }()
	select {
	case <-fin:
	case <-time.After(envCap):
	}
	if w.arch != nil && w.arch.state == 1 {
		select {
		case w.arch.cmd <- endNormal:
		default:
		}
	}
	ctl, mon := w.controls, w.mon
	go func() {
		time.Sleep(50 * time.Millisecond)
		for _, c := range ctl {
			_ = c.Close()
		}
		if mon != nil {
			_ = mon.Close()
		}
	}()
	bootstrap.ResetClientFailureDetector()
}

func sharedBody(cfgs []sharedCfg) func(c *explore.Ctx) {
	return func(c *explore.Ctx) {
		sharedMu.Lock()
		defer sharedMu.Unlock()
		wk := c.User.(*worker)
		cfg := cfgs[c.Choose(len(cfgs), "cfg")]
		w := &sharedWorld{c: c, cfg: cfg, iface: distsys.NewMPCalContextWithoutArchetype().IFace()}
		defer func() {
			x := recover()
			w.cleanup()
			if x != nil {
				if d, ok := x.(discard); ok {
					c.Outcome("discarded:" + d.why)
					return
				}
				panic(x)
			}
		}()
		bootstrap.ResetClientFailureDetector()
		monAddr := wk.freeAddr()
		w.root = rcfg.Root{
			NumServers: 1, NumClients: 3, ClientRequestTimeout: time.Second,
			FD:                        rcfg.FD{PullInterval: sharedInterval, Timeout: sharedTimeout},
			Mailboxes:                 rcfg.Mailboxes{ReceiveChanSize: 10, DialTimeout: 100 * time.Millisecond, ReadTimeout: 100 * time.Millisecond, WriteTimeout: 100 * time.Millisecond},
			LeaderElection:            rcfg.LeaderElection{Timeout: 150 * time.Millisecond, TimeoutOffset: 150 * time.Millisecond},
			AppendEntriesSendInterval: 5 * time.Millisecond, SharedResourceTimeout: 3 * time.Millisecond, InputChanReadTimeout: 5 * time.Millisecond,
			Servers: map[int]rcfg.Server{1: {MailboxAddr: wk.freeAddr(), MonitorAddr: monAddr}},
			Clients: map[int]rcfg.Client{1: {MailboxAddr: wk.freeAddr()}, 2: {MailboxAddr: wk.freeAddr()}, 3: {MailboxAddr: wk.freeAddr()}},
		}
		// server 1: a monitored archetype under a real monitor
		w.mon = resources.NewMonitor(monAddr)
		monErr := make(chan error, 1)
		go func() {
			defer func() {
				if x := recover(); x != nil {
					monitorCloseRacePanics.Add(1)
				}
			}()
			monErr <- w.mon.ListenAndServe()
		}()
		dl := time.Now().Add(envCap)
		for {
			conn, err := net.DialTimeout("tcp", monAddr, time.Second)
			if err == nil {
				conn.Close()
				break
			}
			select {
			case err := <-monErr:
				w.discard(fmt.Sprintf("monitor could not listen: %v", err))
			default:
			}
			if time.Now().After(dl) {
				w.discard("monitor not reachable")
			}
			time.Sleep(time.Millisecond)
		}
		w.arch = newArch(0)
		go func() {
			defer func() { recover() }()
			w.arch.done <- w.mon.RunArchetype(w.arch.ctx)
		}()
		select {
		case <-w.arch.started:
		case <-time.After(envCap):
			w.discard("watched archetype did not start")
		}
		w.arch.state = 1
		for _, id := range cfg.Initial {
			w.startClient(id)
			w.history = append(w.history, fmt.Sprintf("C%d+", id))
		}
		// positive start: the clients' detector reads alive
		if ok, last := w.settle(w.detector(), "F", fullDeadline); !ok {
			w.fail("accuracy/running-and-reachable", fmt.Sprintf("the raftkvs clients' detector never settles on alive for the running server (last %s)", last))
		}
		ended, later := false, false
		for {
			type ev struct {
				name string
				do   func()
			}
			var evs []ev
			if !ended {
				evs = append(evs, ev{fmt.Sprintf("C%d-", cfg.EndOne), func() {
					ended = true
					for _, sc := range w.clients {
						if sc.id == cfg.EndOne {
							w.stopClient(sc)
						}
					}
					if fd := w.detector(); fd != nil && resources.VerifFDClosed(fd) {
						w.closedAt = w.step
					}
				}})
			}
			if w.arch.state == 1 {
				evs = append(evs, ev{"S-", func() {
					k := cfg.Ends[c.Choose(len(cfg.Ends), "end")]
					w.history[len(w.history)-1] += endName[k]
					w.arch.cmd <- k
					select {
					case <-w.arch.done:
					case <-time.After(envCap):
						w.discard("watched archetype did not end")
					}
					w.arch.state, w.arch.endKind = 2, k
				}})
			}
			if cfg.Later != 0 && !later {
				evs = append(evs, ev{fmt.Sprintf("C%d+", cfg.Later), func() { later = true; w.startClient(cfg.Later) }})
			}
			if len(evs) == 0 {
				break
			}
			e := evs[c.Choose(len(evs), "ev")]
			w.step++
			w.history = append(w.history, e.name)
			e.do()
			w.check()
		}
		c.Outcome(cfg.Name + " " + strings.Join(w.history, " "))
	}
}

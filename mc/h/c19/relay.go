package c19

import (
	"net"
	"sync"
	"sync/atomic"
	"time"
)

// relay is a harness-controlled TCP hop between one failure detector (and its never-read twin) and the monitor.
// Requests (detector -> monitor) pass at once; answers (monitor -> detector) always take `lat` of real time and can be
// held back (stall) and let go later (release) without touching the connection, or the connections can be cut.
// It models a monitor host that is temporarily slow or unreachable while its TCP connection survives.
type relay struct {
	l        net.Listener
	addr     string
	upstream string
	lat      time.Duration

	mu    sync.Mutex
	cond  *sync.Cond
	hold  bool
	conns map[*rconn]struct{}
	done  bool

	answered int // answer chunks of the monitor seen by this relay (= answered polls, one chunk each)
}

type chunk struct {
	b  []byte
	ts time.Time
}

type rconn struct {
	c, u     net.Conn
	dead     bool
	pending  []chunk     // answers not yet passed on to the detector
	reqTimes []time.Time // arrival time of every request chunk
}

var (
	relayHeld     atomic.Int64 // answer chunks that were held back and released late
	relayAnswers  atomic.Int64
	relayRequests atomic.Int64
	relayCuts     atomic.Int64
)

func newRelay(listenAddr, upstream string, lat time.Duration) (*relay, error) {
	l, err := net.Listen("tcp", listenAddr)
	if err != nil {
		return nil, err
	}
	r := &relay{l: l, addr: l.Addr().String(), upstream: upstream, lat: lat, conns: map[*rconn]struct{}{}}
	r.cond = sync.NewCond(&r.mu)
	go r.accept()
	return r, nil
}

func (r *relay) accept() {
	for {
		c, err := r.l.Accept()
		if err != nil {
			return
		}
		u, err := net.DialTimeout("tcp", r.upstream, time.Second)
		if err != nil {
			c.Close() // monitor not listening: the detector's connection dies at once
			continue
		}
		rc := &rconn{c: c, u: u}
		r.mu.Lock()
		if r.done {
			r.mu.Unlock()
			c.Close()
			u.Close()
			return
		}
		r.conns[rc] = struct{}{}
		r.mu.Unlock()
		go r.up(rc)
		go r.down(rc)
		go r.writer(rc)
	}
}

func (r *relay) kill(rc *rconn) {
	r.mu.Lock()
	rc.dead = true
	delete(r.conns, rc)
	r.mu.Unlock()
	r.cond.Broadcast()
	rc.c.Close()
	rc.u.Close()
}

// up: detector -> monitor, immediately.
func (r *relay) up(rc *rconn) {
	buf := make([]byte, 4096)
	for {
		n, err := rc.c.Read(buf)
		if n > 0 {
			relayRequests.Add(1)
			r.mu.Lock()
			rc.reqTimes = append(rc.reqTimes, time.Now())
			r.mu.Unlock()
			r.cond.Broadcast()
			if _, werr := rc.u.Write(buf[:n]); werr != nil {
				r.kill(rc)
				return
			}
		}
		if err != nil {
			r.kill(rc)
			return
		}
	}
}

// down: monitor -> queue.
func (r *relay) down(rc *rconn) {
	for {
		buf := make([]byte, 4096)
		n, err := rc.u.Read(buf)
		if n > 0 {
			relayAnswers.Add(1)
			r.mu.Lock()
			r.answered++
			rc.pending = append(rc.pending, chunk{buf[:n], time.Now()})
			r.mu.Unlock()
			r.cond.Broadcast()
		}
		if err != nil {
			r.kill(rc)
			return
		}
	}
}

// writer: queue -> detector, after the latency and only while answers are not held.
func (r *relay) writer(rc *rconn) {
	for {
		r.mu.Lock()
		for (len(rc.pending) == 0 || r.hold) && !rc.dead {
			r.cond.Wait()
		}
		if rc.dead {
			r.mu.Unlock()
			return
		}
		ch := rc.pending[0]
		rc.pending = rc.pending[1:]
		r.mu.Unlock()
		age := time.Since(ch.ts)
		if age < r.lat {
			time.Sleep(r.lat - age)
		} else if age > 4*r.lat {
			relayHeld.Add(1)
		}
		if _, err := rc.c.Write(ch.b); err != nil {
			r.kill(rc)
			return
		}
	}
}

func (r *relay) stall() time.Time {
	r.mu.Lock()
	r.hold = true
	r.mu.Unlock()
	return time.Now()
}

func (r *relay) release() {
	r.mu.Lock()
	r.hold = false
	r.mu.Unlock()
	r.cond.Broadcast()
}

// waitRequests waits until every live connection has carried k requests after `since`; it returns the arrival time of
// the last of them.  ok=false: cap reached or no live connection.
func (r *relay) waitRequests(since time.Time, k int, limit time.Duration) (time.Time, bool) {
	deadline := time.Now().Add(limit)
	for {
		r.mu.Lock()
		all := len(r.conns) > 0
		var last time.Time
		for rc := range r.conns {
			n := 0
			for _, t := range rc.reqTimes {
				if t.After(since) {
					n++
					if n == k && t.After(last) {
						last = t
					}
				}
			}
			if n < k {
				all = false
			}
		}
		r.mu.Unlock()
		if all {
			return last, true
		}
		if time.Now().After(deadline) {
			return time.Time{}, false
		}
		time.Sleep(500 * time.Microsecond)
	}
}

func (r *relay) liveConns() int {
	r.mu.Lock()
	defer r.mu.Unlock()
	return len(r.conns)
}

// cut closes every connection through the relay (both sides); the listener stays.
func (r *relay) cut() {
	r.mu.Lock()
	var cs []*rconn
	for rc := range r.conns {
		cs = append(cs, rc)
	}
	r.mu.Unlock()
	for _, rc := range cs {
		r.kill(rc)
	}
}

func (r *relay) close() {
	r.mu.Lock()
	r.done = true
	r.hold = false
	r.mu.Unlock()
	r.l.Close()
	r.cut()
}

func (r *relay) answeredPolls() int {
	r.mu.Lock()
	defer r.mu.Unlock()
	return r.answered
}

package c19

import (
	"fmt"
	"net"
	"strings"
	"sync"
	"sync/atomic"
	"time"

	"github.com/DistCompiler/pgo/distsys"
	"github.com/DistCompiler/pgo/distsys/resources"
	"github.com/DistCompiler/pgo/distsys/tla"
	"verif/mc/explore"
)

// cleanup-gate configurations: the monitored archetype owns a resource whose Close takes long.  MPCalContext.Run closes
// every resource of the context after the last critical section has ended (also while a panic unwinds) and only then
// returns to Monitor.RunArchetype, which only then records finished / failed.  The archetype has ended when its last
// section has; from then on the watching detector has to settle on failed within the usual bound - while the Close is
// still being held.
//
//	gated        a harness resource whose Close waits for the event "gate opens"
//	own-detector library only: the archetype's own failure detector resource (one realised index) with a long pull interval,
//	             whose Close waits for its own next tick (thorough tier)

type gateCfg struct {
	Name       string `json:"name"`
	Own        bool   `json:"own_detector_as_slow_resource"`
	OwnPullMs  int    `json:"own_detector_pull_interval_ms,omitempty"`
	IntervalMs int    `json:"watcher_pull_interval_ms"`
	TimeoutMs  int    `json:"watcher_rpc_timeout_ms"`
	Ends       []int  `json:"end_kinds"`
}

func gateConfigs(thorough bool) []gateCfg {
	cs := []gateCfg{{Name: "cleanup-gate/gated-resource", IntervalMs: 4, TimeoutMs: 5000, Ends: allEnds}}
	if thorough {
		cs = append(cs, gateCfg{Name: "cleanup-gate/own-detector-closes-slowly", Own: true, OwnPullMs: 14000, IntervalMs: 4, TimeoutMs: 5000, Ends: []int{endError, endPanic}})
	}
	return cs
}

const endHookKey = "completeness/end-recorded-only-after-resource-cleanup"

// minimum number of polls that the monitor must have ANSWERED after the end before a detector that still says alive is judged
const gateMinAnswered = 200

var (
	gateChecks   atomic.Int64
	gateHeld     atomic.Int64 // checks made while a Close of the ended archetype was still held
	gateAnswered atomic.Int64 // max number of answered polls after an end at the moment of a verdict
)

// gateRes is a leaf resource the archetype never touches; only its Close matters.
type gateRes struct {
	distsys.ArchetypeResourceLeafMixin
	entered chan struct{}
	open    chan struct{}
	once    sync.Once
	openMu  sync.Once
}

func newGateRes() *gateRes { return &gateRes{entered: make(chan struct{}), open: make(chan struct{})} }

func (g *gateRes) Abort(distsys.ArchetypeInterface) chan struct{}  { return nil }
func (g *gateRes) PreCommit(distsys.ArchetypeInterface) chan error { return nil }
func (g *gateRes) Commit(distsys.ArchetypeInterface) chan struct{} { return nil }
func (g *gateRes) ReadValue(distsys.ArchetypeInterface) (tla.Value, error) {
	return tla.ModuleTRUE, nil
}
func (g *gateRes) WriteValue(distsys.ArchetypeInterface, tla.Value) error { return nil }
func (g *gateRes) Close() error {
	g.once.Do(func() { close(g.entered) })
	<-g.open
	return nil
}
func (g *gateRes) release() { g.openMu.Do(func() { close(g.open) }) }

type gateWorld struct {
	c       *explore.Ctx
	cfg     gateCfg
	iv      time.Duration
	mon     *resources.Monitor
	monAddr string
	arch    *archCtl
	gate    *gateRes
	ownFD   *resources.FailureDetector
	rel     *relay
	det     *resources.FailureDetector
	detRes  distsys.ArchetypeResource
	iface   distsys.ArchetypeInterface
	history []string
	endedAt int // answered polls at the moment the archetype's last section had ended
	ended   bool
	opened  bool
}

func (w *gateWorld) discard(why string) {
	envTimeouts.Add(1)
	panic(discard{why})
}

func (w *gateWorld) fail(key, what string) {
	noteFail(key)
	failMu.Lock()
	if len(candidates[key]) < 3 {
		candidates[key] = append(candidates[key], what+" | history: "+strings.Join(w.history, " "))
	}
	failMu.Unlock()
	w.c.Fail(key, what, w.history)
}

func (w *gateWorld) read() string {
	v, err := w.detRes.ReadValue(w.iface)
	pollsTotal.Add(1)
	if err != nil {
		return "abort"
	}
	if v.Equal(tla.ModuleTRUE) {
		return "T"
	}
	return "F"
}

// settle: settlePolls+1 consecutive agreeing answers before the deadline; minAnswered > 0: the deadline only counts once
// the monitor has answered that many polls since the end (otherwise the run is not conclusive).
func (w *gateWorld) settle(want string, limit time.Duration, minAnswered int) (ok bool, last string, answered int) {
	deadline := time.Now().Add(limit)
	hard := time.Now().Add(limit + envCap)
	streak := 0
	for {
		last = w.read()
		if last == want {
			streak++
			if streak > settlePolls {
				return true, last, w.rel.answeredPolls() - w.endedAt
			}
		} else {
			streak = 0
		}
		answered = w.rel.answeredPolls() - w.endedAt
		if time.Now().After(deadline) && answered >= minAnswered {
			return false, last, answered
		}
		if time.Now().After(hard) {
			w.discard("the monitor did not answer enough polls to judge")
		}
		time.Sleep(w.iv / 4)
	}
}

func (w *gateWorld) check() {
	if w.det == nil {
		return
	}
	want, cause := "", ""
	switch {
	case w.ended:
		want, cause = "T", "archetype-ended-"+endName[w.arch.endKind]
	case w.arch.state == 1:
		want, cause = "F", "running-and-reachable"
	default:
		time.Sleep(3 * w.iv)
		return
	}
	gateChecks.Add(1)
	generic := keyOf(want, cause)
	held := want == "T" && !w.opened && w.runStillInCleanup()
	if held {
		gateHeld.Add(1)
	}
	limit := fullDeadline
	minAns := 0
	if held {
		minAns = gateMinAnswered
		switch fc := failCount(endHookKey); {
		case fc >= 6:
			limit = fullDeadline / 12
		case fc >= 1:
			limit = fullDeadline / 3
		}
	}
	ok, last, answered := w.settle(want, limit, minAns)
	if ok {
		return
	}
	if !held {
		w.fail(generic, fmt.Sprintf("the watching detector does not settle on %q within %v: last answer %s (state %s) (%s)", want, limit, last, resources.VerifFDState(w.detRes), cause))
	}
	for {
		old := gateAnswered.Load()
		if int64(answered) <= old || gateAnswered.CompareAndSwap(old, int64(answered)) {
			break
		}
	}
	// attribution from the harness's own log: the last section has ended, a Close is still held, the monitor still
	// records alive; then let the Close finish: the detector must turn to failed right after
	monState := resources.VerifMonitorState(w.mon, w.arch.id)
	stillHeld := w.runStillInCleanup()
	w.openGate()
	flipped, last2, _ := w.settle("T", fullDeadline, 0)
	key := generic
	if stillHeld && monState == "alive" && flipped {
		key = endHookKey
	}
	w.fail(key, fmt.Sprintf("the archetype's last critical section has ended (%s) and MPCalContext.Run is closing its resources (a Close is still in progress: %v); the monitor answered %d polls since then, all of them while recording %q, and the watching detector (pull interval %v) still answers %s after %v; once the Close was allowed to finish the detector turned to failed: %v (last answer %s)",
		endName[w.arch.endKind], stillHeld, answered, monState, w.iv, last, limit, flipped, last2))
}

// runStillInCleanup: the archetype's last section has ended and RunArchetype has not returned yet.
func (w *gateWorld) runStillInCleanup() bool {
	if !w.ended || w.arch.state == 3 {
		return false
	}
	select {
	case err := <-w.arch.done:
		w.arch.done <- err
		w.arch.state = 3
		return false
	default:
		return true
	}
}

func (w *gateWorld) openGate() {
	w.opened = true
	if w.gate != nil {
		w.gate.release()
	}
	// own-detector variant: nothing to open, its Close returns at its next tick
	limit := envCap
	if w.cfg.Own {
		limit += time.Duration(w.cfg.OwnPullMs) * time.Millisecond
	}
	if w.arch.state == 3 {
		return
	}
	select {
	case err := <-w.arch.done:
		w.arch.done <- err
		w.arch.state = 3
	case <-time.After(limit):
		w.discard("RunArchetype did not return after the Close was released")
	}
}

func (w *gateWorld) cleanup() {
	if w.gate != nil {
		w.gate.release()
	}
	if w.arch != nil && w.arch.state == 1 {
		select {
		case w.arch.cmd <- endNormal:
		default:
		}
	}
	det, mon, rel, own := w.det, w.mon, w.rel, w.ownFD
	go func() {
		time.Sleep(20 * time.Millisecond)
		if det != nil {
			_ = det.Close()
		}
		if rel != nil {
			rel.close()
		}
		if mon != nil {
			_ = mon.Close()
		}
		_ = own
	}()
}

func gateBody(cfgs []gateCfg) func(c *explore.Ctx) {
	return func(c *explore.Ctx) {
		wk := c.User.(*worker)
		cfg := cfgs[c.Choose(len(cfgs), "cfg")]
		w := &gateWorld{c: c, cfg: cfg, iv: time.Duration(cfg.IntervalMs) * time.Millisecond, iface: distsys.NewMPCalContextWithoutArchetype().IFace()}
		defer func() {
			x := recover()
			w.cleanup()
			if x != nil {
				if d, ok := x.(discard); ok {
					c.Outcome("discarded:" + d.why)
					return
				}
				panic(x)
			}
		}()
		w.monAddr = wk.freeAddr()
		w.mon = resources.NewMonitor(w.monAddr)
		monErr := make(chan error, 1)
		go func() {
			defer func() {
				if x := recover(); x != nil {
					monitorCloseRacePanics.Add(1)
				}
			}()
			monErr <- w.mon.ListenAndServe()
		}()
		dl := time.Now().Add(envCap)
		for {
			conn, err := net.DialTimeout("tcp", w.monAddr, time.Second)
			if err == nil {
				conn.Close()
				break
			}
			select {
			case err := <-monErr:
				w.discard(fmt.Sprintf("monitor could not listen: %v", err))
			default:
			}
			if time.Now().After(dl) {
				w.discard("monitor not reachable")
			}
			time.Sleep(time.Millisecond)
		}
		w.history = append(w.history, "M+")
		rel, err := newRelay(wk.ip+":0", w.monAddr, time.Millisecond)
		if err != nil {
			w.discard("relay cannot listen")
		}
		w.rel = rel
		if cfg.Own {
			// the archetype's own detector resource, watching an address nobody listens on; one realised index
			w.ownFD = resources.NewFailureDetector(func(tla.Value) string { return wk.ip + ":1" },
				resources.WithFailureDetectorPullInterval(time.Duration(cfg.OwnPullMs)*time.Millisecond), resources.WithFailureDetectorTimeout(time.Second))
			if _, err := w.ownFD.Index(w.iface, tla.MakeNumber(99)); err != nil {
				panic(err)
			}
			w.arch = newArch(0, distsys.EnsureArchetypeRefParam("fd", w.ownFD))
		} else {
			w.gate = newGateRes()
			w.arch = newArch(0, distsys.EnsureArchetypeRefParam("gate", w.gate))
		}
		for {
			type ev struct {
				name string
				do   func()
			}
			var evs []ev
			if w.det == nil {
				evs = append(evs, ev{"D+", func() {
					w.det = resources.NewFailureDetector(func(tla.Value) string { return rel.addr },
						resources.WithFailureDetectorPullInterval(w.iv), resources.WithFailureDetectorTimeout(time.Duration(cfg.TimeoutMs)*time.Millisecond))
					res, err := w.det.Index(w.iface, w.arch.id)
					if err != nil {
						panic(err)
					}
					w.detRes = res
				}})
			}
			switch {
			case w.arch.state == 0:
				evs = append(evs, ev{"A+", func() {
					go func() {
						defer func() {
							if x := recover(); x != nil {
								w.arch.done <- fmt.Errorf("panic escaped RunArchetype: %v", x)
							}
						}()
						w.arch.done <- w.mon.RunArchetype(w.arch.ctx)
					}()
					select {
					case <-w.arch.started:
					case <-time.After(envCap):
						w.discard("archetype did not start")
					}
					w.arch.state = 1
				}})
			case w.arch.state == 1 && !w.ended:
				evs = append(evs, ev{"A-", func() {
					k := cfg.Ends[c.Choose(len(cfg.Ends), "end")]
					w.history[len(w.history)-1] += endName[k] + "(last-section-ended,close-held)"
					w.arch.endKind = k
					w.arch.cmd <- k
					select {
					case <-w.arch.ending:
					case <-time.After(envCap):
						w.discard("archetype did not end")
					}
					if w.gate != nil {
						select {
						case <-w.gate.entered: // Run has left its loop and is closing the resources
						case <-time.After(envCap):
							w.discard("Run did not start closing the resources")
						}
					} else {
						time.Sleep(20 * time.Millisecond)
					}
					w.ended = true
					w.endedAt = rel.answeredPolls() + 1 // +1: a poll that was in flight when the section ended
				}})
			case w.ended && !w.opened:
				evs = append(evs, ev{"close-finishes", func() { w.openGate() }})
			}
			if len(evs) == 0 {
				break
			}
			e := evs[c.Choose(len(evs), "ev")]
			w.history = append(w.history, e.name)
			e.do()
			w.check()
		}
		c.Outcome(cfg.Name + " " + strings.Join(w.history, " "))
	}
}

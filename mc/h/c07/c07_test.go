package c07

import (
	"encoding/json"
	"errors"
	"fmt"
	"os"
	"os/exec"
	"path/filepath"
	"sort"
	"strings"
	"sync"
	"sync/atomic"
	"testing"
	"time"

	"github.com/DistCompiler/pgo/distsys"
	"github.com/DistCompiler/pgo/distsys/resources"
	"github.com/DistCompiler/pgo/distsys/tla"
	"github.com/dgraph-io/badger/v3"
	"verif/mc/bubble"
	"verif/mc/explore"
	"verif/mc/hres"
)

const maxSteps = 400

// ---------------------------------------------------------------------------------------------
// the configuration family

// timeoutCombos: lock timeouts (ms) per shared variable x, y, t: every setting in {1, 50} for the
// (at most two) variables a configuration uses; unused variables keep the default 50 ms.
func timeoutCombos(scripts []Script) [][]int {
	used := usedVars(scripts)
	var vs []int
	for v := range varNames {
		if used[v] {
			vs = append(vs, v)
		}
	}
	pats := [][]int{{1, 50}, {50, 1}, {1, 1}, {50, 50}}
	if len(vs) == 1 {
		pats = [][]int{{1}, {50}}
	}
	var out [][]int
	for _, p := range pats {
		to := []int{50, 50, 50}
		for i, v := range vs {
			to[v] = p[i%len(p)]
		}
		out = append(out, to)
	}
	return out
}

func configs(thorough bool) []Config {
	var out []Config
	quickCombos := 0 // >0: the quick tier runs only the first n timeout combinations of the next configuration
	add := func(name string, bound int, inv bool, ctxs ...Script) {
		nv := usesVars(ctxs)
		for k, to := range timeoutCombos(ctxs) {
			if !thorough && quickCombos > 0 && k >= quickCombos {
				continue
			}
			c := Config{Name: name, Ctxs: ctxs, NVars: nv, TimeoutMs: to, Invariant: inv, Bound: bound, Timeouts: 2, MaxAborts: 3}
			if thorough {
				c.Timeouts, c.MaxAborts = 3, 4
			}
			c.Name = fmt.Sprintf("%s/to=%v", name, to)
			out = append(out, c)
		}
	}
	const x, y = 0, 1
	// (1) two contexts, one section each: every unordered pair of the section family (both acquisition orders)
	fam := []struct {
		n string
		s Section
	}{
		{"inc(x)", inc(x)}, {"blind(x)", blind(x)}, {"rr(x)", rr(x)}, {"wr(x)", wr(x)},
		{"inc(y)", inc(y)},
		{"read2(x,y)", read2(x, y)}, {"read2(y,x)", read2(y, x)},
		{"cp(x,y)", cp(x, y)}, {"cp(y,x)", cp(y, x)},
		{"rwr(x,y)", rwr(x, y)}, {"rwr(y,x)", rwr(y, x)},
		{"xfer(x,y)", xfer(x, y)}, {"xfer(y,x)", xfer(y, x)},
	}
	isInv := func(n string) bool { return strings.HasPrefix(n, "xfer") || strings.HasPrefix(n, "read2") }
	quickCombos = 2 // quick: the two mixed timeout settings (1,50) and (50,1) for two-variable pairs; thorough: all four
	for i := range fam {
		for j := i; j < len(fam); j++ {
			add("2x1:"+fam[i].n+"|"+fam[j].n, -1, isInv(fam[i].n) && isInv(fam[j].n), Script{fam[i].s}, Script{fam[j].s})
		}
	}
	quickCombos = 0
	// (2) two contexts, two sections each, unbounded preemptions
	add("2x2:inc(x);inc(x)|inc(x);inc(x)", -1, false, Script{inc(x), inc(x)}, Script{inc(x), inc(x)})
	add("2x2:inc(x);inc(y)|inc(y);inc(x)", -1, false, Script{inc(x), inc(y)}, Script{inc(y), inc(x)})
	quickCombos = 2 // the largest quick configuration: the two mixed timeout settings only; all four in thorough
	add("2x2:cp(x,y);blind(x)|cp(y,x);blind(y)", -1, false, Script{cp(x, y), blind(x)}, Script{cp(y, x), blind(y)})
	quickCombos = 0
	if thorough {
		add("2x2:blind(x);read2(x,y)|blind(y);read2(y,x)", -1, false, Script{blind(x), read2(x, y)}, Script{blind(y), read2(y, x)})
		// the two largest two-section configurations are too large without a bound: preemption bound 4
		add("2x2@pb4:xfer(x,y);read2(x,y)|xfer(y,x);read2(y,x)", 4, true, Script{xfer(x, y), read2(x, y)}, Script{xfer(y, x), read2(y, x)})
		add("2x2@pb4:rwr(x,y);inc(x)|rwr(y,x);inc(y)", 4, false, Script{rwr(x, y), inc(x)}, Script{rwr(y, x), inc(y)})
	}
	// (2b) function-valued shared variable t accessed through Index() (t[k] := v, x := t[k]), two contexts, unbounded
	quickCombos = 2 // quick: the two mixed timeout settings for configurations that also use x
	idx := func(name string, ctxs ...Script) { add("idx:"+name, -1, false, ctxs...) }
	idx("iw(1)|iw(1)", Script{iw(1)}, Script{iw(1)})         // indexed write only
	idx("iw(1)|iw(2)", Script{iw(1)}, Script{iw(2)})         // different elements of one variable
	idx("iinc(1)|iinc(1)", Script{iinc(1)}, Script{iinc(1)}) // increment of one element (lost update)
	idx("iinc(1)|iinc(2)", Script{iinc(1)}, Script{iinc(2)})
	idx("iinc(1)|iw(1)", Script{iinc(1)}, Script{iw(1)})
	idx("iw(1)|wt", Script{iw(1)}, Script{wt()})   // indexed write against whole-variable write ...
	idx("iw(1)|rt", Script{iw(1)}, Script{rt()})   // ... whole-variable read ...
	idx("iw(1)|rwt", Script{iw(1)}, Script{rwt()}) // ... whole-variable read-modify-write
	idx("iinc(1)|wt", Script{iinc(1)}, Script{wt()})
	idx("iinc(2)|rt", Script{iinc(2)}, Script{rt()})
	// an indexed write followed by an abort of that section must leave no trace
	idx("iwA(1)|rt", Script{iwA(1)}, Script{rt()}) // body: await FALSE after the write
	idx("iwA(1)|iinc(1)", Script{iwA(1)}, Script{iinc(1)})
	idx("iwA(1)|iinc(2)", Script{iwA(1)}, Script{iinc(2)})
	idx("iwx(1)|xir(1)", Script{iwx(1)}, Script{xir(1)}) // lock timeout on x, held by the other context, after the indexed write
	idx("iwx(2)|inc(x);ir(2)", Script{iwx(2)}, Script{inc(x), ir(2)})
	// a committed indexed write must survive another sharer's aborted whole-variable write
	idx("iw(1);ir(1)|wtA", Script{iw(1), ir(1)}, Script{wtA()}) // the other sharer aborts by await FALSE
	idx("iinc(1);ir(1)|wtA", Script{iinc(1), ir(1)}, Script{wtA()})
	idx("iw(1);xir(1)|wtx", Script{iw(1), xir(1)}, Script{wtx()})   // the other sharer aborts by lock timeout on x
	idx("iw(1);ir(1)|iwA(2)", Script{iw(1), ir(1)}, Script{iwA(2)}) // ... and another sharer's aborted indexed write
	quickCombos = 0
	// (2d) non-positive lock timeouts (0 and -1 ms): on the unchanged tree a try-lock (x, y, t order of the settings)
	nonpos := func(name string, to []int, ctxs ...Script) {
		out = append(out, Config{Name: fmt.Sprintf("nonpos:%s/to=%v", name, to), Ctxs: ctxs, NVars: usesVars(ctxs), TimeoutMs: to, Bound: -1,
			Timeouts: 2, MaxAborts: 4, TryLock: true})
	}
	for _, to := range [][]int{{0, 0, 50}, {-1, -1, 50}, {0, -1, 50}, {0, 50, 50}} {
		nonpos("xfer(x,y)|xfer(y,x)", to, Script{xfer(x, y)}, Script{xfer(y, x)}) // opposite acquisition orders
	}
	for _, to := range [][]int{{0, 0, 50}, {-1, -1, 50}} {
		nonpos("inc(x);inc(y)|inc(y);inc(x)", to, Script{inc(x), inc(y)}, Script{inc(y), inc(x)})
		nonpos("read2(x,y)|xfer(y,x)", to, Script{read2(x, y)}, Script{xfer(y, x)})
	}
	for _, to := range [][]int{{0, 50, 50}, {-1, 50, 50}} {
		nonpos("inc(x)|inc(x)", to, Script{inc(x)}, Script{inc(x)}) // single-variable contention
	}
	for _, to := range [][]int{{0, 50, 0}, {-1, 50, -1}} {
		nonpos("iw(1);xir(1)|wtx", to, Script{iw(1), xir(1)}, Script{wtx()}) // indexed; x and t taken in opposite orders
		nonpos("iinc(1)|iinc(1)", to, Script{iinc(1)}, Script{iinc(1)})
	}
	// (2e) a section that ends by an assertion failure while it holds shared variables: its run ends with that error,
	// its writes leave no trace, and the other sharers can still commit afterwards (the locks are given back)
	quickCombos = 2
	add("fatal:inc(x)+assert|inc(x)", -1, false, Script{append(inc(x), assertFails)}, Script{inc(x)})
	add("fatal:inc(x)+body-panic|inc(x)", -1, false, Script{append(inc(x), bodyPanics)}, Script{inc(x)})
	add("fatal:iw(1)+body-panic|rt;iinc(1)", -1, false, Script{append(iw(1), bodyPanics)}, Script{rt(), iinc(1)})
	add("fatal:iw(1)+assert|rt;iinc(1)", -1, false, Script{append(iw(1), assertFails)}, Script{rt(), iinc(1)})
	add("fatal:xfer(x,y)+assert|read2(y,x)", -1, true, Script{append(xfer(x, y), assertFails)}, Script{read2(y, x)})
	if thorough {
		add("fatal:xfer(x,y)+assert|read2(y,x);inc(x)", -1, false, Script{append(xfer(x, y), assertFails)}, Script{read2(y, x), inc(x)})
		add("fatal:inc(x);inc(y)+assert|xfer(y,x)", -1, false, Script{inc(x), append(inc(y), assertFails)}, Script{xfer(y, x)})
	}
	quickCombos = 0
	// (2c) sharers wrapped in resources.MakePersistent (in-memory badger): commits go through Persistent.Commit's goroutine
	persist := func(name string, ctxs ...Script) {
		n := len(out)
		add("persist:"+name, -1, false, ctxs...)
		for i := n; i < len(out); i++ {
			out[i].Persist = true
		}
	}
	// (a badger store must be opened inside each bubble, ~50 ms per execution: only the smallest shapes; quick: one timeout setting)
	quickCombos = 1
	persist("inc(x)|inc(x)", Script{inc(x)}, Script{inc(x)})
	persist("iw(1)|rt", Script{iw(1)}, Script{rt()})
	if thorough {
		persist("iwA(1)|rt", Script{iwA(1)}, Script{rt()})
	}
	quickCombos = 0
	// (3) three contexts, preemption bound 2 (thorough: then 3)
	bounds := []int{2}
	if thorough {
		bounds = []int{2, 3}
	}
	quickCombos = 2 // quick: the two mixed timeout settings; thorough: all four
	for _, b := range bounds {
		p := fmt.Sprintf("3@pb%d:", b)
		add(p+"inc(x)|inc(x)|inc(x)", b, false, Script{inc(x)}, Script{inc(x)}, Script{inc(x)})
		add(p+"xfer(x,y)|xfer(y,x)|read2(x,y)", b, true, Script{xfer(x, y)}, Script{xfer(y, x)}, Script{read2(x, y)})
		add(p+"cp(x,y)|cp(y,x)|blind(x)", b, false, Script{cp(x, y)}, Script{cp(y, x)}, Script{blind(x)})
		add(p+"inc(x);inc(y)|inc(y);inc(x)|read2(y,x)", b, false, Script{inc(x), inc(y)}, Script{inc(y), inc(x)}, Script{read2(y, x)})
		add(p+"rwr(x,y)|wr(x)|rr(y)", b, false, Script{rwr(x, y)}, Script{wr(x)}, Script{rr(y)})
		add(p+"iw(1)|wtA|ir(1)", b, false, Script{iw(1)}, Script{wtA()}, Script{ir(1)})
		add(p+"iwA(1)|iinc(1)|rt", b, false, Script{iwA(1)}, Script{iinc(1)}, Script{rt()})
	}
	return out
}

// ---------------------------------------------------------------------------------------------
// one execution

type execOut struct {
	fail    *Failure
	detail  any
	outcome string
	capped  bool
	discard string // environment artefact: never judged
}

// build creates the managers, contexts and (when s != nil) the scheduler threads of a configuration.
// With s == nil everything is bare (no wrappers, no gate): the free-running race pass.
type world struct {
	mgrs []*resources.LocalSharedManager
	ctxs []*distsys.MPCalContext
	st   []*ctxState
	ths  []*bubble.Thread
	log  *bubble.Log

	aborts   atomic.Int32
	abortsBy []atomic.Int32 // per context
	db       *badger.DB
}

func build(cfg Config, s *bubble.Sched) *world {
	w := &world{log: &bubble.Log{}}
	if cfg.Persist && s != nil {
		w.db = openPersistDB()
		s.OnDrain(func() { w.db.Close() })
	}
	for v := 0; v < len(varNames); v++ {
		to := 50
		if v < len(cfg.TimeoutMs) {
			to = cfg.TimeoutMs[v]
		}
		w.mgrs = append(w.mgrs, resources.NewLocalSharedManager(initialValue(v),
			resources.WithLocalSharedResourceTimeout(time.Duration(to)*time.Millisecond)))
	}
	w.abortsBy = make([]atomic.Int32, len(cfg.Ctxs))
	for i, script := range cfg.Ctxs {
		i, script := i, script
		name := fmt.Sprintf("A%d", i)
		st := &ctxState{idx: i, name: name}
		w.st = append(w.st, st)
		var opts []distsys.MPCalContextConfigFn
		attempt := func() int { return 0 }
		if s != nil {
			th := s.NewThread(name)
			w.ths = append(w.ths, th)
			g := bubble.NewGate(th)
			st.gate = g
			// no scheduling point at the start of an attempt: between the loop head of Run and the first access
			// of a shared variable the goroutine touches nothing another context can see (the first access is a
			// scheduling point itself)
			g.ParkIf = func(pc string) bool { return false }
			g.OnGrant = func(pc string, _ int) { w.log.Mark(name, "begin", pc) }
			attempt = func() int { return g.Attempts }
			txn := &bubble.Txn{Th: th, OnPhase: func(ph string) {
				w.log.Mark(name, "phase", ph)
				if ph == "abort" {
					w.aborts.Add(1)
					w.abortsBy[i].Add(1)
				}
			}}
			opts = append(opts, distsys.SetFairnessCounter(g))
			for v, vn := range varNames {
				var sharer distsys.ArchetypeResource = w.mgrs[v].MakeLocalShared()
				if cfg.Persist {
					sharer = resources.MakePersistent(name+"."+vn, w.db, w.mgrs[v].MakeLocalShared())
				}
				res := &bubble.Yielding{Th: th, Name: vn, Txn: txn,
					Inner: &bubble.Logging{Name: vn, Who: name, Log: w.log, Inner: sharer}}
				opts = append(opts, distsys.EnsureArchetypeRefParam(vn, res))
			}
		} else {
			n := 0
			attempt = func() int { n++; return n }
			for v, vn := range varNames {
				opts = append(opts, distsys.EnsureArchetypeRefParam(vn, w.mgrs[v].MakeLocalShared()))
			}
		}
		ctx := distsys.NewMPCalContext(tla.MakeString(name), makeArchetype(name, i, script, attempt), opts...)
		w.ctxs = append(w.ctxs, ctx)
		if s != nil {
			w.ths[i].Start(func() {
				// (as resources.Monitor.RunArchetype does: a panicking archetype must not take its siblings down)
				defer func() {
					if x := recover(); x != nil {
						st.runPanic = fmt.Sprint(x)
						st.runDone = true
					}
				}()
				st.runErr = ctx.Run()
				st.runDone = true
			})
		}
	}
	return w
}

// finalState reads GetState() of every variable the configuration uses through fresh sharers
// (locations of unused variables keep their initial value).
// openPersistDB opens an in-memory badger store.  Inside a bubble it must be opened by a goroutine of
// that bubble (its goroutines, channels and WaitGroups then all belong to it; sharing a store opened
// outside is fatal: "WaitGroup.Add called from inside and outside synctest bubble").
func openPersistDB() *badger.DB {
	db, err := badger.Open(badger.DefaultOptions("").WithInMemory(true).WithLogger(nil).WithNumCompactors(0).WithNumGoroutines(1))
	if err != nil {
		panic(err)
	}
	return db
}

func (w *world) finalState(cfg Config) ([]int32, error) {
	out := append([]int32(nil), initial...)
	used := usedVars(cfg.Ctxs)
	for v := range varNames {
		if !used[v] {
			continue
		}
		b, err := w.mgrs[v].MakeLocalShared().GetState()
		if err != nil {
			return nil, err
		}
		vals, err := decodeState(v, b)
		if err != nil {
			return nil, err
		}
		for i, l := range locsOf(v) {
			out[l] = vals[i]
		}
	}
	return out, nil
}

func usedVars(scripts []Script) map[int]bool {
	used := map[int]bool{}
	for _, sc := range scripts {
		for _, sec := range sc {
			for _, o := range sec {
				if o.K != "A" && o.K != "F" && o.K != "P" {
					used[o.V] = true
				}
			}
		}
	}
	return used
}

func execute(t *testing.T, cfg Config, c bubble.Chooser, strict bool) execOut {
	var res execOut
	var evs []bubble.Event
	var final []int32
	var finalErr error
	aborts := 0
	deadlock, leak, livelock := "", false, ""
	out := bubble.Run(t, bubble.Options{Strict: strict, SelectIsChanWait: false}, func(s *bubble.Sched) {
		w := build(cfg, s)
		for _, ctx := range w.ctxs {
			s.OnDrain(ctx.Stop)
		}
		timeouts := cfg.Timeouts
		frozenAt := -1
		abortsSeen := make([]int32, len(w.ths))
		for {
			s.Settle()
			if s.Steps > maxSteps {
				res.capped = true
				if frozenAt >= 0 && s.Steps-frozenAt >= maxSteps/2 {
					// at least 200 steps on the non-preemptive default schedule (run the current thread until it
					// blocks or ends, fire a timer only when nothing else can move) and still not finished
					livelock = s.Describe()
				}
				break
			}
			ch := c
			if int(w.aborts.Load()) >= cfg.MaxAborts {
				ch = defaultOnly{} // bound reached: no further alternatives, the default schedule finishes the execution
				if frozenAt < 0 {
					frozenAt = s.Steps
				}
			}
			// a thread whose attempt aborted during its last step has given up its turn: the default schedule
			// goes on with another thread (otherwise a try-lock waiter would spin while the holder never runs)
			yielded := false
			for i, th := range w.ths {
				if n := w.abortsBy[i].Load(); th == s.Last() && n != abortsSeen[i] {
					yielded = true
				}
				abortsSeen[i] = w.abortsBy[i].Load()
			}
			m, ok := s.Pick(ch, bubble.PickOpt{PreemptCosts: cfg.Bound >= 0, OfferTime: timeouts > 0, LastYielded: yielded})
			if !ok {
				break
			}
			if m.Time {
				if !m.Forced {
					timeouts--
				}
				if !s.AdvanceTime() {
					if m.Forced {
						deadlock = s.Describe()
						break
					}
					timeouts = 0 // no timer is pending (the blocked thread waits without a timeout): the move had no effect, do not offer it again
				}
				continue
			}
			s.Grant(m.Th)
		}
		if deadlock == "" && !res.capped {
			// all contexts returned: read the final state through fresh sharers, in a thread of its own
			// so that a lock that was never released is observed instead of blocking the driver
			gs := s.Go("getstate", func() { final, finalErr = w.finalState(cfg) })
			s.Settle()
			s.Grant(gs)
			s.Settle()
			if gs.State() != bubble.Finished {
				leak = true
			}
		}
		evs = w.log.Events()
		aborts = int(w.aborts.Load())
		for _, th := range w.ths {
			if p, stk := th.Panic(); p != nil && res.fail == nil {
				res.fail = &Failure{"panic", fmt.Sprintf("context %s panicked: %v", th.Name, p)}
				res.detail = stk
			}
		}
		for i, st := range w.st {
			if res.fail != nil || deadlock != "" || res.capped {
				continue
			}
			if panicsAt(cfg.Ctxs[i]) {
				// this context's body panics: the panic must come out of Run (the wrapper recovered it)
				if !strings.Contains(st.runPanic, bodyPanicMsg) {
					res.fail = &Failure{"run-error", fmt.Sprintf("context %s: its body panicked but Run returned %v / panicked with %q", st.name, st.runErr, st.runPanic)}
				}
				continue
			}
			if st.runPanic != "" {
				res.fail = &Failure{"panic", fmt.Sprintf("context %s panicked: %s", st.name, st.runPanic)}
				continue
			}
			if fatalAt(cfg.Ctxs[i]) >= 0 {
				// this context's script ends by an assertion failure: its Run must report exactly that
				if !st.runDone || !errors.Is(st.runErr, distsys.ErrAssertionFailed) {
					res.fail = &Failure{"run-error", fmt.Sprintf("context %s: Run returned %v (done=%v), expected the assertion failure of its script", st.name, st.runErr, st.runDone)}
				}
				continue
			}
			if !st.runDone || st.runErr != nil {
				res.fail = &Failure{"run-error", fmt.Sprintf("context %s: Run returned %v (done=%v)", st.name, st.runErr, st.runDone)}
			}
		}
	})
	if out.Hang != nil && !out.Hang.Draining { // (a hang while draining: the driver's results stand)
		if out.Hang.Deadlock {
			res.fail = &Failure{"deadlock", "the execution stopped making progress: " + out.Hang.Reason}
			res.detail = out.Hang
			return res
		}
		res.discard = "hang:" + out.Hang.Reason
		return res
	}
	if livelock != "" {
		res.capped = false
		res.fail = &Failure{"no-termination", fmt.Sprintf("the contexts do not finish: after %d aborted attempts the execution ran more than %d further steps on the non-preemptive default schedule without ending (%d attempts aborted in total): %s", cfg.MaxAborts, maxSteps/2, aborts, livelock)}
		if len(evs) > 120 {
			evs = evs[:120]
		}
		res.detail = renderEvents(evs)
		return res
	}
	if res.capped {
		res.detail = renderEvents(evs)
		return res
	}
	if deadlock != "" {
		res.fail = &Failure{"deadlock", "no thread can move and 10 s of virtual time (200x the largest lock timeout) unblock nothing: " + deadlock}
		res.detail = renderEvents(evs)
		return res
	}
	if res.fail != nil {
		if res.detail == nil {
			res.detail = renderEvents(evs)
		}
		return res
	}
	if leak {
		res.fail = &Failure{"lock-leak", "after every context returned, GetState() of a fresh sharer blocks: a lock was never released"}
		res.detail = renderEvents(evs)
		return res
	}
	if finalErr != nil {
		res.fail = &Failure{"getstate-error", finalErr.Error()}
		return res
	}
	// every context must have committed exactly its sections
	all := attempts(evs)
	committed := map[string]int{}
	aborted := 0
	var order []string
	for _, a := range all {
		if a.committed {
			committed[a.who]++
		} else if a.aborted {
			aborted++
		}
	}
	for i, sc := range cfg.Ctxs {
		name := fmt.Sprintf("A%d", i)
		want := len(sc)
		if f := fatalAt(sc); f >= 0 {
			want = f // the sections before the failing one; the failing one must leave no trace
		}
		if committed[name] != want {
			res.fail = &Failure{"section-count", fmt.Sprintf("context %s committed %d sections, its script has %d", name, committed[name], len(sc))}
			res.detail = renderEvents(evs)
			return res
		}
	}
	if f := judge(cfg, evs, final); f != nil {
		res.fail = f
		res.detail = renderEvents(evs)
		return res
	}
	var com []*attempt
	for _, a := range all {
		if a.committed {
			com = append(com, a)
		}
	}
	sort.Slice(com, func(i, j int) bool { return com[i].commitSeq < com[j].commitSeq })
	for _, a := range com {
		order = append(order, a.pc)
	}
	res.outcome = fmt.Sprintf("%s final=%v aborted=%d", strings.Join(order, ">"), final, aborted)
	return res
}

// defaultOnly answers every scheduling decision with the default (no preemption, no early timer).
type defaultOnly struct{}

func (defaultOnly) Choose(int, string) int  { return 0 }
func (defaultOnly) Deviate(int, string) int { return 0 }

// ---------------------------------------------------------------------------------------------

type replayCase struct {
	Cfg     Config `json:"config"`
	Choices []int  `json:"choices"`
}

func body(t *testing.T, cfg Config, strict bool, sink func(execOut)) func(c *explore.Ctx) {
	var failing atomic.Int32
	return func(c *explore.Ctx) {
		if failing.Load() > 12 {
			// this configuration already produced confirmed violations: do not enumerate the rest of its tree
			// (runConfig reports the configuration as not exhaustive)
			if sink != nil {
				sink(execOut{discard: "cut"})
			}
			c.Prune()
		}
		r := execute(t, cfg, c, strict)
		if r.fail != nil {
			failing.Add(1)
		}
		if sink != nil {
			sink(r)
		}
		if r.discard != "" {
			c.Outcome("DISCARDED")
			return
		}
		if r.capped {
			c.Outcome("STEP-CAP")
			return
		}
		if r.fail != nil {
			c.Fail(r.fail.Kind+"/"+cfg.Name, r.fail.What, r.detail)
		}
		c.Outcome(r.outcome)
	}
}

func budgetOf(cfg Config) int {
	if cfg.Bound < 0 {
		return 0
	}
	return cfg.Bound
}

// taskOut is what a shard worker reports for one configuration.
type taskOut struct {
	Cfg         string               `json:"cfg"`
	Executions  int64                `json:"executions"`
	Points      int64                `json:"points"`
	Divergences int64                `json:"divergences"`
	Outcomes    int                  `json:"outcomes"`
	Exhaustive  bool                 `json:"exhaustive"`
	CapHit      string               `json:"cap_hit"`
	WallS       float64              `json:"wall_s"`
	Discards    int                  `json:"discards"`
	Capped      int                  `json:"capped"`
	Leaked      int64                `json:"leaked"`
	Sample      *explore.Sample      `json:"sample,omitempty"`
	Violations  []*explore.Violation `json:"violations,omitempty"`
}

func runConfig(t *testing.T, cfg Config, deadline time.Time) taskOut {
	var mu sync.Mutex
	o := taskOut{Cfg: cfg.Name}
	leakedBefore := bubble.Leaked()
	cut := false
	sink := func(r execOut) {
		mu.Lock()
		defer mu.Unlock()
		if r.discard == "cut" {
			cut = true
		} else if r.discard != "" {
			o.Discards++
		}
		if r.capped {
			o.Capped++
		}
	}
	st := explore.Run(body(t, cfg, false, sink), explore.Options{Budget: budgetOf(cfg), Workers: 1, Deadline: deadline, MaxDepth: 2000, PanicIsBug: true, Samples: 1, MaxViol: 4})
	o.Executions, o.Points, o.Divergences, o.Outcomes = st.Executions, st.Points, st.Divergences, st.Outcomes
	o.Exhaustive, o.CapHit, o.WallS = st.Exhaustive, st.CapHit, st.WallS
	if cut {
		o.Exhaustive, o.CapHit = false, "cut_after_violations"
	}
	o.Leaked = bubble.Leaked() - leakedBefore
	if len(st.Samples) > 0 {
		o.Sample = &st.Samples[0]
	}
	for _, v := range st.Violations {
		v.Points = nil
		o.Violations = append(o.Violations, v)
	}
	return o
}

// TestWorker is the shard worker (GOMAXPROCS=1 child of TestCheck); it does nothing when run directly.
func TestWorker(t *testing.T) {
	if !bubble.IsChild() {
		t.Skip("shard worker: started by TestCheck")
	}
	cfgs := configs(os.Getenv("VERIF_TIER") == "thorough")
	bubble.ChildLoop(func(task int) any { return runConfig(t, cfgs[task], bubble.ChildDeadline()) })
}

func weight(cfg Config) int {
	steps := 1
	for _, sc := range cfg.Ctxs {
		n := 0
		for _, sec := range sc {
			n += len(sec) + 2
		}
		steps *= n
	}
	if cfg.Bound >= 0 {
		steps *= 4
	}
	if cfg.Persist {
		steps *= 500 // slow executions: start them first
	}
	return steps
}

func TestCheck(t *testing.T) {
	hres.Main(t, func(env hres.Env) *hres.Result {
		res := &hres.Result{Property: "C07", Level: "exploration"}
		res.Assumptions = []string{
			"threads are the real MPCalContext.Run goroutines, advanced one resource operation at a time inside a testing/synctest bubble (virtual time); scheduling points: before every read/write of a shared variable and before every inner Commit/Abort of a shared variable (the start of an attempt is not one: up to its first shared access a Run goroutine touches nothing another context can see)",
			"MPCalContext.commit/abort walk the touched resources in Go map order; the harness fixes that order (by variable name) through wrappers written against the public ArchetypeResource interface - every order so produced is one the map iteration can produce",
			"while a thread is blocked inside a step every scheduling round burns 1 µs of virtual time so that concurrently pending lock timers have distinct deadlines (ordered by creation, or by the 1 ms / 50 ms settings); two timers firing at the same instant is not explored",
			"no lock timeout exceeds 10 s (deadlock verdict: no thread can move and 10 virtual seconds unblock nothing)",
		}
		if env.Replay != nil {
			var r replayCase
			if err := json.Unmarshal(env.Replay, &r); err != nil {
				t.Fatal(err)
			}
			v, outc, _ := explore.ReplayOnce(body(t, r.Cfg, true, nil), r.Choices, 1<<20, nil)
			res.Coverage = map[string]any{"evaluations": 1, "distinct_nontrivial": 0, "rule": "replay", "samples": []any{outc}}
			if v != nil {
				res.Violations = append(res.Violations, hres.Viol{Key: v.Key, What: v.What, Replay: r})
			}
			return res
		}
		cfgs := configs(env.Thorough())
		var tasks []int
		for i, cfg := range cfgs {
			if f := os.Getenv("C07_ONLY"); f != "" && !strings.Contains(cfg.Name, f) {
				continue
			}
			tasks = append(tasks, i)
		}
		// largest first (load balance); the thorough tier keeps its own deadline of 25 min and runs the
		// configurations that only it has last, so that a cap can only hit those
		deadline := env.Deadline
		if d := time.Now().Add(25 * time.Minute); env.Thorough() && d.Before(deadline) {
			deadline = d
		}
		quickSet := map[string]bool{}
		for _, c := range configs(false) {
			quickSet[c.Name] = true
		}
		sort.SliceStable(tasks, func(a, b int) bool {
			ca, cb := cfgs[tasks[a]], cfgs[tasks[b]]
			if quickSet[ca.Name] != quickSet[cb.Name] {
				return quickSet[ca.Name]
			}
			return weight(ca) > weight(cb)
		})
		var evals, points, diverg, leakedB int64
		distinct, discards, capped, done, died := 0, 0, 0, 0, 0
		exhaustive := true
		caps := map[string]int{}
		viol := map[string]hres.Viol{}
		kinds := map[string]int{}
		var samples []any
		byShape := map[string]int64{}
		var slowest taskOut
		var tryCfgs int
		var tryExecs, tryDiverg int64
		sampled := map[string]bool{}
		err := bubble.RunSharded(os.Getenv("VERIF_SELF"), "TestWorker", env.Workers, tasks, deadline, nil, func(r bubble.TaskResult) {
			cfg := cfgs[r.Task]
			if r.JSON == nil {
				died++
				exhaustive = false
				caps["worker_died:"+cfg.Name]++
				if os.Getenv("C07_DEBUG") != "" {
					fmt.Println("WORKER DIED", cfg.Name, r.Died)
				}
				return
			}
			var o taskOut
			if err := json.Unmarshal(r.JSON, &o); err != nil {
				died++
				exhaustive = false
				return
			}
			done++
			if os.Getenv("C07_DEBUG") != "" {
				fmt.Printf("%-70s exec=%d outcomes=%d capped=%d wall=%.2fs\n", cfg.Name, o.Executions, o.Outcomes, o.Capped, o.WallS)
			}
			evals += o.Executions
			points += o.Points
			if cfg.TryLock {
				// executions of these configurations are not reproducible (random select between a free lock and an
				// expired timer): their replay divergences are counted apart and never make the check fail
				tryCfgs++
				tryExecs += o.Executions
				tryDiverg += o.Divergences
				o.Divergences = 0
				if o.CapHit == "" {
					o.Exhaustive = true
				}
			}
			diverg += o.Divergences
			distinct += o.Outcomes
			discards += o.Discards
			capped += o.Capped
			leakedB += o.Leaked
			if o.WallS > slowest.WallS {
				slowest = o
			}
			byShape[strings.SplitN(cfg.Name, ":", 2)[0]] += o.Executions
			if !o.Exhaustive {
				exhaustive = false
				caps[o.CapHit]++
			}
			if shape := strings.SplitN(cfg.Name, ":", 2)[0]; !sampled[shape] && o.Sample != nil && o.Executions > 50 {
				sampled[shape] = true
				samples = append(samples, map[string]any{"config": cfg.Name, "scripts": fmt.Sprint(cfg.Ctxs), "executions": o.Executions, "distinct_outcomes": o.Outcomes, "schedule": o.Sample.Choices, "outcome": o.Sample.Outcome})
			}
			for _, v := range o.Violations {
				kind := strings.SplitN(v.Key, "/", 2)[0]
				kinds[kind]++
				if _, dup := viol[v.Key]; dup {
					continue
				}
				viol[v.Key] = hres.Viol{Key: v.Key, What: v.What + " [config " + cfg.Name + " scripts " + fmt.Sprint(cfg.Ctxs) + "]", Replay: replayCase{Cfg: cfg, Choices: v.Choices}}
			}
		})
		if err != nil {
			t.Fatalf("cannot start shard workers: %v", err)
		}
		// a few witnesses per kind are enough: keep the two smallest keys of each kind
		keys := make([]string, 0, len(viol))
		for k := range viol {
			keys = append(keys, k)
		}
		// smallest configuration first: fewest contexts, then fewest accesses, then by name
		size := func(k string) int {
			rc := viol[k].Replay.(replayCase)
			n := 0
			for _, sc := range rc.Cfg.Ctxs {
				n += 100
				for _, sec := range sc {
					n += len(sec)
				}
			}
			return n
		}
		sort.Slice(keys, func(i, j int) bool {
			if si, sj := size(keys[i]), size(keys[j]); si != sj {
				return si < sj
			}
			return keys[i] < keys[j]
		})
		perKind := map[string]int{}
		for _, k := range keys {
			kind := strings.SplitN(k, "/", 2)[0]
			if perKind[kind]++; perKind[kind] > 2 {
				continue
			}
			res.Violations = append(res.Violations, viol[k])
		}
		if discards > 0 || capped > 0 || done < len(tasks) {
			exhaustive = false
		}
		if len(samples) == 0 {
			samples = append(samples, map[string]any{"config": slowest.Cfg, "executions": slowest.Executions, "sample": slowest.Sample})
		}
		cov := map[string]any{
			"evaluations":           evals,
			"distinct_nontrivial":   distinct,
			"rule":                  "one evaluation = one complete schedule (one synctest bubble) of one configuration; distinct = distinct (configuration, commit order of the sections, final GetState of x,y, number of aborted attempts)",
			"samples":               samples,
			"exhaustive":            exhaustive,
			"configurations":        len(tasks),
			"configurations_done":   done,
			"executions_by_shape":   byShape,
			"choice_points":         points,
			"divergences":           diverg,
			"discarded_runs":        discards,
			"step_capped_runs":      capped,
			"caps_hit":              caps,
			"workers_died":          died,
			"violation_kinds_seen":  kinds,
			"leaked_bubbles":        leakedB,
			"largest_configuration": map[string]any{"config": slowest.Cfg, "executions": slowest.Executions, "wall_s": slowest.WallS},
			"shard_workers":         env.Workers,
			"try_lock_configurations": map[string]any{"configurations": tryCfgs, "executions": tryExecs, "replay_divergences": tryDiverg,
				"note": "lock timeouts 0 and -1 ms: on the unchanged tree the acquisition is a try-lock whose outcome on a free lock is Go's random choice between the lock and an already expired timer, so these executions are not reproducible; every observed execution is judged (serializability of what committed, no trace of aborted sections, termination, no deadlock) but the set of schedules is sampled by that coin, not enumerated: 'exhaustive' does not cover them"},
			"bounds": "2 contexts x 1 section: all 91 pairs of 13 whole-variable section shapes (<=4 accesses, both acquisition orders), unbounded preemptions; 19 two-context configurations over a function-valued shared variable t accessed through Index() (indexed write only, increment of one element, indexed against whole-variable write/read, indexed write then abort of the section by await FALSE or by a lock timeout on x held by the other context, committed indexed write followed by another sharer's aborted whole-variable or indexed write), unbounded; 3 smallest shapes with every sharer wrapped in resources.MakePersistent over an in-memory badger store opened inside the bubble; 2 contexts x 2 sections: 3 (thorough 4) configurations, unbounded, thorough also the 2 largest at preemption bound 4; 3 contexts: 7 configurations (2 with indexed access) at preemption bound 2 (thorough also 3); lock timeouts per variable in {1 ms, 50 ms}, and {0, -1 ms} for 6 shapes (opposite-order xfer/read2 pairs, inc(x);inc(y)|inc(y);inc(x), inc(x)|inc(x), two indexed shapes); 'timer fires first' may be chosen 2 (thorough 3) times per execution while another move is enabled and is forced whenever nothing else can move; after 3 (thorough 4) aborted attempts in one execution no further alternatives are explored (the execution is finished on the default schedule and still judged)",
		}
		if env.Thorough() {
			cov["race_pass"] = racePass(env)
		}
		res.Coverage = cov
		return res
	})
}

// ---------------------------------------------------------------------------------------------
// free-running -race pass of the same bodies (thorough tier): reports unsynchronised access, never a verdict

func racePass(env hres.Env) map[string]any {
	out := map[string]any{"ran": false}
	verif := os.Getenv("VERIF_DIR")
	if verif == "" {
		verif = "/verif"
	}
	repo := os.Getenv("VERIF_REPO")
	if repo == "" {
		repo = "/repo"
	}
	scratch := os.Getenv("VERIF_SCRATCH")
	if scratch == "" {
		scratch = filepath.Join(verif, ".scratch", "c07-race")
		os.MkdirAll(scratch, 0755)
		defer os.RemoveAll(scratch)
	}
	overlay := os.Getenv("VERIF_OVERLAY")
	if overlay == "" {
		// the driver's overlay of this run (hooks + mutant), if it is still there
		cand := filepath.Join(verif, ".scratch", fmt.Sprintf("overlay-C07-%d.json", os.Getppid()))
		if _, err := os.Stat(cand); err == nil {
			overlay = cand
		}
	}
	if overlay == "" {
		// rebuild the hooks-only overlay
		repl := map[string]string{}
		hooks := filepath.Join(verif, "hooks")
		filepath.Walk(hooks, func(p string, fi os.FileInfo, err error) error {
			if err == nil && !fi.IsDir() && strings.HasSuffix(p, ".go") {
				rel, _ := filepath.Rel(hooks, p)
				repl[filepath.Join(repo, rel)] = p
			}
			return nil
		})
		b, _ := json.Marshal(map[string]any{"Replace": repl})
		overlay = filepath.Join(scratch, "race-overlay.json")
		os.WriteFile(overlay, b, 0644)
	}
	cmd := exec.Command("go1.26.8", "test", "-race", "-vet=off", "-tags", "verif", "-overlay", overlay, "-count=1", "-v", "-timeout", "40m", "-run", "^TestRaceBodies$", "./h/c07")
	if raceBin := os.Getenv("VERIF_SELF_RACE"); raceBin != "" {
		// the driver built this harness with -race (same overlay): run that binary instead of building here
		cmd = exec.Command(raceBin, "-test.run", "^TestRaceBodies$", "-test.v", "-test.timeout", "40m", "-test.count", "1")
		out["race_binary"] = raceBin
	}
	cmd.Dir = filepath.Join(verif, "mc")
	cmd.Env = append(os.Environ(), "GOFLAGS=-mod=mod", "GOPROXY=off", "GOSUMDB=off", "GOTOOLCHAIN=local", "GOWORK=off",
		"GOCACHE="+filepath.Join(verif, ".gocache"), "CGO_ENABLED=1", "VERIF_RACE_ROUNDS=200")
	start := time.Now()
	b, err := cmd.CombinedOutput()
	txt := string(b)
	out["wall_s"] = time.Since(start).Seconds()
	out["overlay"] = overlay
	if strings.Contains(txt, "RACE-PASS-DONE") {
		out["ran"] = true
	}
	out["races_reported"] = strings.Count(txt, "WARNING: DATA RACE")
	if i := strings.Index(txt, "WARNING: DATA RACE"); i >= 0 {
		e := i + 1500
		if e > len(txt) {
			e = len(txt)
		}
		out["first_report"] = txt[i:e]
	}
	for _, l := range strings.Split(txt, "\n") {
		if strings.HasPrefix(l, "RACE-PASS-DONE") {
			out["summary"] = l
		}
	}
	if err != nil && out["ran"] == false {
		out["error"] = err.Error() + ": " + tail(txt, 800)
	}
	return out
}

func tail(s string, n int) string {
	if len(s) > n {
		return s[len(s)-n:]
	}
	return s
}

// TestRaceBodies runs the same archetypes over bare MakeLocalShared() resources, free-running in
// real time, no scheduler and no wrappers (their locks would hide races); meant for `go test -race`.
func TestRaceBodies(t *testing.T) {
	rounds := 20
	fmt.Sscan(os.Getenv("VERIF_RACE_ROUNDS"), &rounds)
	n, bad := 0, 0
	seen := map[string]bool{}
	for _, cfg := range configs(false) {
		key := fmt.Sprint(cfg.Ctxs)
		if seen[key] || (cfg.TimeoutMs[0] != 1 && cfg.TimeoutMs[2] != 1) { // scripts once, with a short timeout (more aborts)
			continue
		}
		seen[key] = true
		per := rounds / 10
		if strings.HasPrefix(cfg.Name, "3@") || strings.HasPrefix(cfg.Name, "2x2") {
			per = rounds
		}
		if per < 1 {
			per = 1
		}
		for r := 0; r < per; r++ {
			w := build(cfg, nil)
			var wg sync.WaitGroup
			errs := make([]error, len(w.ctxs))
			for i, ctx := range w.ctxs {
				wg.Add(1)
				go func() {
					defer wg.Done()
					errs[i] = ctx.Run()
				}()
			}
			fin := make(chan struct{})
			go func() { wg.Wait(); close(fin) }()
			select {
			case <-fin:
			case <-time.After(60 * time.Second):
				t.Logf("race pass: %s did not finish within 60 s (not judged here)", cfg.Name)
				for _, ctx := range w.ctxs {
					go ctx.Stop()
				}
				bad++
				continue
			}
			if _, err := w.finalState(cfg); err != nil {
				bad++
			}
			n++
		}
	}
	fmt.Printf("RACE-PASS-DONE rounds=%d unfinished_or_error=%d scripts=%d\n", n, bad, len(seen))
}

// Package c07: variables shared between archetypes through resources.LocalSharedManager are
// serializable and never deadlock (property C07).  This file holds the script family, the
// hand-built archetypes and the oracle; c07_test.go holds the exploration.
package c07

import (
	"bytes"
	"encoding/gob"
	"fmt"
	"sort"
	"strings"

	"github.com/DistCompiler/pgo/distsys"
	"github.com/DistCompiler/pgo/distsys/tla"
	"verif/mc/bubble"
)

// Op is one access of a critical section.
type Op struct {
	V int    `json:"v"`           // shared variable 0 (x), 1 (y) or 2 (t, function-valued: [1 |-> 100, 2 |-> 200])
	K string `json:"k"`           // "R" | "W" | "A" (await FALSE on the first attempt of the section: the section aborts here once) | "F" (an assertion fails here: the run of this context ends with that error) | "P" (the body panics here, as a TLA+ type error in generated code would; the context runs under a recover wrapper as resources.Monitor.RunArchetype does)
	F string `json:"f,omitempty"` // value written: "tag" unique value | "inc"/"dec" last value read of the location +-1 | "copy" last value read of the other variable
	I int    `json:"i,omitempty"` // V = t only: 0 = the whole variable, k>0 = element t[k] accessed through Index()
}

type Section []Op
type Script []Section // the critical sections of one context, in program order

// Config is one model-checked configuration.
type Config struct {
	Name      string   `json:"name"`
	Ctxs      []Script `json:"ctxs"`
	NVars     int      `json:"nvars"`
	TimeoutMs []int    `json:"timeout_ms"`         // lock timeout per shared variable
	Invariant bool     `json:"invariant"`          // every writer preserves x+y: every committed snapshot must see the initial sum
	Bound     int      `json:"bound"`              // preemption bound; -1 = unbounded
	Timeouts  int      `json:"timeouts"`           // how many times "the timer fires first" may be chosen while another move is enabled
	TryLock   bool     `json:"try_lock,omitempty"` // some lock timeout is <= 0: acquisition is a try-lock whose outcome on a free lock is a random select between the lock and an already expired timer; executions are not reproducible
	Persist   bool     `json:"persist,omitempty"`  // every sharer is wrapped in resources.MakePersistent over an in-memory badger store
	MaxAborts int      `json:"max_aborts"`         // once this many attempts have aborted (chosen or forced timeouts) no further alternatives are explored: the rest of the execution follows the default (non-preemptive) schedule
}

var varNames = []string{"x", "y", "t"}

// locations of the plain-map reference model: x, y, t[1], t[2]
var locNames = []string{"x", "y", "t[1]", "t[2]"}
var initial = []int32{10, 20, 100, 200}

const tVar, nLocs = 2, 4

func locsOf(v int) []int {
	if v == tVar {
		return []int{2, 3}
	}
	return []int{v}
}

func initialValue(v int) tla.Value {
	if v == tVar {
		return tFunc(initial[2], initial[3])
	}
	return tla.MakeNumber(initial[v])
}

func tFunc(a, b int32) tla.Value {
	return tla.MakeRecord([]tla.RecordField{{Key: tla.MakeNumber(1), Value: tla.MakeNumber(a)}, {Key: tla.MakeNumber(2), Value: tla.MakeNumber(b)}})
}

func tElems(v tla.Value) (a, b int32, ok bool) {
	defer func() {
		if recover() != nil {
			ok = false
		}
	}()
	return v.ApplyFunction(tla.MakeNumber(1)).AsNumber(), v.ApplyFunction(tla.MakeNumber(2)).AsNumber(), true
}

func (o Op) String() string {
	n := varNames[o.V]
	if o.I > 0 {
		n = fmt.Sprintf("%s[%d]", n, o.I)
	}
	switch o.K {
	case "A":
		return "await-false-once"
	case "F":
		return "assertion-fails"
	case "P":
		return "body-panics"
	case "R":
		return "R" + n
	}
	return "W" + n + ":" + o.F
}

func (s Script) String() string {
	var secs []string
	for _, sec := range s {
		var ops []string
		for _, o := range sec {
			ops = append(ops, o.String())
		}
		secs = append(secs, strings.Join(ops, ","))
	}
	return "[" + strings.Join(secs, " ; ") + "]"
}

// section templates over variables a, b
func inc(a int) Section      { return Section{{V: a, K: "R"}, {V: a, K: "W", F: "inc"}} }
func blind(a int) Section    { return Section{{V: a, K: "W", F: "tag"}} }
func read2(a, b int) Section { return Section{{V: a, K: "R"}, {V: b, K: "R"}} }
func cp(a, b int) Section    { return Section{{V: a, K: "R"}, {V: b, K: "W", F: "copy"}} }
func rr(a int) Section       { return Section{{V: a, K: "R"}, {V: a, K: "R"}} }
func wr(a int) Section       { return Section{{V: a, K: "W", F: "tag"}, {V: a, K: "R"}} }
func rwr(a, b int) Section {
	return Section{{V: a, K: "R"}, {V: b, K: "W", F: "tag"}, {V: a, K: "R"}}
}
func xfer(a, b int) Section {
	return Section{{V: a, K: "R"}, {V: b, K: "R"}, {V: a, K: "W", F: "dec"}, {V: b, K: "W", F: "inc"}}
}

// shapes over the function-valued variable t (indexed access through Index(), as raftkvs does with nextIndex[i][j])
var awaitFalse = Op{K: "A"}
var assertFails = Op{K: "F"}
var bodyPanics = Op{K: "P"}

const bodyPanicMsg = "verif: panic raised in a section body"

func panicsAt(sc Script) bool {
	for _, sec := range sc {
		for _, o := range sec {
			if o.K == "P" {
				return true
			}
		}
	}
	return false
}

// fatalAt returns the index of the first section of the script that ends the run by an assertion failure (-1: none).
func fatalAt(sc Script) int {
	for i, sec := range sc {
		for _, o := range sec {
			if o.K == "F" || o.K == "P" {
				return i
			}
		}
	}
	return -1
}

func iw(k int) Section   { return Section{{V: tVar, I: k, K: "W", F: "tag"}} } // t[k] := v
func ir(k int) Section   { return Section{{V: tVar, I: k, K: "R"}} }           // read t[k]
func iinc(k int) Section { return Section{{V: tVar, I: k, K: "R"}, {V: tVar, I: k, K: "W", F: "inc"}} }
func wt() Section        { return Section{{V: tVar, K: "W", F: "tag"}} } // t := f (whole variable)
func rt() Section        { return Section{{V: tVar, K: "R"}} }           // read t (whole variable)
func rwt() Section       { return Section{{V: tVar, K: "R"}, {V: tVar, K: "W", F: "tag"}} }
func iwA(k int) Section  { return append(iw(k), awaitFalse) } // indexed write, then the section aborts (await FALSE), then is retried
func wtA() Section       { return append(wt(), awaitFalse) }  // whole-variable write, abort, retry

// indexed / whole write of t, then an access of x: aborts by lock timeout when another context holds x
func iwx(k int) Section { return Section{{V: tVar, I: k, K: "W", F: "tag"}, {V: 0, K: "R"}} }
func wtx() Section      { return Section{{V: tVar, K: "W", F: "tag"}, {V: 0, K: "R"}} }

// read x, then read t[k]: holds x while it looks at the element
func xir(k int) Section { return Section{{V: 0, K: "R"}, {V: tVar, I: k, K: "R"}} }

func usesVars(scripts []Script) int {
	n := 1
	for _, s := range scripts {
		for _, sec := range s {
			for _, o := range sec {
				if o.K != "A" && o.K != "F" && o.K != "P" && o.V+1 > n {
					n = o.V + 1
				}
			}
		}
	}
	return n
}

// ---------------------------------------------------------------------------------------------
// archetypes

type ctxState struct {
	idx      int
	name     string
	gate     *bubble.Gate
	runErr   error
	runDone  bool
	runPanic string // the panic that left Run, recovered by the wrapper around it
}

// makeArchetype builds a tiny MPCal archetype whose critical sections follow the script.
// Every value written is decided from the values read in the same attempt, exactly as PGo-generated
// code would compute it from its reads.
func makeArchetype(name string, idx0 int, script Script, attempt func() int) distsys.MPCalArchetype {
	var secs []distsys.MPCalCriticalSection
	label := func(i int) string {
		if i >= len(script) {
			return name + ".Done"
		}
		return fmt.Sprintf("%s.s%d", name, i)
	}
	for i, sec := range script {
		i, sec := i, sec
		tries := 0
		secs = append(secs, distsys.MPCalCriticalSection{Name: label(i), Body: func(iface distsys.ArchetypeInterface) error {
			tries++
			var last [nLocs]tla.Value // last value read or written per location, within this attempt
			var has [nLocs]bool
			for k, o := range sec {
				if o.K == "A" {
					if tries == 1 {
						return distsys.ErrCriticalSectionAborted // await FALSE
					}
					continue
				}
				if o.K == "P" {
					panic(bodyPanicMsg)
				}
				if o.K == "F" {
					return fmt.Errorf("%w: assertion of the harness, while the section holds its shared variables", distsys.ErrAssertionFailed)
				}
				h, err := iface.RequireArchetypeResourceRef(name + "." + varNames[o.V])
				if err != nil {
					return err
				}
				var idx []tla.Value
				loc := o.V
				if o.V == tVar && o.I > 0 {
					idx = []tla.Value{tla.MakeNumber(int32(o.I))}
					loc = 1 + o.I
				}
				whole := o.V == tVar && o.I == 0
				if o.K == "R" {
					v, err := iface.Read(h, idx)
					if err != nil {
						return err
					}
					if whole {
						if a, b, ok := tElems(v); ok {
							last[2], has[2], last[3], has[3] = tla.MakeNumber(a), true, tla.MakeNumber(b), true
						}
					} else {
						last[loc], has[loc] = v, true
					}
					continue
				}
				tag := int32(1000000 + idx0*100000 + attempt()*100 + i*10 + k)
				var val tla.Value
				switch {
				case whole:
					val = tFunc(tag, tag+50)
				case o.F == "inc" && has[loc]:
					val = tla.MakeNumber(last[loc].AsNumber() + 1)
				case o.F == "dec" && has[loc]:
					val = tla.MakeNumber(last[loc].AsNumber() - 1)
				case o.F == "copy" && o.V < 2 && has[1-o.V]:
					val = last[1-o.V]
				default:
					val = tla.MakeNumber(tag)
				}
				if err := iface.Write(h, idx, val); err != nil {
					return err
				}
				if whole {
					last[2], has[2], last[3], has[3] = tla.MakeNumber(tag), true, tla.MakeNumber(tag+50), true
				} else {
					last[loc], has[loc] = val, true
				}
			}
			return iface.Goto(label(i + 1))
		}})
	}
	secs = append(secs, distsys.MPCalCriticalSection{Name: name + ".Done", Body: func(distsys.ArchetypeInterface) error { return distsys.ErrDone }})
	var refs []string
	for _, v := range varNames {
		refs = append(refs, name+"."+v)
	}
	return distsys.MPCalArchetype{
		Name: name, Label: label(0), RequiredRefParams: refs,
		JumpTable: distsys.MakeMPCalJumpTable(secs...), ProcTable: distsys.MakeMPCalProcTable(),
		PreAmble: func(distsys.ArchetypeInterface) {},
	}
}

// decodeState decodes GetState() of variable v into the values of its locations.
func decodeState(v int, b []byte) (out []int32, err error) {
	var val tla.Value
	if err := gob.NewDecoder(bytes.NewReader(b)).Decode(&val); err != nil {
		return nil, err
	}
	defer func() {
		if x := recover(); x != nil {
			err = fmt.Errorf("GetState of %s holds %v: %v", varNames[v], val, x)
		}
	}()
	if v == tVar {
		a, b, ok := tElems(val)
		if !ok {
			return nil, fmt.Errorf("GetState of t holds %v, not a function over {1,2}", val)
		}
		return []int32{a, b}, nil
	}
	return []int32{val.AsNumber()}, nil
}

// ---------------------------------------------------------------------------------------------
// oracle

type access struct {
	v     int
	write bool
	val   int32
}

type attempt struct {
	who       string
	pc        string
	begin     int64 // seq of the grant of its gate
	end       int64 // seq of its last event
	commitSeq int64
	committed bool
	aborted   bool
	ops       []access
}

// Failure is a property violation found by the oracle.
type Failure struct {
	Kind string
	What string
}

func locIndex(res string) int {
	for i, n := range locNames {
		if n == res {
			return i
		}
	}
	return -1
}

func attempts(evs []bubble.Event) []*attempt {
	cur := map[string]*attempt{}
	var all []*attempt
	for _, e := range evs {
		a := cur[e.Who]
		switch e.Op {
		case "begin":
			a = &attempt{who: e.Who, pc: e.S, begin: e.Seq, end: e.Seq}
			cur[e.Who] = a
			all = append(all, a)
			continue
		}
		if a == nil {
			continue
		}
		a.end = e.Seq
		switch e.Op {
		case "phase":
			if e.S == "commit" {
				a.committed, a.commitSeq = true, e.Seq
			} else {
				a.aborted = true
			}
		case "read", "write":
			if e.Err != "" || !e.Has {
				break
			}
			if e.Res == "t" { // the whole function-valued variable: one access per element
				if x, y, ok := tElems(e.Val); ok {
					a.ops = append(a.ops, access{v: 2, write: e.Op == "write", val: x}, access{v: 3, write: e.Op == "write", val: y})
				} else {
					a.ops = append(a.ops, access{v: 2, write: e.Op == "write", val: -1}) // not a function over {1,2}: matches nothing
				}
			} else if l := locIndex(e.Res); l >= 0 {
				a.ops = append(a.ops, access{v: l, write: e.Op == "write", val: e.Val.AsNumber()})
			}
		}
	}
	return all
}

// replay runs the committed attempts in the given order on a plain map; it returns the index of the
// first attempt with a read the serial execution does not reproduce (-1 if none) and the final state.
func replay(order []*attempt, nvars int, invariant bool) (bad int, badOp int, want int32, state []int32, invBroken string) {
	state = append([]int32(nil), initial...)
	sum := state[0] + state[1]
	for i, a := range order {
		overlay := map[int]int32{}
		for k, o := range a.ops {
			if o.write {
				overlay[o.v] = o.val
				continue
			}
			exp, own := overlay[o.v]
			if !own {
				exp = state[o.v]
			}
			if exp != o.val {
				return i, k, exp, state, ""
			}
		}
		for v, x := range overlay {
			state[v] = x
		}
		if invariant && invBroken == "" {
			s := state[0] + state[1]
			if s != sum {
				invBroken = fmt.Sprintf("after the section %s of %s committed x+y = %d instead of %d", a.pc, a.who, s, sum)
			}
		}
	}
	return -1, 0, 0, state, invBroken
}

func equalState(a, b []int32) bool {
	if len(a) != len(b) {
		return false
	}
	for i := range a {
		if a[i] != b[i] {
			return false
		}
	}
	return true
}

// judge is the oracle: the committed sections must be equivalent to SOME serial order consistent
// with real time (section S before T whenever S ended before T began) that reproduces every read of
// every committed section and the final GetState() of every variable.  The commit order (sequence
// number taken while all locks of the section are still held) is tried first; only if it fails are
// all other real-time-consistent orders searched, so that nothing stricter than the property is demanded.
func judge(cfg Config, evs []bubble.Event, final []int32) *Failure {
	all := attempts(evs)
	var com []*attempt
	for _, a := range all {
		if a.committed {
			com = append(com, a)
		}
	}
	sort.Slice(com, func(i, j int) bool { return com[i].commitSeq < com[j].commitSeq })
	bad, badOp, want, state, inv := replay(com, cfg.NVars, cfg.Invariant)
	if bad < 0 && equalState(state, final) {
		if inv != "" {
			return &Failure{"invariant-broken", inv}
		}
		return nil
	}
	// search the other real-time-consistent serial orders
	if len(com) <= 7 {
		n := len(com)
		used := make([]bool, n)
		order := make([]*attempt, 0, n)
		found := false
		var rec func()
		rec = func() {
			if found {
				return
			}
			if len(order) == n {
				b, _, _, st, iv := replay(order, cfg.NVars, cfg.Invariant)
				if b < 0 && equalState(st, final) && iv == "" {
					found = true
				}
				return
			}
			for i := 0; i < n; i++ {
				if used[i] {
					continue
				}
				ok := true // every unused attempt that ended before com[i] began must come first
				for j := 0; j < n; j++ {
					if j != i && !used[j] && com[j].end < com[i].begin {
						ok = false
					}
				}
				if !ok {
					continue
				}
				used[i] = true
				order = append(order, com[i])
				rec()
				order = order[:len(order)-1]
				used[i] = false
			}
		}
		rec()
		if found {
			return nil
		}
	}
	// classify the failure of the commit order
	if bad >= 0 {
		a := com[bad]
		o := a.ops[badOp]
		// who wrote the value that was read?
		kind := "stale-read"
		for _, b := range all {
			for _, w := range b.ops {
				if w.write && w.v == o.v && w.val == o.val && b != a {
					if !b.committed || b.commitSeq > a.commitSeq {
						kind = "dirty-read"
					}
				}
			}
		}
		for k := 0; k < badOp; k++ {
			p := a.ops[k]
			if !p.write && p.v == o.v && p.val != o.val && kind != "dirty-read" {
				ownWrite := false
				for q := k + 1; q < badOp; q++ {
					if a.ops[q].write && a.ops[q].v == o.v {
						ownWrite = true
					}
				}
				if !ownWrite {
					kind = "non-repeatable-read"
				}
			}
		}
		return &Failure{kind, fmt.Sprintf("no serial order consistent with real time explains the committed sections: in commit order, %s %s read %s=%d where the serial execution gives %d", a.who, a.pc, locNames[o.v], o.val, want)}
	}
	if inv != "" {
		return &Failure{"invariant-broken", inv}
	}
	return &Failure{"final-state-mismatch", fmt.Sprintf("GetState() after all sections (x, y, t[1], t[2]) = %v but replaying the committed sections in commit order gives %v (an aborted section left a trace, or a committed write was lost)", final, state)}
}

func renderEvents(evs []bubble.Event) []string {
	var out []string
	for _, e := range evs {
		out = append(out, e.String())
	}
	return out
}

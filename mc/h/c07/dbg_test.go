package c07

import (
	"fmt"
	"os"
	"strings"
	"testing"

	"verif/mc/explore"
)

func TestDbgCap(t *testing.T) {
	want := os.Getenv("C07_ONLY")
	for _, cfg := range configs(false) {
		if want == "" || !strings.Contains(cfg.Name, want) {
			continue
		}
		found := false
		st := explore.Run(func(c *explore.Ctx) {
			r := execute(t, cfg, c, false)
			if r.capped && !found {
				found = true
				fmt.Println("CAPPED", c.Choices())
				for _, l := range r.detail.([]string) {
					fmt.Println("   ", l)
				}
			}
			c.Outcome(r.outcome)
		}, explore.Options{Budget: budgetOf(cfg), Workers: 1, MaxExec: 300000})
		fmt.Println(cfg.Name, st.Executions)
		return
	}
}

// Package c11 decides property C11 (/verif/properties.jsonl): "the two-phase-commit variable behaves
// as one copy and does not livelock".
//
// Oracle, after every scheduler event (world.check, world.nodeOp):
//   - per version one value across replicas (divergent-install), and it is the value written by the one
//     section that won that version (installed-uncommitted, installed-not-winner-value);
//   - a replica's version never decreases (version-decreased);
//   - at most one section pre-commits successfully and commits per version (two-winners);
//   - a section that read version k commits version k+1 or aborts (stale-read-commits), and a read returns
//     the value installed for the replica's current version (read-not-committed-value);
//   - the resource's own assertions do not fire (panic/*, crash/*), no operation blocks for good
//     (deadlock: every goroutine durably blocked in the bubble and no timer; hang/*: blocked on the mutex).
//
// At quiescence (no message pending, no section in flight, no retry timer; world.final):
//   - release/<cause>: nobody proposes any more, so every proposal is decided (committed or aborted) and
//     no replica may still hold an accepted pre-commit.  <cause> says why it does (world.whyLocked):
//     abort-ignored, no-abort-after-accept, abort-never-sent, commit-never-sent, still-accepted, and, only
//     when the releasing message was reported lost to its sender and never sent again,
//     lost-commit-not-resent / lost-abort-not-resent.  The locked replica then runs an increment alone,
//     3 attempts, and the report says whether it could commit;
//   - no-progress: each node in turn runs one increment alone without faults; at least one commits.
//
// Nothing else is demanded: a section may abort for any reason, a node may give up after max_attempts.
package c11

import (
	"bytes"
	"encoding/binary"
	"encoding/json"
	"fmt"
	"os"
	"os/exec"
	"path/filepath"
	"regexp"
	"runtime"
	"runtime/debug"
	"sort"
	"strconv"
	"strings"
	"sync"
	"syscall"
	"testing"
	"testing/synctest"
	"time"

	"github.com/DistCompiler/pgo/distsys/resources"
	"verif/mc/explore"
	"verif/mc/hres"
)

// The exploration runs in child processes (this same test binary, VERIF_C11_JOB set), one per
// configuration, each with GOMAXPROCS=1: inside a synctest bubble every scheduler step is a chain of
// goroutine hand-offs, which is several times faster on one P than across OS threads, so the cores are
// used by running many single-threaded children in parallel.  Children also isolate the parent from the
// two failure modes a harness cannot catch in-process: an assertion of the resource that fires in one of
// its own goroutines (the Go runtime kills the process) and a goroutine blocked on the resource's mutex
// (synctest.Wait never returns).  A child records its current choice list in an mmap'ed slot file, so the
// parent can re-run exactly the schedule that killed or hung it.

const slotSize = 8192

type slots struct{ mem []byte }

func openSlots(path string, workers int) *slots {
	f, err := os.OpenFile(path, os.O_RDWR|os.O_CREATE, 0644)
	if err != nil {
		panic(err)
	}
	defer f.Close()
	if err := f.Truncate(int64(slotSize * workers)); err != nil {
		panic(err)
	}
	mem, err := syscall.Mmap(int(f.Fd()), 0, slotSize*workers, syscall.PROT_READ|syscall.PROT_WRITE, syscall.MAP_SHARED)
	if err != nil {
		panic(err)
	}
	return &slots{mem: mem}
}

func (s *slots) reset(w int) {
	if s != nil {
		binary.LittleEndian.PutUint32(s.mem[w*slotSize:], 0)
	}
}

func (s *slots) record(w, pick int) {
	if s == nil {
		return
	}
	b := s.mem[w*slotSize : (w+1)*slotSize]
	n := int(binary.LittleEndian.Uint32(b))
	if 4+n < slotSize {
		b[4+n] = byte(pick)
		binary.LittleEndian.PutUint32(b, uint32(n+1))
	}
}

func readSlots(path string) [][]int {
	b, err := os.ReadFile(path)
	if err != nil {
		return nil
	}
	var out [][]int
	for o := 0; o+slotSize <= len(b); o += slotSize {
		n := int(binary.LittleEndian.Uint32(b[o:]))
		if n == 0 || 4+n > slotSize {
			continue
		}
		ch := make([]int, n)
		for i := range ch {
			ch[i] = int(b[o+4+i])
		}
		out = append(out, ch)
	}
	return out
}

type workerData struct {
	codec *gobCodec
}

// body returns the explore body for one configuration: one execution = one synctest bubble.
func body(t *testing.T, cfg *Cfg, cnt *counters, tracing bool, sl *slots) func(c *explore.Ctx) {
	return func(c *explore.Ctx) {
		wd := c.User.(*workerData)
		var pv any
		sl.reset(c.W)
		func() {
			defer func() {
				// synctest.Test itself panics ("deadlock: main bubble goroutine has exited but blocked
				// goroutines remain") when the resources left goroutines behind after shutdown
				if x := recover(); x != nil && pv == nil {
					cnt.teardownStuck.Add(1)
				}
			}()
			synctest.Test(t, func(t *testing.T) {
				var w *world
				defer func() {
					if x := recover(); x != nil {
						pv = x
					}
				}()
				w = newWorld(c, cfg, wd.codec, cnt)
				w.tracing = tracing
				w.choose = func(n int, label string, deviate bool) int {
					var p int
					if deviate {
						p = c.Deviate(n, label)
					} else {
						p = c.Choose(n, label)
					}
					sl.record(c.W, p)
					return p
				}
				defer func() {
					if !w.shutdown() {
						cnt.teardownStuck.Add(1)
					}
				}()
				w.run()
			})
		}()
		if pv != nil {
			if hb, ok := pv.(harnessBug); ok {
				fmt.Fprintf(os.Stderr, "C11 harness bug: %s\n", string(hb))
				os.Exit(3)
			}
			panic(pv)
		}
	}
}

type replay struct {
	Cfg     Cfg      `json:"cfg"`
	Choices []int    `json:"choices"`
	Trace   []string `json:"trace,omitempty"`
}

type job struct {
	Cfg        Cfg    `json:"cfg"`
	Mode       string `json:"mode"` // explore | replay
	Choices    []int  `json:"choices,omitempty"`
	DeadlineNs int64  `json:"deadline_unix_ns"`
	Workers    int    `json:"workers"`
	Slots      string `json:"slots"`
	Out        string `json:"out"`
	HangLimitS int    `json:"hang_limit_s"`
}

type jobViol struct {
	Key     string   `json:"key"`
	What    string   `json:"what"`
	Choices []int    `json:"choices"`
	Trace   []string `json:"trace"`
	Repro   int      `json:"repro"`
}

type jobResult struct {
	Cfg         string           `json:"cfg"`
	Executions  int64            `json:"executions"`
	Pruned      int64            `json:"pruned"`
	Outcomes    int              `json:"outcomes"`
	MaxDepth    int              `json:"max_depth"`
	Exhaustive  bool             `json:"exhaustive"`
	CapHit      string           `json:"cap_hit"`
	Divergences int64            `json:"divergences"`
	DepthCapped int64            `json:"depth_capped"`
	WallS       float64          `json:"wall_s"`
	Steps       int64            `json:"steps"`
	StepCapped  int64            `json:"step_capped"`
	Teardown    int64            `json:"teardown_stuck"`
	ProbeRuns   int64            `json:"probe_runs"`
	ProbeFailed int64            `json:"probe_failed"`
	States      int64            `json:"states_expanded"`
	PrefixMiss  int64            `json:"prefix_mismatch"`
	Violations  []jobViol        `json:"violations"`
	Samples     []explore.Sample `json:"samples"`
	ReplayOut   string           `json:"replay_outcome,omitempty"`
	Hang        *hangReport      `json:"hang,omitempty"`
}

type hangReport struct {
	Choices    [][]int `json:"choices"`
	LimitS     int     `json:"limit_s"`
	MutexWaits int     `json:"mutex_waits"`
	Goroutines string  `json:"goroutines"`
}

func writeJSON(path string, v any) {
	b, err := json.Marshal(v)
	if err != nil {
		panic(err)
	}
	tmp := path + ".tmp"
	if err := os.WriteFile(tmp, b, 0644); err != nil {
		panic(err)
	}
	os.Rename(tmp, path)
}

// runChild is the whole life of a child process.
func runChild(t *testing.T, jobPath string) {
	b, err := os.ReadFile(jobPath)
	if err != nil {
		t.Fatal(err)
	}
	var j job
	if err := json.Unmarshal(b, &j); err != nil {
		t.Fatal(err)
	}
	debug.SetGCPercent(400)
	if j.Workers <= 0 {
		j.Workers = 1
	}
	sl := openSlots(j.Slots, j.Workers)
	cnt := &counters{}
	cfg := &j.Cfg
	setup := func(int) any { return &workerData{codec: newGobCodec()} }

	// process-level watchdog: no scheduler step for HangLimitS seconds
	stopWatch := make(chan struct{})
	go func() {
		last, lastAt := int64(-1), time.Now()
		tk := time.NewTicker(time.Second)
		defer tk.Stop()
		for {
			select {
			case <-stopWatch:
				return
			case <-tk.C:
			}
			p := progressCtr.Load()
			if p != last {
				last, lastAt = p, time.Now()
				continue
			}
			if time.Since(lastAt) < time.Duration(j.HangLimitS)*time.Second {
				continue
			}
			buf := make([]byte, 4<<20)
			buf = buf[:runtime.Stack(buf, true)]
			dump := string(buf)
			res := jobResult{Cfg: cfg.name(), Hang: &hangReport{Choices: readSlots(j.Slots), LimitS: j.HangLimitS,
				MutexWaits: strings.Count(dump, "sync.(*RWMutex).") + strings.Count(dump, "sync.(*Mutex)."), Goroutines: trunc(dump, 30000)}}
			writeJSON(j.Out, res)
			os.Exit(0)
		}
	}()

	res := jobResult{Cfg: cfg.name()}
	switch j.Mode {
	case "replay":
		v, out, _ := explore.ReplayOnce(body(t, cfg, cnt, true, sl), j.Choices, cfg.Budget, setup(0))
		res.Executions = 1
		res.ReplayOut = out
		if v != nil {
			res.Violations = append(res.Violations, toJobViol(v))
		}
	default:
		st := explore.Run(body(t, cfg, cnt, false, sl), explore.Options{Budget: cfg.Budget, Workers: j.Workers, Deadline: time.Unix(0, j.DeadlineNs), MaxDepth: 4000, Setup: setup, Samples: 2})
		res.Executions, res.Pruned, res.Outcomes, res.MaxDepth = st.Executions, st.Pruned, st.Outcomes, st.MaxDepthSeen
		res.Exhaustive, res.CapHit, res.Divergences, res.DepthCapped, res.WallS = st.Exhaustive, st.CapHit, st.Divergences, st.DepthCapped, st.WallS
		res.Samples = st.Samples
		for _, v := range st.Violations {
			// once more with the trace switched on, for the human-readable witness
			jv := toJobViol(v)
			if tv, _, _ := explore.ReplayOnce(body(t, cfg, cnt, true, sl), v.Choices, cfg.Budget, setup(0)); tv != nil && tv.Key == v.Key {
				jv.Trace = toJobViol(tv).Trace
			}
			res.Violations = append(res.Violations, jv)
		}
	}
	close(stopWatch)
	res.Steps, res.StepCapped, res.Teardown = cnt.steps.Load(), cnt.depthCapped.Load(), cnt.teardownStuck.Load()
	res.ProbeRuns, res.ProbeFailed = cnt.probeRuns.Load(), cnt.probeNodeFailed.Load()
	res.States = cnt.statesExpanded.Load()
	res.PrefixMiss = cnt.prefixMismatch.Load()
	writeJSON(j.Out, res)
}

func toJobViol(v *explore.Violation) jobViol {
	jv := jobViol{Key: v.Key, What: v.What, Choices: v.Choices, Repro: v.Repro}
	if d, ok := v.Detail.(map[string]any); ok {
		if tr, ok := d["trace"].([]string); ok {
			jv.Trace = tr
		}
	}
	if v.Key == "panic" { // a panic of the harness body itself, reported by explore
		if s, ok := v.Detail.(string); ok {
			jv.Trace = append(jv.Trace, strings.Split(trunc(s, 6000), "\n")...)
		}
	}
	return jv
}

func trunc(s string, n int) string {
	if len(s) > n {
		return s[:n] + "..."
	}
	return s
}

// ---------------------------------------------------------------------------------------------
// parent side

type childOutcome struct {
	res    *jobResult
	crash  string // normalised panic line when the process died
	output string
	slots  string // slot file kept for attribution when the child died or hung
}

var jobSeq struct {
	sync.Mutex
	n int
}

func spawn(dir string, j job) childOutcome {
	jobSeq.Lock()
	jobSeq.n++
	id := jobSeq.n
	jobSeq.Unlock()
	base := filepath.Join(dir, "job"+strconv.Itoa(id))
	j.Slots, j.Out = base+".slots", base+".out.json"
	if j.Workers == 0 {
		j.Workers = 1
	}
	if j.HangLimitS == 0 {
		j.HangLimitS = 60
	}
	writeJSON(base+".json", j)
	cmd := exec.Command(os.Args[0], "-test.run", "^TestCheck$", "-test.count", "1", "-test.timeout", "0")
	var env []string
	for _, e := range os.Environ() {
		if strings.HasPrefix(e, "VERIF_OUT=") || strings.HasPrefix(e, "VERIF_REPLAY=") || strings.HasPrefix(e, "GOMAXPROCS=") || strings.HasPrefix(e, "VERIF_C11_JOB=") {
			continue
		}
		env = append(env, e)
	}
	cmd.Env = append(env, "VERIF_C11_JOB="+base+".json", "GOMAXPROCS=1")
	var out bytes.Buffer
	cmd.Stdout, cmd.Stderr = &out, &out
	err := cmd.Run()
	co := childOutcome{output: out.String()}
	if b, e := os.ReadFile(j.Out); e == nil {
		var r jobResult
		if json.Unmarshal(b, &r) == nil {
			co.res = &r
		}
	}
	if co.res == nil {
		co.crash = panicLine(co.output)
		if co.crash == "" {
			co.crash = fmt.Sprintf("child exited without result (%v): %s", err, trunc(lastLines(co.output, 5), 500))
		}
	}
	if co.res == nil {
		co.slots = j.Slots // kept for attribution; the caller removes it
	} else {
		os.Remove(j.Slots)
	}
	os.Remove(base + ".json")
	os.Remove(j.Out)
	return co
}

var reNode = regexp.MustCompile(`"?n[0-9]"?`)

func panicLine(out string) string {
	for _, l := range strings.Split(out, "\n") {
		if strings.HasPrefix(l, "panic: ") || strings.HasPrefix(l, "fatal error: ") {
			l = strings.TrimSuffix(l, " [recovered]")
			return reNode.ReplaceAllString(l, "n?")
		}
	}
	return ""
}

func lastLines(s string, n int) string {
	l := strings.Split(strings.TrimSpace(s), "\n")
	if len(l) > n {
		l = l[len(l)-n:]
	}
	return strings.Join(l, " | ")
}

func scripts(s string) [][]string {
	var out [][]string
	for _, n := range strings.Split(s, "|") {
		if n == "-" {
			out = append(out, []string{})
		} else {
			out = append(out, strings.Split(n, "+"))
		}
	}
	return out
}

var netFaults = []string{"drop-req", "drop-reply", "timeout", "dup", "sibling-abort"}

func faultsFor(transport string, budget int) []string {
	if budget == 0 {
		return nil
	}
	if transport == "local" || transport == "sync" {
		// a function call cannot be lost or duplicated; only its scheduling is free
		return []string{"sibling-abort"}
	}
	return netFaults
}

type shape struct {
	scripts string
	att     int
	budget  int
	atomic  bool
	only    string // "" = once per transport; else only this transport
	opt     string // comma list: sym, lazy, drop-commit (the only fault kind is one lost Commit request), drops (lost requests and sibling-abort only)
}

// configs lists what each tier explores (every shape once per transport).
func configs(thorough bool) []Cfg {
	shapes := []shape{
		{"rmw|-", 2, 0, false, "", ""}, {"rmw|-", 2, 1, false, "", ""}, {"rmw|-", 1, 2, false, "", ""},
		{"rmw|rmw", 2, 0, false, "", ""}, {"rmw|rmw", 2, 1, false, "", ""},
		{"blind|rmw", 2, 0, false, "", ""}, {"blind|rmw", 2, 1, false, "", ""},
		{"rmw+rmw|rmw", 2, 0, false, "", ""},
		{"rmw|-|-", 1, 1, false, "", ""},
		{"rmw|rmw|-", 2, 0, true, "", ""},
		// a proposer that runs two sections against a second proposer and a lagging acceptor: a late
		// Commit of version k meets an accept for version k+1 (quick: one transport; thorough: all)
		{"rmw+rmw|rmw|-", 2, 0, true, "direct", ""},
		// five replicas (the smallest size at which a proposer can learn the next version, from a competitor
		// that won with a disjoint majority, before it rolls back its own proposal): two writers, three
		// interchangeable passive replicas, one attempt each, one lost Commit (quick: one transport)
		{"rmw|rmw|-|-|-", 1, 1, true, "direct", "sym,lazy,drop-commit"},
		// a proposal withdrawn after its pre-commit, the Abort to one replica lost, a second proposer wins and
		// its Commit to the same replica is lost too (the smallest shape in which a lost Abort is never re-sent)
		{"rmw|rmw|-", 1, 3, true, "net", "lazy,drops"},
		// the repository's in-process transport called synchronously (see assumptions)
		// five replicas, three writers P(n0) A(n1) D(n2), delays only: every continuation of a scripted prefix in
		// which P has won version 1 (n1 and n3 accepted), its Commit has reached n1 only, n1 has proposed version 2,
		// n3 has overwritten its promise to P with n1's pre-commit, and n1's section was aborted after its
		// pre-commit (script kind rmwa) so that its Abort released the replicas (quick: one transport)
		{"rmw|rmwa|rmw|-|-", 1, 0, true, "direct", "sym,lazy,prefix=override19"},
		{"rmw|-|-", 2, 0, false, "sync", ""}, {"rmw|rmw", 2, 1, false, "sync", ""},
		{"rmw|rmw|-", 2, 1, false, "sync", ""}, {"rmw|rmw|-|-|-", 2, 0, false, "sync", ""},
	}
	if thorough {
		for i := range shapes {
			if shapes[i].only == "direct" {
				shapes[i].only = ""
			}
		}
		shapes = append(shapes,
			shape{"rmw+rmw|rmw", 2, 1, false, "", ""},
			shape{"rmw+blind|rmw+rmw", 2, 0, false, "", ""},
			shape{"rmw|rmw", 3, 2, false, "", ""},
			shape{"rmw|-|-", 2, 1, false, "", ""},
			shape{"rmw|rmw|-", 2, 0, false, "", ""},
			shape{"rmw|rmw|-", 2, 1, true, "", ""},
			shape{"rmw|rmw|rmw", 2, 0, true, "", "sym"},
			shape{"rmw|blind|rmw", 2, 1, true, "", ""},
			shape{"rmw|rmw|-|-", 2, 0, true, "", "sym"},
			shape{"rmw|rmw|-|-", 2, 1, true, "", "sym"},
			shape{"rmw|rmw|rmw|-", 2, 0, true, "", "sym"},
			// five replicas, larger variants (time-capped): every fault kind and eager timers; two attempts
			// without faults; three writers with one lost Commit
			shape{"rmw|rmw|-|-|-", 1, 1, true, "", "sym"},
			shape{"rmw|rmw|-|-|-", 2, 0, true, "", "sym,lazy"},
			shape{"rmw|rmw|rmw|-|-", 1, 1, true, "", "sym,lazy,drop-commit"},
			// the same with shorter prefixes (more left to the enumeration; the last two run into the time cap)
			shape{"rmw|rmwa|rmw|-|-", 1, 0, true, "", "sym,lazy,prefix=override16"},
			shape{"rmw|rmwa|rmw|-|-", 1, 0, true, "direct", "sym,lazy,prefix=override12"},
			shape{"rmw|rmwa|rmw|-|-", 1, 0, true, "direct", "sym,lazy,prefix=override7"},
			shape{"rmw+rmw|rmw+rmw", 3, 1, false, "sync", ""},
			shape{"rmw|rmw|rmw", 3, 1, false, "sync", ""},
			shape{"rmw+rmw|blind|rmw|-", 2, 1, false, "sync", ""},
		)
	}
	// Opt-in (VERIF_C11_SPLIT=1): the replica's two critical sections per request as two scheduler steps.  On
	// the current tree this reports two-winners/direct-split and release/no-abort-after-accept/direct-split
	// (candidate finding: the stale-message filter and receiveInternal are not one critical section; witnesses
	// in replays/C11/candidate-x-*.json).  Not part of the tiers until the coordinator decides how to record it.
	// Since fix 11ec705e (filter and handling are one critical section) the source no longer matches the
	// transcription and the shape is skipped on the current tree; it runs in the thorough tier (or with
	// VERIF_C11_SPLIT=1) on a tree whose receiveFiltered still reads as two sections (the pre-fix mutant).
	if (thorough || os.Getenv("VERIF_C11_SPLIT") != "") && splitReceiveSourceOK() {
		shapes = append(shapes, shape{"rmw|rmw|-", 2, 1, true, "direct", "lazy,split,sibling"})
	}
	var out []Cfg
	for _, sh := range shapes {
		for _, tr := range []string{"local", "direct", "gob", "sync"} {
			// "" = the three message-passing transports; "net" = those that can lose messages
			if (sh.only == "" && tr == "sync") || (sh.only == "net" && tr != "direct" && tr != "gob") ||
				(sh.only != "" && sh.only != "net" && sh.only != tr) {
				continue
			}
			c := Cfg{Transport: tr, Scripts: scripts(sh.scripts), MaxAttempts: sh.att, Budget: sh.budget, Faults: faultsFor(tr, sh.budget), MaxSteps: 400, Atomic: sh.atomic}
			for _, o := range strings.Split(sh.opt, ",") {
				switch o {
				case "sym":
					c.Sym = true
				case "lazy":
					c.LazyTimers = true
				case "split":
					c.SplitReceive = true
				case "prefix=override7", "prefix=override12", "prefix=override16", "prefix=override19":
					n, _ := strconv.Atoi(strings.TrimPrefix(o, "prefix=override"))
					c.Prefix = append([]string(nil), overridePrefix[:n]...)
				case "sibling":
					c.Faults = []string{"sibling-abort"}
				case "drops":
					if sh.budget > 0 {
						c.Faults = []string{"drop-req", "sibling-abort"}
					}
				case "drop-commit":
					// the in-process transport has no loss: there the only fault kind stays sibling-abort
					if tr != "local" && sh.budget > 0 {
						c.Faults = []string{"drop-commit"}
					}
				}
			}
			out = append(out, c)
		}
	}
	return out
}

// overridePrefix: P = n0, A = n1, D = n2, passive n3 n4 (see the shape's comment in configs)
var overridePrefix = []string{
	"op:0", "op:0", "op:0", "rpc:0>1:PreCommit", "rpc:0>3:PreCommit", "op:0", "rpc:0>1:Commit", // 7: P won v1, A has it
	"op:1", "op:1", "op:1", "rpc:1>0:PreCommit", "rpc:1>3:PreCommit", // 12: A proposed v2, n3 overwrote its promise
	"rpc:1>4:PreCommit", "rpc:1>2:PreCommit", "op:1", "rpc:1>3:Abort", // 16: A aborted after its pre-commit, n3 released
	"rpc:1>0:Abort", "rpc:1>2:Abort", "rpc:1>4:Abort", // 19: all of A's Aborts delivered
}

// splitReceiveSourceOK tells whether receiveFiltered still reads as the text VerifTwoPCFilterHalf was
// transcribed from.
func splitReceiveSourceOK() bool {
	repo := os.Getenv("VERIF_REPO")
	if repo == "" {
		repo = "/repo"
	}
	path := filepath.Join(repo, "distsys", "resources", "twopc.go")
	// a --mutant run builds from an overlay: read the file the build really used
	if ov := os.Getenv("VERIF_OVERLAY"); ov != "" {
		if ob, err := os.ReadFile(ov); err == nil {
			var o struct{ Replace map[string]string }
			if json.Unmarshal(ob, &o) == nil {
				if r, ok := o.Replace[path]; ok && r != "" {
					path = r
				}
			}
		}
	}
	b, err := os.ReadFile(path)
	if err != nil {
		return false
	}
	src := string(b)
	a := strings.Index(src, "func (twopc *TwoPCArchetypeResource) receiveFiltered(")
	if a < 0 {
		return false
	}
	e := strings.Index(src[a:], "\n}\n")
	if e < 0 {
		return false
	}
	var sb strings.Builder
	for _, l := range strings.Split(src[a:a+e+2], "\n") {
		if i := strings.Index(l, "//"); i >= 0 {
			l = l[:i]
		}
		sb.WriteString(strings.Join(strings.Fields(l), ""))
	}
	return sb.String() == resources.VerifTwoPCFilterHalfSource
}

// costClass: 0 = seconds to a few minutes, 1 = long but can be exhausted, 2 = runs into its time cap
// (from measured runs; only used to order the thorough tier so that what can be exhausted is)
func costClass(c *Cfg) int {
	n, writers, blind := len(c.Scripts), 0, false
	for _, sc := range c.Scripts {
		if len(sc) > 0 {
			writers++
		}
		for _, x := range sc {
			if x == "blind" {
				blind = true
			}
		}
	}
	if c.Transport == "sync" || len(c.Prefix) >= 19 {
		return 0
	}
	if len(c.Prefix) >= 16 {
		return 1
	}
	switch {
	case n >= 5 && !(len(c.Faults) == 1 && c.MaxAttempts == 1 && writers == 2):
		return 2
	case n == 4 && c.Budget >= 1, n == 3 && writers == 3 && blind && c.Budget >= 1:
		return 2
	case n >= 4, n == 3 && writers == 3, n == 3 && writers == 2 && c.MaxAttempts >= 2 && (c.Budget >= 1 || !c.Atomic), c.Budget >= 2 && c.MaxAttempts >= 2:
		return 1
	}
	return 0
}

func weight(c *Cfg) int {
	secs := 0
	for _, s := range c.Scripts {
		secs += len(s)
	}
	w := len(c.Scripts)*100 + secs*10 + c.Budget*200 + c.MaxAttempts
	if c.Atomic {
		w -= 150
	}
	if c.Sym {
		w -= 60
	}
	if c.LazyTimers {
		w -= 60
	}
	if len(c.Faults) == 1 {
		w -= 150
	}
	if c.Transport == "gob" {
		w += 50
	}
	return w
}

func TestCheck(t *testing.T) {
	if p := os.Getenv("VERIF_C11_JOB"); p != "" {
		runChild(t, p)
		return
	}
	hres.Main(t, func(env hres.Env) *hres.Result {
		res := &hres.Result{Property: "C11", Level: "exploration"}
		res.Assumptions = []string{
			"nodes are built by the public NewTwoPC with an address without port: net.Listen fails at once, so no socket and no Accept goroutine exist and the whole node lives inside the synctest bubble; the RPC path is reproduced by passing every request and reply through encoding/gob (one long-lived encoder/decoder per direction, as on one net/rpc connection) and calling the exported TwoPCReceiver.Receive, which is what net/rpc does between RPCReplicaHandle.Send and the receiver; the in-process path uses the repository's LocalReplicaHandle (built through an overlay accessor because its field is private)",
			"node operations are issued in the order MPCalContext.Run issues them (Read/Write, PreCommit, then Commit, or Abort after any refusal; Abort after a successful PreCommit models a sibling resource that refused); a section is retried at most max_attempts times, after which the node stops (a slow node)",
			"virtual time: the scheduler advances the clock by 1 microsecond per step so that SenderTime strictly increases per sender as a nanosecond wall clock does; back-off and 1 s retry sleeps elapse only when the scheduler chooses the move 'time'; the relative order of two concurrently pending timers is the one the code's own back-off values give (not enumerated), and state-key pruning ignores absolute time",
			"quiescence = every scripted section ended (committed, or its node gave up after max_attempts), every request handed to the transport was processed or reported lost to its sender, no retry timer is pending; from then on nobody proposes anything, so every proposal is decided and no replica may still hold one: the release oracle names why it does (release/<cause>/<transport>); lost-commit-not-resent and lost-abort-not-resent are used only when the releasing message was reported lost to its sender and never sent again",
			"transport 'sync' wires the nodes with the repository's LocalReplicaHandle directly, as its own tests do: a Send is a function call inside the sender's goroutine and nothing is parked, so the scheduler enumerates only the order of node operations and timers; the order in which the sender goroutines of one broadcast run is the one the Go scheduler produces on one P (children run with GOMAXPROCS=1; deterministic, checked by the 5 confirmation re-runs), not enumerated. This is the only place where a sender goroutine can start after its broadcast already has its majority",
			"reductions used where the configuration name says so: 'sym' = nodes with the same script (passive replicas; writers that only increment) are interchangeable: the state key is the smallest rendering over their permutations, of several moves that address passive replicas in identical situations with the same message only one is offered, and the probe phase visits interchangeable nodes in an order that depends on their state only (sound: every oracle is invariant under such a permutation; back-off durations, which depend on the node name, are not enumerated anyway); 'atomic-rpc', 'lazy-timers' (timers fire only when nothing else can happen), 'only-drop-commit' (the single fault is one lost Commit request) and max_attempts are restrictions of the schedule space, stated per configuration; within them the enumeration is exhaustive",
			"lost message = the sender's Send returns an error (what RPCReplicaHandle does on timeout or connection error), either without the receiver ever seeing the request (drop-req), after it processed it (drop-reply), or before it processes it later (timeout); loss, timeout and duplication are not applied to the in-process transport (a function call cannot be lost)",
		}
		dir := os.Getenv("VERIF_SCRATCH")
		if dir == "" {
			d, err := os.MkdirTemp("", "c11-")
			if err != nil {
				t.Fatal(err)
			}
			defer os.RemoveAll(d)
			dir = d
		}
		os.MkdirAll(dir, 0755)

		if env.Replay != nil {
			var r replay
			if err := json.Unmarshal(env.Replay, &r); err != nil {
				t.Fatal(err)
			}
			co := spawn(dir, job{Cfg: r.Cfg, Mode: "replay", Choices: r.Choices, HangLimitS: 60})
			res.Coverage = map[string]any{"evaluations": 1, "distinct_nontrivial": 0, "rule": "replay of one recorded schedule", "samples": []any{map[string]any{"cfg": r.Cfg.name(), "choices": r.Choices}}}
			switch {
			case co.res == nil:
				os.Remove(co.slots)
				res.Violations = append(res.Violations, hres.Viol{Key: "crash/" + r.Cfg.Transport, What: co.crash, Replay: r})
				fmt.Println(trunc(co.output, 4000))
			case co.res.Hang != nil:
				res.Violations = append(res.Violations, hres.Viol{Key: "hang/" + r.Cfg.Transport, What: hangWhat(co.res.Hang, &r.Cfg), Replay: r})
			case len(co.res.Violations) > 0:
				v := co.res.Violations[0]
				for _, l := range v.Trace {
					fmt.Println(l)
				}
				r.Trace = v.Trace
				res.Violations = append(res.Violations, hres.Viol{Key: v.Key, What: v.What, Replay: r})
			default:
				fmt.Println("outcome:", co.res.ReplayOut)
			}
			return res
		}

		// committed witnesses of recorded findings are replayed first (one child each, well under a second):
		// while the defect is present the finding shows on every run with the same key
		viol := map[string]hres.Viol{}
		witnessReplayed := 0
		if files, _ := filepath.Glob(filepath.Join(os.Getenv("VERIF_DIR"), "replays", "C11", "known-*.json")); len(files) > 0 {
			sort.Strings(files)
			for _, f := range files {
				b, err := os.ReadFile(f)
				if err != nil {
					continue
				}
				var wf struct {
					Replay replay `json:"replay"`
				}
				if json.Unmarshal(b, &wf) != nil || len(wf.Replay.Cfg.Scripts) == 0 {
					continue
				}
				co := spawn(dir, job{Cfg: wf.Replay.Cfg, Mode: "replay", Choices: wf.Replay.Choices, HangLimitS: 60})
				if co.res == nil {
					os.Remove(co.slots)
					continue // a witness that no longer fits the code is simply stale
				}
				witnessReplayed++
				for _, v := range co.res.Violations {
					if _, ok := viol[v.Key]; !ok {
						viol[v.Key] = hres.Viol{Key: v.Key, What: v.What, Replay: replay{Cfg: wf.Replay.Cfg, Choices: wf.Replay.Choices, Trace: v.Trace}}
					}
				}
			}
		}

		cfgs := configs(env.Thorough())
		order := make([]int, len(cfgs))
		for i := range order {
			order[i] = i
		}
		// quick: largest first (shortest makespan).  thorough: smallest first, so that every configuration that
		// can be exhausted is, and the ones that run into their time cap anyway take what is left.
		sort.SliceStable(order, func(a, b int) bool {
			if env.Thorough() {
				if ca, cb := costClass(&cfgs[order[a]]), costClass(&cfgs[order[b]]); ca != cb {
					return ca < cb
				}
				return weight(&cfgs[order[a]]) < weight(&cfgs[order[b]])
			}
			if na, nb := len(cfgs[order[a]].Scripts), len(cfgs[order[b]].Scripts); na != nb {
				return na > nb
			}
			return weight(&cfgs[order[a]]) > weight(&cfgs[order[b]])
		})
		outs := make([]childOutcome, len(cfgs))
		ran := make([]bool, len(cfgs))
		par := env.Workers
		if par < 1 {
			par = 1
		}
		start := time.Now()
		// a single configuration never takes more than its share of the tier's budget
		jobCap := 240 * time.Second
		if env.Thorough() {
			jobCap = 20 * time.Minute
		}
		var wg sync.WaitGroup
		next := make(chan int)
		for w := 0; w < par; w++ {
			wg.Add(1)
			go func() {
				defer wg.Done()
				for i := range next {
					dl := time.Now().Add(jobCap)
					if env.Deadline.Before(dl) {
						dl = env.Deadline
					}
					outs[i] = spawn(dir, job{Cfg: cfgs[i], Mode: "explore", DeadlineNs: dl.UnixNano(), Workers: 1})
				}
			}()
		}
		for _, i := range order {
			if time.Now().After(env.Deadline) {
				break
			}
			ran[i] = true
			next <- i
		}
		close(next)
		wg.Wait()

		var perCfg []map[string]any
		var samples []any
		var evals, pruned, steps, divergences, stepCapped, teardown, probeRuns, probeFailed, states int64
		distinct := 0
		exhaustive := true
		var caps []string
		crashes, hangs, unconfirmed := 0, 0, 0
		add := func(v hres.Viol) {
			if _, ok := viol[v.Key]; !ok {
				viol[v.Key] = v
			}
		}
		for i := range cfgs {
			cfg := &cfgs[i]
			if !ran[i] {
				exhaustive = false
				caps = append(caps, "deadline before "+cfg.name())
				perCfg = append(perCfg, map[string]any{"cfg": cfg.name(), "skipped": "deadline"})
				continue
			}
			co := outs[i]
			if co.res == nil || co.res.Hang != nil {
				// the child died (assertion in a goroutine of the resource) or hung: re-run the schedules it was
				// executing, each in a fresh child, 5 times; report only what fails the same way every time
				exhaustive = false
				kind, first := "crash", co.crash
				var lists [][]int
				if co.res != nil {
					kind, first = "hang", ""
					lists = co.res.Hang.Choices
				} else if co.slots != "" {
					lists = readSlots(co.slots)
					os.Remove(co.slots)
				}
				caps = append(caps, fmt.Sprintf("%s: child %s (%s)", cfg.name(), kind, first))
				confirmed := false
				if _, seen := viol[kind+"/"+cfg.Transport]; seen {
					// the same kind of failure was already confirmed on a smaller configuration of this transport
					confirmed, lists = true, nil
				}
				for _, ch := range lists {
					same := 0
					var lastOut childOutcome
					for k := 0; k < 5; k++ {
						lastOut = spawn(dir, job{Cfg: *cfg, Mode: "replay", Choices: ch, HangLimitS: 20})
						if lastOut.slots != "" {
							os.Remove(lastOut.slots)
						}
						if kind == "crash" && lastOut.res == nil && lastOut.crash == first {
							same++
						}
						if kind == "hang" && lastOut.res != nil && lastOut.res.Hang != nil && lastOut.res.Hang.MutexWaits > 0 {
							same++
						}
					}
					if same == 5 {
						confirmed = true
						r := replay{Cfg: *cfg, Choices: ch}
						if kind == "crash" {
							r.Trace = strings.Split(trunc(lastOut.output, 6000), "\n")
							add(hres.Viol{Key: "crash/" + cfg.Transport, What: fmt.Sprintf("the process running the resource died: %s [%s]", first, cfg.name()), Replay: r})
						} else {
							r.Trace = strings.Split(lastOut.res.Hang.Goroutines, "\n")
							add(hres.Viol{Key: "hang/" + cfg.Transport, What: hangWhat(co.res.Hang, cfg), Replay: r})
						}
						break
					}
				}
				if kind == "crash" {
					crashes++
				} else {
					hangs++
				}
				if !confirmed {
					unconfirmed++
				}
				perCfg = append(perCfg, map[string]any{"cfg": cfg.name(), "child": kind, "message": first, "confirmed_5_of_5": confirmed})
				continue
			}
			r := co.res
			evals += r.Executions
			pruned += r.Pruned
			distinct += r.Outcomes
			steps += r.Steps
			divergences += r.Divergences
			stepCapped += r.StepCapped
			teardown += r.Teardown
			probeRuns += r.ProbeRuns
			probeFailed += r.ProbeFailed
			states += r.States
			if !r.Exhaustive {
				exhaustive = false
				caps = append(caps, fmt.Sprintf("%s: %s divergences=%d depth_capped=%d", cfg.name(), r.CapHit, r.Divergences, r.DepthCapped))
			}
			var keys []string
			for _, v := range r.Violations {
				keys = append(keys, v.Key)
				add(hres.Viol{Key: v.Key, What: v.What, Replay: replay{Cfg: *cfg, Choices: v.Choices, Trace: v.Trace}})
			}
			perCfg = append(perCfg, map[string]any{"cfg": cfg.name(), "executions": r.Executions, "pruned_on_revisited_state": r.Pruned, "distinct_outcomes": r.Outcomes,
				"max_choice_points": r.MaxDepth, "choice_states_expanded": r.States, "prefix_not_applicable_runs": r.PrefixMiss, "exhaustive": r.Exhaustive, "wall_s": fmt.Sprintf("%.1f", r.WallS), "violation_keys": keys})
			for _, s := range r.Samples {
				if len(samples) < 6 && (len(s.Choices) > 40 || i == len(cfgs)-1) {
					samples = append(samples, map[string]any{"cfg": cfg.name(), "choices": s.Choices, "outcome": s.Outcome})
				}
			}
		}
		keys := make([]string, 0, len(viol))
		for k := range viol {
			keys = append(keys, k)
		}
		sort.Strings(keys)
		for _, k := range keys {
			res.Violations = append(res.Violations, viol[k])
		}
		if teardown > 0 || stepCapped > 0 {
			exhaustive = false
		}
		res.Coverage = map[string]any{
			"evaluations":                  evals,
			"distinct_nontrivial":          distinct,
			"rule":                         "one evaluation = one complete schedule (every choice of: which pending request is processed, which reply is delivered, which node performs its next operation, when timers fire, and within the budget which request/reply is lost, which request is duplicated, which section is aborted after its pre-commit) run on real TwoPC resources inside a synctest bubble, with the safety oracle after every event and the release/progress oracle at quiescence; branches whose canonical state (private state of every node via accessor, pending messages, timers, script positions, oracle tables; SenderTimes by rank) was already expanded with at least the same remaining budget are pruned and not counted; distinct = distinct final outcomes (per node final version, value, per-section result, probe result) summed over configurations",
			"samples":                      samples,
			"configurations":               perCfg,
			"pruned_on_revisited_state":    pruned,
			"choice_states_expanded":       states,
			"scheduler_steps":              steps,
			"exhaustive":                   exhaustive,
			"caps_hit":                     caps,
			"divergences":                  divergences,
			"step_capped_executions":       stepCapped,
			"teardown_goroutines_left":     teardown,
			"child_crashes":                crashes,
			"child_hangs":                  hangs,
			"child_failures_not_confirmed": unconfirmed,
			"probe_sections_run":           probeRuns,
			"probe_sections_not_committed": probeFailed,
			"transports":                   []string{"local (LocalReplicaHandle, every Send parked and scheduled)", "direct (Receive, same pointers)", "gob (encoding/gob round trip + Receive = RPCReplicaHandle path)", "sync (LocalReplicaHandle called synchronously, nothing parked)"},
			"not_enumerated":               "6-7 replicas; 5 replicas beyond the listed configurations (two or three writers, one or two attempts, passive replicas otherwise); more than 2 sections per node; relative order of two concurrently pending timers; goroutine interleavings inside one resource between two scheduler points (they only read local state and park)",
			"wall_s_exploration":           time.Since(start).Seconds(),
			"child_processes":              par,
			"known_witnesses_replayed":     witnessReplayed,
			"real_rpc_cross_check":         realRPCCrossCheck(),
		}
		return res
	})
}

func hangWhat(h *hangReport, cfg *Cfg) string {
	return fmt.Sprintf("no scheduler step for %d s: goroutines of the resource are blocked (%d mutex waits in the goroutine dump), synctest.Wait never returns [%s]", h.LimitS, h.MutexWaits, cfg.name())
}

package c11

import (
	"os"
	"os/exec"
	"strings"
	"testing"
	"time"

	"github.com/DistCompiler/pgo/distsys/resources"
	"github.com/DistCompiler/pgo/distsys/tla"
)

// callHandle is the plainest possible transport: Send calls the peer's exported Receive at once.
type callHandle struct{ to **resources.TwoPCReceiver }

func (h callHandle) Close() error { return nil }
func (h callHandle) Send(req resources.TwoPCRequest, reply *resources.TwoPCResponse) chan error {
	ch := make(chan error, 1)
	ch <- (*h.to).Receive(req, reply)
	return ch
}

// TestRollbackWindow (development aid, C11_DEV_Y=1; not part of the check) shows the consequence of candidate
// finding (y): rollback() builds the Abort for version v+1 under the lock, broadcastAbortOrCommit then reads
// res.version again without it.  If another proposer's Commit of version v+1 is installed in between, a replica
// that is at v+1 rejects the Abort with its own version v+1 and assert(reply.Version > originalVersion) fails in
// a goroutine of the resource: the process dies.  The window has no blocking point, so the scheduler of the
// check cannot place a delivery there; this test places it through a transcription of rollback().
func TestRollbackWindow(t *testing.T) {
	if os.Getenv("C11_DEV_Y") == "" {
		t.Skip("C11_DEV_Y not set")
	}
	if os.Getenv("C11_DEV_Y") == "child" {
		var r [3]*resources.TwoPCReceiver
		for i := 0; i < 3; i++ {
			var hs []resources.ReplicaHandle
			for j := 0; j < 3; j++ {
				if j != i {
					hs = append(hs, callHandle{to: &r[j]})
				}
			}
			i := i
			resources.NewTwoPC(tla.MakeNumber(0), "verif-no-listener", hs, tla.MakeString("n"+string(rune('0'+i))), func(x *resources.TwoPCReceiver) { r[i] = x })
		}
		// n0 withdraws a proposal for version 1; in the window n1's Commit of version 1 reaches n0 and n2
		resources.VerifTwoPCRollbackWithWindow(r[0], func() {
			c := resources.TwoPCRequest{RequestType: resources.Commit, Value: tla.MakeNumber(7), Sender: tla.MakeString("n1"), Version: 1, SenderTime: time.Now().UnixNano()}
			var rep resources.TwoPCResponse
			r[0].Receive(c, &rep)
			r[2].Receive(c, &rep)
		})
		time.Sleep(200 * time.Millisecond)
		return
	}
	cmd := exec.Command(os.Args[0], "-test.run", "^TestRollbackWindow$", "-test.count", "1")
	cmd.Env = append(os.Environ(), "C11_DEV_Y=child")
	out, err := cmd.CombinedOutput()
	for _, l := range strings.Split(string(out), "\n") {
		if strings.HasPrefix(l, "panic:") {
			t.Logf("child died (%v): %s", err, l)
			return
		}
	}
	t.Logf("child survived (%v): %s", err, strings.TrimSpace(string(out)))
}

package c11

import (
	"fmt"
	"net"
	"time"

	"github.com/DistCompiler/pgo/distsys/resources"
	"github.com/DistCompiler/pgo/distsys/tla"
)

// realRPCCrossCheck runs the minimal "abort after pre-commit" schedule once over the repository's real
// RPC stack (NewTwoPC listeners on loopback, RPCReplicaHandle, net/rpc): it tells whether the gob
// transport of the harness and the real one agree on that schedule.  It never decides the property:
// anything that goes wrong with sockets is reported as "skipped".
func realRPCCrossCheck() (result string) {
	defer func() {
		if x := recover(); x != nil {
			result = fmt.Sprintf("skipped: panic %v", x)
		}
	}()
	freeAddr := func() (string, error) {
		l, err := net.Listen("tcp", "127.0.0.1:0")
		if err != nil {
			return "", err
		}
		a := l.Addr().String()
		l.Close()
		return a, nil
	}
	a0, err := freeAddr()
	if err != nil {
		return "skipped: " + err.Error()
	}
	a1, err := freeAddr()
	if err != nil {
		return "skipped: " + err.Error()
	}
	id0, id1 := tla.MakeString("n0"), tla.MakeString("n1")
	h01 := resources.MakeRPCReplicaHandle(a1, id1)
	h10 := resources.MakeRPCReplicaHandle(a0, id0)
	var r0, r1 *resources.TwoPCReceiver
	res0 := resources.NewTwoPC(tla.MakeNumber(0), a0, []resources.ReplicaHandle{&h01}, id0, func(r *resources.TwoPCReceiver) { r0 = r })
	_ = resources.NewTwoPC(tla.MakeNumber(0), a1, []resources.ReplicaHandle{&h10}, id1, func(r *resources.TwoPCReceiver) { r1 = r })
	defer func() {
		h01.Close()
		h10.Close()
		func() { defer func() { recover() }(); resources.CloseTwoPCReceiver(r0) }()
		func() { defer func() { recover() }(); resources.CloseTwoPCReceiver(r1) }()
	}()
	wait := func(ch chan error) (error, bool) {
		select {
		case e := <-ch:
			return e, true
		case <-time.After(20 * time.Second):
			return nil, false
		}
	}
	if err := res0.WriteValue(iface, tla.MakeNumber(1)); err != nil {
		return "skipped: write refused"
	}
	e, ok := wait(res0.PreCommit(iface))
	if !ok || e != nil {
		return fmt.Sprintf("skipped: first PreCommit over RPC did not succeed (%v)", e)
	}
	if d := resources.VerifTwoPCDumpOf(r1); !d.AcceptedPreCommit {
		return "skipped: replica did not accept the pre-commit"
	}
	done := make(chan struct{})
	go func() { res0.Abort(iface); close(done) }()
	select {
	case <-done:
	case <-time.After(20 * time.Second):
		return "skipped: Abort over RPC did not return in 20 s"
	}
	d := resources.VerifTwoPCDumpOf(r1)
	if !d.AcceptedPreCommit {
		return "released: after the proposer's Abort the replica is back in state initial"
	}
	// the lock-out: the same proposer tries again
	res0.WriteValue(iface, tla.MakeNumber(1))
	e, ok = wait(res0.PreCommit(iface))
	done = make(chan struct{})
	go func() { res0.Abort(iface); close(done) }()
	select {
	case <-done:
	case <-time.After(20 * time.Second):
	}
	return fmt.Sprintf("reproduced: over real net/rpc the replica still holds the pre-commit of %s for version %d after the proposer's Abort was delivered; the proposer's next PreCommit returned %v (completed=%v)", d.Accepted.Sender, d.Accepted.Version, e, ok)
}

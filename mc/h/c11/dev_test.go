package c11

import (
	"encoding/json"
	"fmt"
	"os"
	"runtime/debug"
	"strconv"
	"strings"
	"testing"
	"time"

	"verif/mc/explore"
)

// TestDev explores one configuration given on the environment (development aid, not part of the check):
// C11_DEV="gob;rmw|rmw;2;1" (transport;scripts;attempts;budget) [C11_TRACE=1]
func TestDev(t *testing.T) {
	spec := os.Getenv("C11_DEV")
	if spec == "" {
		t.Skip("C11_DEV not set")
	}
	var tr, sc string
	var att, bud int
	parts := splitN(spec, ';')
	tr, sc = parts[0], parts[1]
	att, _ = strconv.Atoi(parts[2])
	bud, _ = strconv.Atoi(parts[3])
	cfg := &Cfg{Transport: tr, Scripts: scripts(sc), MaxAttempts: att, Budget: bud, Faults: faultsFor(tr, bud), MaxSteps: 400, Atomic: len(parts) > 4 && strings.Contains(parts[4], "atomic"), Sym: len(parts) > 4 && strings.Contains(parts[4], "sym"), Coarse: len(parts) > 4 && strings.Contains(parts[4], "coarse"), LazyTimers: len(parts) > 4 && strings.Contains(parts[4], "lazy"), SplitReceive: len(parts) > 4 && strings.Contains(parts[4], "split")}
	if f := os.Getenv("C11_PREFIX"); f != "" {
		cfg.Prefix = splitN(f, ',')
	}
	if f := os.Getenv("C11_FAULTS"); f != "" {
		cfg.Faults = splitN(f, ',')
	}
	workers := 6
	if s := os.Getenv("VERIF_WORKERS"); s != "" {
		workers, _ = strconv.Atoi(s)
	}
	cnt := &counters{}
	debug.SetGCPercent(400)
	st := explore.Run(body(t, cfg, cnt, os.Getenv("C11_TRACE") != "", nil), explore.Options{Budget: bud, Workers: workers, Deadline: time.Now().Add(10 * time.Minute), MaxDepth: 2000, Setup: func(int) any { return &workerData{codec: newGobCodec()} }, Samples: 2})
	fmt.Printf("%s: executions=%d pruned=%d outcomes=%d maxdepth=%d exhaustive=%v cap=%q div=%d wall=%.1fs steps=%d stuck=%d probeFail=%d/%d states=%d\n", cfg.name(), st.Executions, st.Pruned, st.Outcomes, st.MaxDepthSeen, st.Exhaustive, st.CapHit, st.Divergences, st.WallS, cnt.steps.Load(), cnt.teardownStuck.Load(), cnt.probeNodeFailed.Load(), cnt.probeRuns.Load(), cnt.statesExpanded.Load())
	for o, n := range st.OutcomeHist {
		fmt.Printf("  outcome x%d: %s\n", n, o)
	}
	for _, s := range st.Samples {
		fmt.Printf("  sample: %s => %s\n", s.Choices, s.Outcome)
	}
	for _, v := range st.Violations {
		fmt.Printf("VIOLATION %s (repro %d): %s\n", v.Key, v.Repro, v.What)
		if os.Getenv("C11_TRACE") != "" {
			if d, ok := v.Detail.(map[string]any); ok {
				if trc, ok := d["trace"].([]string); ok {
					for _, l := range trc {
						fmt.Println("    " + l)
					}
				}
			}
			b, _ := json.Marshal(v.Choices)
			fmt.Printf("    choices=%s\n", b)
		}
	}
}

func splitN(s string, sep byte) []string {
	var out []string
	cur := ""
	for i := 0; i < len(s); i++ {
		if s[i] == sep {
			out = append(out, cur)
			cur = ""
		} else {
			cur += string(s[i])
		}
	}
	return append(out, cur)
}

// C11: the two-phase-commit variable behaves as one copy and does not livelock.
//
// A controlled scheduler (explore.Run; every execution inside one testing/synctest bubble) drives
// 2..4 real TwoPCArchetypeResource nodes wired together through a harness ReplicaHandle that parks
// every Send as a pending message.  The scheduler decides when a request is processed by the peer,
// when its reply reaches the sender, when a node performs its next resource operation
// (ReadValue/WriteValue/PreCommit/Commit/Abort, in the order MPCalContext.Run uses them) and when
// virtual time passes (back-off sleeps, 1 s Abort/Commit retry); within a fault budget it drops a
// request or a reply (error to the sender), duplicates a request, or lets a sibling resource refuse
// its pre-commit (the section is aborted after a successful PreCommit); a timeout is an error to the
// sender while the request is still delivered later.
package c11

import (
	"bytes"
	"encoding/gob"
	"errors"
	"fmt"
	"sort"
	"strconv"
	"strings"
	"sync"
	"sync/atomic"
	"testing/synctest"
	"time"

	"github.com/DistCompiler/pgo/distsys"
	"github.com/DistCompiler/pgo/distsys/resources"
	"github.com/DistCompiler/pgo/distsys/tla"
	"verif/mc/explore"
)

// Cfg is one exploration configuration.
type Cfg struct {
	Transport   string     `json:"transport"` // local | direct | gob | sync (LocalReplicaHandle called synchronously, nothing parked)
	Scripts     [][]string `json:"scripts"`   // per node: section kinds ("rmw", "blind")
	MaxAttempts int        `json:"max_attempts"`
	Budget      int        `json:"budget"`
	Faults      []string   `json:"faults"` // subset of: drop-req drop-reply timeout dup sibling-abort
	MaxSteps    int        `json:"max_steps"`
	// Atomic: a request and its reply are one scheduler step (the reply reaches the sender before anything
	// else happens).  Coarser than the default (request processing and reply delivery scheduled separately);
	// used for the larger configurations.
	Atomic bool `json:"atomic,omitempty"`
	// Sym: replicas without a script ("passive": they only answer) are interchangeable.  The state key is
	// made invariant under permutations of passive replicas, of several moves that are images of each other
	// under such a permutation only one is offered, and the probe phase visits passive replicas in an order
	// that depends on their state only.
	Sym bool `json:"sym,omitempty"`
	// Coarse: a section issues its reads and writes and then PreCommit back to back in one scheduler step
	// (no message is processed at that node in between).  A restriction of the schedule space.
	Coarse bool `json:"coarse,omitempty"`
	// LazyTimers: virtual time passes (back-off and 1 s retry sleeps end) only when no other move is enabled,
	// i.e. timers are slower than every message and every local step.  A restriction of the schedule space.
	LazyTimers bool `json:"lazy_timers,omitempty"`
	// SplitReceive (direct transport): a replica handles a request in the two critical sections receiveFiltered
	// really has - the stale-message filter, then receiveInternal - as two scheduler steps, so that the
	// requests of two concurrent Receive calls interleave between them.
	SplitReceive bool `json:"split_receive,omitempty"`
	// Prefix: moves executed first, without choice ("op:<node>", "rpc:<from>><to>:<type>", "recv:...",
	// "reply:..."); the enumeration covers every continuation of that prefix.
	Prefix []string `json:"prefix,omitempty"`
}

func (c *Cfg) name() string {
	var s []string
	for _, sc := range c.Scripts {
		if len(sc) == 0 {
			s = append(s, "-")
		} else {
			s = append(s, strings.Join(sc, "+"))
		}
	}
	at := ""
	if c.Atomic {
		at = "/atomic-rpc"
	}
	if c.Sym {
		at += "/sym"
	}
	if c.Coarse {
		at += "/coarse-ops"
	}
	if c.LazyTimers {
		at += "/lazy-timers"
	}
	if c.SplitReceive {
		at += "/split-receive"
	}
	if len(c.Prefix) > 0 {
		at += fmt.Sprintf("/after-prefix(%d moves)", len(c.Prefix))
	}
	if c.Budget > 0 && len(c.Faults) == 1 {
		at += "/only-" + c.Faults[0]
	} else if c.Budget > 0 && len(c.Faults) > 1 && len(c.Faults) < 5 {
		at += "/faults=" + strings.Join(c.Faults, "+")
	}
	return fmt.Sprintf("%s/%dn[%s]/att%d/b%d%s", c.Transport, len(c.Scripts), strings.Join(s, "|"), c.MaxAttempts, c.Budget, at)
}

func (c *Cfg) fault(k string) bool {
	for _, f := range c.Faults {
		if f == k {
			return true
		}
	}
	return false
}

var errDropped = errors.New("verif: message lost (transport error / RPC timeout)")

// bubbleEpoch is the virtual time at which every synctest bubble starts.
const bubbleEpoch = 946684800000000000

// ---------------------------------------------------------------------------------------------
// transport

type msg struct {
	id       int
	from, to int
	req      resources.TwoPCRequest
	reply    *resources.TwoPCResponse
	ch       chan error
	stage    int // 0 request in flight, 5 passed the receiver's filter (SplitReceive), 1 processed (or lost), reply in flight
	resp     resources.TwoPCResponse
	respGob  []byte
	err      error
	dup      bool // a duplicate of a request: processed, reply goes nowhere
	dupped   bool // already duplicated once
}

func (m *msg) String() string {
	s := fmt.Sprintf("m%d %s(v%d) n%d->n%d", m.id, m.req.RequestType, m.req.Version, m.from, m.to)
	if m.dup {
		s += " [dup]"
	}
	return s
}

type handle struct {
	w        *world
	from, to int
}

func (h *handle) Close() error { return nil }

// Send parks the request; the scheduler decides what happens to it.
func (h *handle) Send(req resources.TwoPCRequest, reply *resources.TwoPCResponse) chan error {
	ch := make(chan error, 1)
	w := h.w
	w.mu.Lock()
	if w.teardown {
		w.mu.Unlock()
		*reply = resources.TwoPCResponse{Accept: true}
		ch <- nil
		return ch
	}
	if w.cfg.Transport == "sync" {
		// the repository's in-process transport used the way the repository uses it: Send is a plain function
		// call inside the sender's goroutine (LocalReplicaHandle.Send); the harness only keeps a record
		w.noteSent(h.from, h.to, &req)
		w.mu.Unlock()
		to := w.nodes[h.to]
		before := w.dump(h.to)
		err := <-resources.VerifTwoPCLocalHandle(to.rcvr).Send(req, reply)
		after := w.dump(h.to)
		w.mu.Lock()
		w.noteProcessed(h.from, h.to, &req, &before, &after)
		if w.tracing {
			w.trace = append(w.trace, fmt.Sprintf("   [sync] %s(v%d) n%d->n%d: n%d: %s -> %s ; reply accept=%v v%d", req.RequestType, req.Version, h.from, h.to, h.to, short(before), short(after), reply.Accept, reply.Version))
		}
		w.mu.Unlock()
		ch <- err
		return ch
	}
	w.newMsgs = append(w.newMsgs, &msg{from: h.from, to: h.to, req: req, reply: reply, ch: ch})
	w.mu.Unlock()
	w.signal()
	return ch
}

// gobCodec holds one request stream and one reply stream, each with one long-lived encoder and decoder
// like the two directions of one net/rpc connection (type descriptors travel once, at warm-up; after
// that every message is self-contained, so replies may be decoded in any order).
type gobCodec struct {
	reqBuf  bytes.Buffer
	reqEnc  *gob.Encoder
	reqDec  *gob.Decoder
	respBuf bytes.Buffer
	respEnc *gob.Encoder
	respIn  bytes.Buffer
	respDec *gob.Decoder
}

type harnessBug string

func newGobCodec() *gobCodec {
	g := &gobCodec{}
	g.reqEnc = gob.NewEncoder(&g.reqBuf)
	g.reqDec = gob.NewDecoder(&g.reqBuf)
	g.respEnc = gob.NewEncoder(&g.respBuf)
	g.respDec = gob.NewDecoder(&g.respIn)
	// warm-up: send the type descriptors of both message types
	req := resources.TwoPCRequest{RequestType: resources.Commit, Value: tla.MakeNumber(1), Sender: tla.MakeString("w"), Version: 1, SenderTime: 1}
	g.request(&req)
	b := g.encodeReply(&resources.TwoPCResponse{Accept: true, Version: 1, Value: tla.MakeNumber(1)})
	var r resources.TwoPCResponse
	g.decodeReply(b, &r)
	return g
}

// request = client Encode(&request) ; server Decode(new(TwoPCRequest))
func (g *gobCodec) request(req *resources.TwoPCRequest) *resources.TwoPCRequest {
	if e := g.reqEnc.Encode(req); e != nil {
		panic(harnessBug(fmt.Sprintf("gob encode request: %v", e)))
	}
	argv := new(resources.TwoPCRequest)
	if e := g.reqDec.Decode(argv); e != nil {
		panic(harnessBug(fmt.Sprintf("gob decode request: %v", e)))
	}
	return argv
}

// encodeReply = server Encode(replyv.Interface()) with replyv a *TwoPCResponse
func (g *gobCodec) encodeReply(r *resources.TwoPCResponse) []byte {
	g.respBuf.Reset()
	if e := g.respEnc.Encode(r); e != nil {
		panic(harnessBug(fmt.Sprintf("gob encode reply: %v", e)))
	}
	return append([]byte(nil), g.respBuf.Bytes()...)
}

// decodeReply = client Decode(call.Reply) where call.Reply is &reply, a **TwoPCResponse
func (g *gobCodec) decodeReply(b []byte, reply *resources.TwoPCResponse) {
	g.respIn.Reset()
	g.respIn.Write(b)
	rp := reply
	if e := g.respDec.Decode(&rp); e != nil {
		panic(harnessBug(fmt.Sprintf("gob decode reply: %v", e)))
	}
}

// ---------------------------------------------------------------------------------------------
// nodes and scripts

type opRun struct {
	kind byte // P C A
	done atomic.Bool
	err  error
	pan  any
}

type bcast struct {
	typ            resources.TwoPCRequestType
	version        int
	time           int64
	acc, rej, errs int
	outstanding    int
	owner          *opRun
}

type node struct {
	idx    int
	id     tla.Value
	res    distsys.ArchetypeResource
	rcvr   *resources.TwoPCReceiver
	script []string
	attMax int

	sec, attempt, pc int
	phase            byte // 'r' run | 'a' abort pending | 'd' done
	op               *opRun
	pcVersion        int // the version the current attempt pre-commits for
	hasRead          bool
	readVal          int32
	readVer          int
	wrote            bool
	wval             tla.Value
	backoff          bool
	lastVersion      int
	results          []string
	bcasts           []*bcast
	abortIgnored     map[int64]bool     // accepted pre-commit (by its SenderTime) that survived a newer Abort of the same proposer
	lastPCTime       int64              // SenderTime of this node's latest PreCommit broadcast
	attempts         []*attemptRec      // this node's proposals
	acceptedAt       map[accKey]int     // event number at which this node accepted the pre-commit (sender, SenderTime)
	overridden       *promise           // a promise this replica gave and then overwrote with a higher-version pre-commit of someone else, not yet installed
	forgotAccept     map[accKey]promise // pre-commits this replica accepted for a version for which it had forgotten a promise to someone else
	forgot           []promise          // overridden promises whose overriding proposal was then released by Abort: the replica is unlocked below a version it promised
	committedPC      map[int64]bool     // SenderTimes of the PreCommit broadcasts whose section went on to Commit
	commits          int
}

// ops: R read, W write, P PreCommit, C Commit, X = the section is aborted after its successful pre-commit
// (script kind "rmwa": a sibling resource of the same critical section always refuses, as in MPCalContext.abort)
func (n *node) ops() string {
	switch n.script[n.sec] {
	case "rmw":
		return "RWPC"
	case "rmwa":
		return "RWPX"
	}
	return "WPC"
}

// mkey identifies one request: all copies (re-sends, duplicates) of it share the key.
type mkey struct {
	from, to int
	typ      resources.TwoPCRequestType
	time     int64
}

// mrec is what happened to one request so far (oracle diagnosis: why is a replica still locked?).
type mrec struct {
	version   int   // the request's Version field
	sent      int   // times the sender handed it to the transport
	lost      int   // times the sender got an error for it (lost request, lost reply, time-out)
	processed []int // event numbers at which the receiver processed it
}

// attemptRec is one proposal of a node: its PreCommit broadcast and what followed.
type attemptRec struct {
	pcTime     int64
	commitTime int64   // SenderTime of its Commit broadcast (0: the section did not commit)
	abortTimes []int64 // SenderTimes of its Abort broadcasts
}

type accKey struct {
	sender int
	time   int64
}

type winner struct {
	node, sec, attempt int
	val                string
	pcTime             int64 // SenderTime of the winning PreCommit broadcast
}

// promise: a pre-commit a replica accepted (sender, version, SenderTime)
type promise struct {
	sender, version int
	time            int64
	by              int // overridden: the proposer whose higher-version pre-commit replaced it
}

type sleeper struct {
	from, to int
	typ      resources.TwoPCRequestType
	time     int64
	deadline time.Time
}

type world struct {
	c       *explore.Ctx
	cfg     *Cfg
	codec   *gobCodec
	nodes   []*node
	tracing bool
	choose  func(n int, label string, deviate bool) int

	mu       sync.Mutex
	newMsgs  []*msg
	teardown bool

	wake     chan struct{}
	pend     []*msg
	nextID   int
	sleepers []sleeper

	hist map[mkey]*mrec
	seq  int // number of requests processed so far

	installed map[int]string
	winners   map[int]winner
	steps     int
	trace     []string
	probing   bool
	cnt       *counters
	kb        []byte
}

type counters struct {
	steps, depthCapped, teardownStuck, probeRuns, probeNodeFailed, statesExpanded, prefixMismatch atomic.Int64
}

// progressCtr is bumped at every scheduler step of any execution (process-level watchdog).
var progressCtr atomic.Int64

func (w *world) signal() {
	select {
	case w.wake <- struct{}{}:
	default:
	}
}

func (w *world) logf(format string, a ...any) {
	if w.tracing {
		w.trace = append(w.trace, fmt.Sprintf(format, a...))
	}
}

func (w *world) fail(key, format string, a ...any) {
	what := fmt.Sprintf(format, a...)
	w.logf("VIOLATION %s: %s", key, what)
	tr := w.cfg.Transport
	if w.cfg.SplitReceive {
		tr += "-split" // findings that need two Receive calls to interleave between their two critical sections
	}
	w.c.Fail(key+"/"+tr, what+" ["+w.cfg.name()+"]", map[string]any{"trace": w.trace})
}

var iface = distsys.ArchetypeInterface{}

func newWorld(c *explore.Ctx, cfg *Cfg, codec *gobCodec, cnt *counters) *world {
	w := &world{c: c, cfg: cfg, codec: codec, wake: make(chan struct{}, 1), installed: map[int]string{0: "0"}, winners: map[int]winner{}, hist: map[mkey]*mrec{}, cnt: cnt}
	n := len(cfg.Scripts)
	for i := 0; i < n; i++ {
		w.nodes = append(w.nodes, &node{idx: i, id: tla.MakeString("n" + strconv.Itoa(i)), script: cfg.Scripts[i], attMax: cfg.MaxAttempts, phase: 'r', abortIgnored: map[int64]bool{}, committedPC: map[int64]bool{}, acceptedAt: map[accKey]int{}, forgotAccept: map[accKey]promise{}})
	}
	for i, nd := range w.nodes {
		var hs []resources.ReplicaHandle
		for j := 0; j < n; j++ {
			if j != i {
				hs = append(hs, &handle{w: w, from: i, to: j})
			}
		}
		// The address has no port, so net.Listen fails at once inside listenAndServe and neither a socket
		// nor the Accept goroutine is created (NewTwoPC ignores that error); everything else is the normal
		// constructor.
		nd.res = resources.NewTwoPC(tla.MakeNumber(0), "verif-no-listener", hs, nd.id, func(r *resources.TwoPCReceiver) { nd.rcvr = r })
		if len(nd.script) == 0 {
			nd.phase = 'd'
		}
	}
	return w
}

func (w *world) dump(i int) resources.VerifTwoPCDump {
	return resources.VerifTwoPCDumpOf(w.nodes[i].rcvr)
}

// ---------------------------------------------------------------------------------------------
// moves

type move struct {
	kind string // recv reply op time | drop-req drop-reply dup sibling-abort
	m    *msg
	n    int
}

// spec is the form in which a move is written in Cfg.Prefix.
func (mv move) spec() string {
	switch mv.kind {
	case "op":
		return "op:" + strconv.Itoa(mv.n)
	case "time":
		return "time"
	}
	return fmt.Sprintf("%s:%d>%d:%s", mv.kind, mv.m.from, mv.m.to, mv.m.req.RequestType)
}

func (mv move) String() string {
	switch mv.kind {
	case "op", "sibling-abort":
		return fmt.Sprintf("%s n%d", mv.kind, mv.n)
	case "time":
		return "time"
	}
	return mv.kind + " " + mv.m.String()
}

// enabled lists the moves of the current state.  In Sym configurations, of several moves that address
// passive replicas in identical situations (same state, same pending messages) with the same message
// only the first is kept: the others lead to the same state up to a permutation of passive replicas.
func (w *world) enabled() (free, faults []move) {
	free, faults = w.enabledAll()
	if !w.cfg.Sym || w.probing {
		return
	}
	var sigs map[int]string
	var k *keyCtx
	dedupe := func(in []move) []move {
		n := 0
		for _, mv := range in {
			if mv.m != nil && w.passive(mv.m.to) {
				n++
			}
		}
		if n < 2 {
			return in
		}
		if sigs == nil {
			k = w.newKeyCtx()
			sigs = map[int]string{}
			for i := range w.nodes {
				if w.passive(i) {
					sigs[i] = w.passiveSig(k, i)
				}
			}
		}
		seen := map[string]bool{}
		out := in[:0:0]
		for _, mv := range in {
			if mv.m != nil && w.passive(mv.m.to) {
				id := mv.kind + "|" + w.msgSeg(k, mv.m, false) + "|" + sigs[mv.m.to]
				if seen[id] {
					continue
				}
				seen[id] = true
			}
			out = append(out, mv)
		}
		return out
	}
	return dedupe(free), dedupe(faults)
}

func (w *world) enabledAll() (free, faults []move) {
	for _, m := range w.pend {
		if m.stage == 0 && w.cfg.SplitReceive {
			free = append(free, move{kind: "filter", m: m})
		} else if (m.stage == 0 || m.stage == 5) && w.cfg.Atomic && !m.dup {
			free = append(free, move{kind: "rpc", m: m})
		} else if m.stage == 0 || m.stage == 5 {
			free = append(free, move{kind: "recv", m: m})
		} else {
			free = append(free, move{kind: "reply", m: m})
		}
	}
	for _, nd := range w.nodes {
		if nd.op == nil && nd.phase != 'd' {
			free = append(free, move{kind: "op", n: nd.idx})
		}
	}
	if w.timePending() && (!w.cfg.LazyTimers || len(free) == 0) {
		free = append(free, move{kind: "time"})
	}
	if w.probing || len(w.cfg.Faults) == 0 || w.c.Remaining() <= 0 {
		return free, nil
	}
	for _, m := range w.pend {
		if m.dup {
			continue
		}
		if m.stage == 0 && (w.cfg.fault("drop-req") || w.cfg.fault("drop-commit") && m.req.RequestType == resources.Commit) {
			// drop-commit = drop-req restricted to Commit requests ("one lost Commit")
			faults = append(faults, move{kind: "drop-req", m: m})
		}
		if (m.stage == 1 && m.err == nil || m.stage == 0 && w.cfg.Atomic) && w.cfg.fault("drop-reply") {
			faults = append(faults, move{kind: "drop-reply", m: m})
		}
		if m.stage == 0 && w.cfg.fault("timeout") {
			faults = append(faults, move{kind: "timeout", m: m})
		}
		if m.stage == 0 && !m.dupped && w.cfg.fault("dup") {
			faults = append(faults, move{kind: "dup", m: m})
		}
	}
	if w.cfg.fault("sibling-abort") {
		for _, nd := range w.nodes {
			if nd.op == nil && nd.phase == 'r' && nd.ops()[nd.pc] == 'C' {
				faults = append(faults, move{kind: "sibling-abort", n: nd.idx})
			}
		}
	}
	return
}

func (w *world) timePending() bool {
	if len(w.sleepers) > 0 {
		return true
	}
	for _, nd := range w.nodes {
		if nd.backoff {
			return true
		}
	}
	return false
}

func (w *world) anyOp() bool {
	for _, nd := range w.nodes {
		if nd.op != nil {
			return true
		}
	}
	return false
}

// tick makes the virtual clock strictly increase between scheduler steps, so that two requests of
// one sender never carry the same SenderTime (as with a real nanosecond clock).
func (w *world) tick() {
	time.Sleep(time.Microsecond)
	synctest.Wait()
}

// apply performs one move and returns the nodes whose state it may have changed (-1: all).
func (w *world) apply(mv move) int {
	w.steps++
	progressCtr.Add(1)
	w.cnt.steps.Add(1)
	if w.tracing {
		w.logf("%s", mv)
	}
	aff := -2
	switch mv.kind {
	case "filter":
		aff = mv.m.to
		w.filterHalf(mv.m)
	case "recv":
		w.process(mv.m)
		aff = mv.m.to
	case "reply":
		aff = mv.m.from
		w.deliverReply(mv.m)
	case "rpc":
		aff = -1
		w.process(mv.m)
		w.deliverReply(mv.m)
	case "op":
		w.nodeOp(w.nodes[mv.n], false)
		aff = mv.n
	case "sibling-abort":
		w.nodeOp(w.nodes[mv.n], true)
		aff = mv.n
	case "time":
		w.advanceTime()
		aff = -1
	case "drop-req":
		mv.m.stage, mv.m.err = 1, errDropped
		if w.cfg.Atomic {
			aff = mv.m.from
			w.deliverReply(mv.m)
		}
	case "drop-reply":
		if w.cfg.Atomic {
			aff = -1
			w.process(mv.m)
			mv.m.err = errDropped
			w.deliverReply(mv.m)
		} else {
			mv.m.err = errDropped
		}
	case "timeout":
		// the sender gives up waiting (RPCReplicaHandle: "RPC timeout") but the request is still on its way
		// and is processed later; its reply then goes nowhere
		d := &msg{id: w.nextID, from: mv.m.from, to: mv.m.to, req: mv.m.req, dup: true}
		w.nextID++
		w.pend = append(w.pend, d)
		mv.m.stage, mv.m.err = 1, errDropped
		if w.cfg.Atomic {
			aff = mv.m.from
			w.deliverReply(mv.m)
		}
	case "dup":
		mv.m.dupped = true
		d := &msg{id: w.nextID, from: mv.m.from, to: mv.m.to, req: mv.m.req, dup: true}
		w.nextID++
		w.pend = append(w.pend, d)
	}
	synctest.Wait()
	w.settle()
	return aff
}

func (w *world) advanceTime() {
	select {
	case <-w.wake:
	default:
	}
	t := time.NewTimer(70 * time.Second)
	select {
	case <-w.wake:
		t.Stop()
	case <-t.C:
	}
}

func (w *world) removePend(m *msg) {
	for i, x := range w.pend {
		if x == m {
			w.pend = append(w.pend[:i:i], w.pend[i+1:]...)
			return
		}
	}
}

func (w *world) rec(from, to int, req *resources.TwoPCRequest) *mrec {
	k := mkey{from, to, req.RequestType, req.SenderTime}
	r := w.hist[k]
	if r == nil {
		r = &mrec{version: req.Version}
		w.hist[k] = r
	}
	return r
}

// noteSent records that `from` handed req to the transport for `to`, and files it under the sender's proposals.
// Callers hold w.mu in the sync transport (several sender goroutines); elsewhere only the scheduler calls it.
func (w *world) noteSent(from, to int, req *resources.TwoPCRequest) {
	w.rec(from, to, req).sent++
	nd := w.nodes[from]
	switch req.RequestType {
	case resources.PreCommit:
		if len(nd.attempts) == 0 || nd.attempts[len(nd.attempts)-1].pcTime != req.SenderTime {
			nd.attempts = append(nd.attempts, &attemptRec{pcTime: req.SenderTime})
		}
		nd.lastPCTime = req.SenderTime
	case resources.Commit:
		if n := len(nd.attempts); n > 0 {
			nd.attempts[n-1].commitTime = req.SenderTime
		}
	case resources.Abort:
		if n := len(nd.attempts); n > 0 {
			a := nd.attempts[n-1]
			if len(a.abortTimes) == 0 || a.abortTimes[len(a.abortTimes)-1] != req.SenderTime {
				a.abortTimes = append(a.abortTimes, req.SenderTime)
			}
		}
	}
}

// noteProcessed records that `to` processed req, and the harness's diagnosis of what it did to a held accept.
func (w *world) noteProcessed(from, to int, req *resources.TwoPCRequest, before, after *resources.VerifTwoPCDump) {
	w.seq++
	r := w.rec(from, to, req)
	r.processed = append(r.processed, w.seq)
	nd := w.nodes[to]
	if req.RequestType == resources.PreCommit && after.AcceptedPreCommit && after.Accepted.SenderTime == req.SenderTime &&
		after.Accepted.Sender.Equal(req.Sender) && !(before.AcceptedPreCommit && before.Accepted.SenderTime == req.SenderTime && before.Accepted.Sender.Equal(req.Sender)) {
		nd.acceptedAt[accKey{from, req.SenderTime}] = w.seq
	}
	// diagnosis of "promise overridden by a higher version": promise -> overwritten -> released below it
	bs := -1
	if before.AcceptedPreCommit {
		bs = w.senderIdx(before.Accepted.Sender)
	}
	if _, fresh := nd.acceptedAt[accKey{from, req.SenderTime}]; fresh && nd.acceptedAt[accKey{from, req.SenderTime}] == w.seq &&
		bs >= 0 && bs != from && before.Accepted.Version < req.Version {
		if nd.overridden == nil {
			nd.overridden = &promise{sender: bs, version: before.Accepted.Version, time: before.Accepted.SenderTime, by: from}
		} else {
			nd.overridden.by = from // overwritten again: the oldest forgotten promise is the one that matters
		}
	}
	if at, ok := nd.acceptedAt[accKey{from, req.SenderTime}]; ok && at == w.seq {
		for _, f := range nd.forgot {
			if f.version == req.Version && f.sender != from {
				nd.forgotAccept[accKey{from, req.SenderTime}] = f
			}
		}
	}
	if req.RequestType == resources.Abort && before.AcceptedPreCommit && !after.AcceptedPreCommit && nd.overridden != nil {
		if after.Version < nd.overridden.version {
			nd.forgot = append(nd.forgot, *nd.overridden)
		}
		nd.overridden = nil
	}
	if after.Version > before.Version {
		if nd.overridden != nil && nd.overridden.version <= after.Version {
			nd.overridden = nil
		}
		k := 0
		for _, f := range nd.forgot {
			if f.version > after.Version {
				nd.forgot[k] = f
				k++
			}
		}
		nd.forgot = nd.forgot[:k]
	}
	// did an Abort of the accepted proposer, not older than the accepted pre-commit, leave the acceptor locked?
	if req.RequestType == resources.Abort && before.AcceptedPreCommit && after.AcceptedPreCommit &&
		before.Accepted.Sender.Equal(req.Sender) &&
		before.Accepted.SenderTime <= req.SenderTime && after.Accepted.SenderTime == before.Accepted.SenderTime {
		nd.abortIgnored[before.Accepted.SenderTime] = true
	}
}

// filterHalf runs the first critical section of receiveFiltered for m at its receiver.
func (w *world) filterHalf(m *msg) {
	before := w.dump(m.to)
	var resp resources.TwoPCResponse
	if !resources.VerifTwoPCFilterHalf(w.nodes[m.to].rcvr, m.req, &resp) {
		m.stage = 5
		w.logf("   n%d: passed the stale-message filter, not yet handled", m.to)
		return
	}
	after := w.dump(m.to)
	w.noteProcessed(m.from, m.to, &m.req, &before, &after)
	w.logf("   n%d: ignored as older than a message already seen from n%d", m.to, m.from)
	if m.dup {
		w.removePend(m)
		return
	}
	m.stage, m.resp, m.err = 1, resp, nil
	if w.cfg.Atomic {
		w.deliverReply(m)
	}
}

// process hands a request to the receiving node exactly as the transport would.
func (w *world) process(m *msg) {
	to := w.nodes[m.to]
	before := w.dump(m.to)
	var resp resources.TwoPCResponse
	var err error
	arg := m.req
	if w.cfg.Transport == "gob" {
		arg = *w.codec.request(&m.req)
	}
	func() {
		defer func() {
			if x := recover(); x != nil {
				w.fail("panic/receive", "node n%d panicked while processing %s: %v", m.to, m, x)
			}
		}()
		switch w.cfg.Transport {
		case "local":
			// the repository's in-process transport: LocalReplicaHandle.Send -> receiveInternal
			err = <-resources.VerifTwoPCLocalHandle(to.rcvr).Send(arg, &resp)
		case "direct":
			if m.stage == 5 {
				// second critical section of receiveFiltered; the first ran in an earlier step
				err = resources.VerifTwoPCInternalHalf(to.rcvr, arg, &resp)
				break
			}
			// a custom in-process transport can only reach the exported RPC entry point
			err = to.rcvr.Receive(arg, &resp)
		case "gob":
			// net/rpc: the server calls Receive(decoded argument, new(TwoPCResponse)) and encodes the reply;
			// the client decodes it into the caller's reply struct when the reply is delivered
			replyv := new(resources.TwoPCResponse)
			err = to.rcvr.Receive(arg, replyv)
			resp = *replyv
		}
	}()
	if w.cfg.Transport == "gob" && err == nil && !m.dup {
		m.respGob = w.codec.encodeReply(&resp)
	}
	after := w.dump(m.to)
	w.noteProcessed(m.from, m.to, &m.req, &before, &after)
	if w.tracing {
		w.logf("   n%d: %s -> %s ; reply accept=%v v%d", m.to, short(before), short(after), resp.Accept, resp.Version)
	}
	if m.dup {
		w.removePend(m)
		return
	}
	m.stage, m.resp, m.err = 1, resp, err
}

func short(d resources.VerifTwoPCDump) string {
	s := fmt.Sprintf("v%d=%s/%s %s", d.Version, d.OldValue, d.Value, d.CSState)
	if d.AcceptedPreCommit {
		s += fmt.Sprintf(" accepted(%s,v%d)", d.Accepted.Sender, d.Accepted.Version)
	}
	return s
}

func (w *world) deliverReply(m *msg) {
	w.removePend(m)
	b := w.nodes[m.from].findBcast(m)
	if b != nil {
		b.outstanding--
		switch {
		case m.err != nil:
			b.errs++
		case m.resp.Accept:
			b.acc++
		default:
			b.rej++
		}
	}
	if m.err != nil {
		w.rec(m.from, m.to, &m.req).lost++
		if m.req.RequestType != resources.PreCommit {
			// broadcastAbortOrCommit sleeps one second and then re-sends while its version is unchanged
			w.sleepers = append(w.sleepers, sleeper{from: m.from, to: m.to, typ: m.req.RequestType, time: m.req.SenderTime, deadline: time.Now().Add(time.Second)})
		}
		m.ch <- m.err
		return
	}
	if w.cfg.Transport == "gob" {
		w.codec.decodeReply(m.respGob, m.reply)
	} else {
		*m.reply = m.resp
	}
	m.ch <- nil
}

func (n *node) findBcast(m *msg) *bcast {
	for _, b := range n.bcasts {
		if b.typ == m.req.RequestType && b.time == m.req.SenderTime {
			return b
		}
	}
	return nil
}

// settle runs after every move once all goroutines are durably blocked: registers newly parked
// messages in a canonical order, notices finished operations and advances the scripts.
func (w *world) settle() {
	w.mu.Lock()
	nm := w.newMsgs
	w.newMsgs = nil
	w.mu.Unlock()
	if len(nm) > 1 {
		sort.Slice(nm, func(i, j int) bool {
			a, b := nm[i], nm[j]
			if a.from != b.from {
				return a.from < b.from
			}
			if a.to != b.to {
				return a.to < b.to
			}
			if a.req.SenderTime != b.req.SenderTime {
				return a.req.SenderTime < b.req.SenderTime
			}
			return a.req.RequestType < b.req.RequestType
		})
	}
	for _, m := range nm {
		m.id = w.nextID
		w.nextID++
		w.pend = append(w.pend, m)
		nd := w.nodes[m.from]
		b := nd.findBcast(m)
		if b == nil {
			b = &bcast{typ: m.req.RequestType, version: m.req.Version, time: m.req.SenderTime, owner: nd.op}
			nd.bcasts = append(nd.bcasts, b)
		}
		b.outstanding++
		w.noteSent(m.from, m.to, &m.req)
		if m.req.RequestType == resources.PreCommit {
			nd.backoff = false
		}
		// a re-sent Abort/Commit ends the corresponding retry sleep
		for i, s := range w.sleepers {
			if s.from == m.from && s.to == m.to && s.typ == m.req.RequestType && s.time == m.req.SenderTime {
				w.sleepers = append(w.sleepers[:i:i], w.sleepers[i+1:]...)
				break
			}
		}
		if w.tracing {
			w.logf("   parked %s t=%d", m, m.req.SenderTime-bubbleEpoch)
		}
	}
	// retry sleeps whose second has passed are over (they re-sent, or gave up because the version moved)
	if len(w.sleepers) > 0 {
		now := time.Now()
		k := 0
		for _, s := range w.sleepers {
			if s.deadline.After(now) {
				w.sleepers[k] = s
				k++
			}
		}
		w.sleepers = w.sleepers[:k]
	}
	for _, nd := range w.nodes {
		// forget broadcasts nothing refers to any more
		k := 0
		for _, b := range nd.bcasts {
			live := b.outstanding > 0
			for _, s := range w.sleepers {
				if s.from == nd.idx && s.typ == b.typ && s.time == b.time {
					live = true
				}
			}
			if live || (nd.op != nil && b.owner == nd.op && !nd.op.done.Load()) {
				nd.bcasts[k] = b
				k++
			}
		}
		nd.bcasts = nd.bcasts[:k]
		if nd.op != nil && nd.op.done.Load() {
			w.opDone(nd)
		}
	}
}

// nodeOp performs the node's next resource operation, as MPCalContext.Run would.
func (w *world) nodeOp(nd *node, siblingRefuses bool) {
	if w.cfg.Coarse && !w.probing && !siblingRefuses {
		for nd.phase == 'r' && nd.op == nil && (nd.ops()[nd.pc] == 'R' || nd.ops()[nd.pc] == 'W') {
			w.nodeOp1(nd, false)
		}
	}
	w.nodeOp1(nd, siblingRefuses)
}

func (w *world) nodeOp1(nd *node, siblingRefuses bool) {
	if nd.phase == 'a' || siblingRefuses {
		if siblingRefuses {
			w.logf("   n%d: a sibling resource refused its pre-commit: the section is aborted after PreCommit succeeded", nd.idx)
		}
		nd.phase = 'a'
		w.startAsync(nd, 'A', func() { nd.res.Abort(iface) })
		return
	}
	switch nd.ops()[nd.pc] {
	case 'R':
		ver := w.dump(nd.idx).Version
		v, err := nd.res.ReadValue(iface)
		if err != nil {
			w.logf("   n%d: ReadValue -> %v", nd.idx, err)
			nd.phase = 'a'
			return
		}
		w.logf("   n%d: ReadValue -> %s at v%d", nd.idx, v, ver)
		if !nd.wrote {
			if want := w.installed[ver]; valStr(v) != want {
				w.fail("read-not-committed-value", "n%d read %s at version %d but the value installed for version %d is %s", nd.idx, v, ver, ver, want)
			}
		}
		if !nd.hasRead {
			nd.hasRead, nd.readVal, nd.readVer = true, v.AsNumber(), ver
		}
		nd.pc++
	case 'W':
		var v tla.Value
		if nd.script[nd.sec] == "rmw" || nd.script[nd.sec] == "rmwa" {
			v = tla.MakeNumber(nd.readVal + 1)
		} else {
			v = tla.MakeNumber(int32(100 + 10*nd.idx + nd.sec))
		}
		if err := nd.res.WriteValue(iface, v); err != nil {
			w.logf("   n%d: WriteValue(%s) -> %v", nd.idx, v, err)
			nd.phase = 'a'
			return
		}
		w.logf("   n%d: WriteValue(%s)", nd.idx, v)
		nd.wrote, nd.wval = true, v
		nd.pc++
	case 'P':
		op := &opRun{kind: 'P'}
		nd.op = op
		// PreCommit proposes version+1 of the version it sees now (it aborts by itself if the version moves
		// while it sleeps in its back-off)
		nd.pcVersion = w.dump(nd.idx).Version + 1
		ch := nd.res.PreCommit(iface)
		go func() {
			op.err = <-ch
			op.done.Store(true)
			w.signal()
		}()
		nd.backoff = true // cleared in settle when a PreCommit message appears or the operation ends
	case 'X':
		w.logf("   n%d: scripted: a sibling resource refuses, the section is aborted after its pre-commit succeeded", nd.idx)
		nd.phase = 'a'
		w.startAsync(nd, 'A', func() { nd.res.Abort(iface) })
	case 'C':
		// the section pre-committed successfully for version pcVersion and now commits: it has won that version
		target := nd.pcVersion
		if prev, ok := w.winners[target]; ok {
			if r, y := w.promiseOverridden(target, prev.node, prev.pcTime, nd.idx, nd.lastPCTime); r >= 0 {
				w.fail("two-winners/promise-overridden-by-higher-version", "version %d: n%d (value %s) and n%d (value %s) both pre-committed successfully and commit: replica n%d had accepted the pre-commit of the one for version %d, then accepted n%d's pre-commit for a higher version without installing version %d (its promise was overwritten), was released by n%d's Abort while still at version %d, and then accepted the other's pre-commit for version %d", target, prev.node, prev.val, nd.idx, nd.wval, r, target, y, target, y, target-1, target)
			}
			w.fail("two-winners", "version %d: n%d (section %d attempt %d, value %s) and n%d (section %d attempt %d, value %s) both pre-committed successfully and commit", target, prev.node, prev.sec, prev.attempt, prev.val, nd.idx, nd.sec, nd.attempt, nd.wval)
		}
		if cur := w.dump(nd.idx).Version + 1; cur != target {
			w.fail("two-winners", "n%d pre-committed successfully for version %d, but before its Commit another proposer's commit moved it to version %d", nd.idx, target, cur-1)
		}
		if nd.hasRead && nd.readVer != target-1 {
			w.fail("stale-read-commits", "n%d read version %d (value %d) but its section commits as version %d: the value it read was overwritten before it committed and it did not abort", nd.idx, nd.readVer, nd.readVal, target)
		}
		w.winners[target] = winner{nd.idx, nd.sec, nd.attempt, valStr(nd.wval), nd.lastPCTime}
		w.logf("   n%d: Commit() for version %d value %s", nd.idx, target, nd.wval)
		nd.commits = target
		nd.committedPC[nd.lastPCTime] = true
		w.startAsync(nd, 'C', func() { nd.res.Commit(iface) })
	}
}

func (w *world) startAsync(nd *node, kind byte, f func()) {
	op := &opRun{kind: kind}
	nd.op = op
	go func() {
		defer func() {
			if x := recover(); x != nil {
				op.pan = x
			}
			op.done.Store(true)
			w.signal()
		}()
		f()
	}()
}

func (w *world) opDone(nd *node) {
	op := nd.op
	nd.op = nil
	nd.backoff = false
	if op.pan != nil {
		w.fail("panic/"+map[byte]string{'P': "precommit", 'C': "commit", 'A': "abort"}[op.kind], "n%d: %v", nd.idx, op.pan)
	}
	switch op.kind {
	case 'P':
		if op.err != nil {
			w.logf("   n%d: PreCommit -> %v", nd.idx, op.err)
			nd.phase = 'a'
		} else {
			w.logf("   n%d: PreCommit -> ok", nd.idx)
			nd.pc++
		}
	case 'C':
		w.logf("   n%d: Commit returned", nd.idx)
		nd.results = append(nd.results, "s"+strconv.Itoa(nd.sec)+":commit@v"+strconv.Itoa(nd.commits)+"(att"+strconv.Itoa(nd.attempt)+")")
		nd.sec++
		nd.attempt, nd.pc, nd.hasRead, nd.wrote = 0, 0, false, false
		if nd.sec >= len(nd.script) {
			nd.phase = 'd'
		}
	case 'A':
		w.logf("   n%d: Abort returned", nd.idx)
		nd.attempt++
		nd.pc, nd.hasRead, nd.wrote = 0, false, false
		nd.phase = 'r'
		if nd.attempt >= nd.attMax {
			nd.results = append(nd.results, "s"+strconv.Itoa(nd.sec)+":gave-up(att"+strconv.Itoa(nd.attempt)+")")
			nd.phase = 'd'
		}
	}
}

func valStr(v tla.Value) string {
	if v.IsNumber() {
		return strconv.Itoa(int(v.AsNumber()))
	}
	return v.String()
}

// ---------------------------------------------------------------------------------------------
// oracle (after every event)

func (w *world) check(aff int) {
	if aff == -2 {
		return
	}
	for _, nd := range w.nodes {
		if aff >= 0 && nd.idx != aff {
			continue
		}
		d := w.dump(nd.idx)
		if d.Version < nd.lastVersion {
			w.fail("version-decreased", "n%d went from version %d back to %d", nd.idx, nd.lastVersion, d.Version)
		}
		nd.lastVersion = d.Version
		cv := valStr(d.OldValue)
		if have, ok := w.installed[d.Version]; ok {
			if have != cv {
				w.fail("divergent-install", "version %d is %s at one replica and %s at n%d", d.Version, have, cv, nd.idx)
			}
		} else {
			win, ok := w.winners[d.Version]
			if !ok {
				w.fail("installed-uncommitted", "n%d installed version %d = %s although no proposer committed that version", nd.idx, d.Version, cv)
			}
			if win.val != cv {
				w.fail("installed-not-winner-value", "n%d installed version %d = %s but the winning section (n%d) wrote %s", nd.idx, d.Version, cv, win.node, win.val)
			}
			w.installed[d.Version] = cv
		}
	}
}

// quiescent checks: release and progress
func (w *world) final() {
	maxV := 0
	ds := make([]resources.VerifTwoPCDump, len(w.nodes))
	for i := range w.nodes {
		ds[i] = w.dump(i)
		if ds[i].Version > maxV {
			maxV = ds[i].Version
		}
	}
	// QUIESCENCE-RELEASE: the scripts are done, every message that was sent has been delivered or reported
	// lost to its sender, no retry timer is pending and nobody proposes anything any more.  Every proposal
	// is therefore decided: its section committed, or it was aborted.  No replica may still hold one.
	relKey, relWhat := "", ""
	locked := -1
	for i, d := range ds {
		if !d.AcceptedPreCommit || relKey != "" {
			continue
		}
		cause, why := w.whyLocked(i, &d)
		relKey = "release/" + cause
		locked = i
		relWhat = fmt.Sprintf("quiescent (scripts done, nothing in flight, no retry timer, nobody else proposes) but n%d (at version %d) still holds the pre-commit of %s for version %d; highest installed version %d; %s", i, d.Version, d.Accepted.Sender, d.Accepted.Version, maxV, why)
		w.logf("RELEASE VIOLATED: %s", relWhat)
	}
	// progress: every node in turn runs one more increment alone, no faults, FIFO delivery, 3 attempts
	order := w.probeOrder(locked) // before probing starts: it depends on the roles the nodes had so far
	w.probing = true
	w.logf("-- probe phase: each node in turn runs one increment alone, in the order %v", order)
	ok := 0
	lockedAlone := ""
	for _, ni := range order {
		nd := w.nodes[ni]
		nd.script = append(nd.script[:len(nd.script):len(nd.script)], "rmw")
		nd.sec = len(nd.script) - 1
		nd.attempt, nd.pc, nd.hasRead, nd.wrote, nd.phase, nd.attMax = 0, 0, false, false, 'r', 3
		nres := len(nd.results)
		w.cnt.probeRuns.Add(1)
		for guard := 0; ; guard++ {
			if guard > 2000 {
				w.fail("probe-does-not-terminate", "probe section of n%d still running after 2000 scheduler steps", nd.idx)
			}
			w.tick()
			free, _ := w.enabled()
			if len(free) == 0 {
				if w.anyOp() {
					w.stuck()
					continue
				}
				break
			}
			w.check(w.apply(free[0]))
		}
		if len(nd.results) > nres && strings.Contains(nd.results[len(nd.results)-1], "commit") {
			ok++
			if ni == locked {
				lockedAlone = fmt.Sprintf("; n%d, run alone first, could commit", ni)
			}
		} else {
			w.cnt.probeNodeFailed.Add(1)
			if ni == locked {
				lockedAlone = fmt.Sprintf("; n%d, run alone on the healthy network, aborted 3 of 3 attempts (it is wedged until some other node commits)", ni)
			}
		}
	}
	if relKey != "" {
		w.fail(relKey, "%s%s; afterwards %d of %d nodes could commit an increment when run one after the other", relWhat, lockedAlone, ok, len(w.nodes))
	}
	if ok == 0 {
		var st []string
		for i := range w.nodes {
			st = append(st, fmt.Sprintf("n%d{%s}", i, short(w.dump(i))))
		}
		w.fail("no-progress", "after quiescence every node in turn ran an increment alone (no faults, all messages delivered, 3 attempts each) and none could commit: %s", strings.Join(st, " "))
	}
	w.c.Outcome("probe-ok=" + strconv.Itoa(ok))
}

// promiseOverridden looks for a replica that explains two winners x and z of version k by the pattern:
// it accepted x's winning pre-commit for k, overwrote that promise with a higher-version pre-commit of some y
// without installing k, was released by y's Abort below k, and then accepted z's winning pre-commit for k
// (or the same with x and z exchanged).  Returns the replica and y, or -1.
func (w *world) promiseOverridden(k, x int, xTime int64, z int, zTime int64) (int, int) {
	for i, nd := range w.nodes {
		if f, ok := nd.forgotAccept[accKey{z, zTime}]; ok && f.version == k && f.sender == x && f.time == xTime {
			return i, f.by
		}
		if f, ok := nd.forgotAccept[accKey{x, xTime}]; ok && f.version == k && f.sender == z && f.time == zTime {
			return i, f.by
		}
	}
	return -1, -1
}

// relInfo gathers what the oracle's diagnosis depends on for the proposal of node s whose PreCommit carried
// pcTime, as seen from replica r: did its section commit, were its Commit / Aborts handed to the transport
// for r, reported lost to s, processed by r before / after event `since`.
type relInfo struct {
	known, committed, anyAbort        bool
	sent, lost, procBefore, procAfter int
	reqVersion                        int // Version field of the (last) Commit / Abort request considered
}

func (w *world) relInfoOf(s int, pcTime int64, r int, since int) relInfo {
	var att *attemptRec
	for _, a := range w.nodes[s].attempts {
		if a.pcTime == pcTime {
			att = a
		}
	}
	if att == nil {
		return relInfo{}
	}
	ri := relInfo{known: true, committed: att.commitTime != 0, anyAbort: len(att.abortTimes) > 0}
	add := func(typ resources.TwoPCRequestType, t int64) {
		m := w.hist[mkey{s, r, typ, t}]
		if m == nil {
			return
		}
		ri.sent += m.sent
		ri.lost += m.lost
		ri.reqVersion = m.version
		for _, e := range m.processed {
			if e > since {
				ri.procAfter++
			} else {
				ri.procBefore++
			}
		}
	}
	if ri.committed {
		add(resources.Commit, att.commitTime)
	} else {
		for _, t := range att.abortTimes {
			add(resources.Abort, t)
		}
	}
	return ri
}

// whyLocked names the reason why replica i still holds a pre-commit at quiescence.  The names
// lost-commit-not-resent and lost-abort-not-resent are reserved for: the message that would have released
// the replica was reported lost to its sender and was never sent again (the sender stops re-sending once its
// own version has moved on).  Everything else is a different defect.
func (w *world) whyLocked(i int, d *resources.VerifTwoPCDump) (cause, why string) {
	s := w.senderIdx(d.Accepted.Sender)
	if s < 0 {
		return "still-accepted", "the proposer is unknown to the harness"
	}
	since := w.nodes[i].acceptedAt[accKey{s, d.Accepted.SenderTime}]
	ri := w.relInfoOf(s, d.Accepted.SenderTime, i, since)
	ignored := w.nodes[i].abortIgnored[d.Accepted.SenderTime]
	// broadcastAbortOrCommit stops re-sending once the sender's version is no longer the one the request was
	// built for (request Version = that version + 1)
	movedOn := w.dump(s).Version >= ri.reqVersion
	switch {
	case !ri.known:
		return "still-accepted", "the harness has no record of that proposal"
	case ri.committed && ri.sent == 0:
		return "commit-never-sent", fmt.Sprintf("n%d committed that proposal but never handed the Commit for n%d to the transport", s, i)
	case ri.committed && ri.procAfter > 0:
		return "still-accepted", fmt.Sprintf("n%d committed that proposal and n%d processed the Commit, yet it still holds the pre-commit", s, i)
	case ri.committed && ri.lost > 0 && !movedOn:
		return "lost-commit-never-retried", fmt.Sprintf("n%d committed that proposal; its Commit to n%d was reported lost %d time(s) (sent %d time(s)) and was not sent again although n%d is still at the version it committed from", s, i, ri.lost, ri.sent, s)
	case ri.committed && ri.lost > 0:
		return "lost-commit-not-resent", fmt.Sprintf("n%d committed that proposal; its Commit to n%d was reported lost %d time(s) (sent %d time(s)) and was not sent again after n%d's own version had moved on: n%d never installs the decided version and stays locked", s, i, ri.lost, ri.sent, s, i)
	case ri.committed:
		return "still-accepted", fmt.Sprintf("n%d committed that proposal; Commit to n%d sent %d time(s), not lost, processed before the accept %d time(s)", s, i, ri.sent, ri.procBefore)
	case ignored:
		return "abort-ignored", fmt.Sprintf("that proposal was aborted and n%d's Abort was delivered to n%d while it held it: the aborted proposal was not released", s, i)
	case !ri.anyAbort:
		return "no-abort-after-accept", fmt.Sprintf("that proposal did not commit and n%d never broadcast an Abort for it", s)
	case ri.procBefore > 0:
		return "no-abort-after-accept", fmt.Sprintf("that proposal was aborted; n%d processed n%d's Abort before it accepted the (late) pre-commit, and nothing releases it afterwards", i, s)
	case ri.sent == 0:
		return "abort-never-sent", fmt.Sprintf("that proposal was aborted but n%d never handed the Abort for n%d to the transport", s, i)
	case ri.lost > 0 && !movedOn:
		return "lost-abort-never-retried", fmt.Sprintf("that proposal was aborted; n%d's Abort to n%d was reported lost %d time(s) (sent %d time(s)) and was not sent again although n%d's version has not moved (the retry loop gave up)", s, i, ri.lost, ri.sent, s)
	case ri.lost > 0:
		return "lost-abort-not-resent", fmt.Sprintf("that proposal was aborted; n%d's Abort to n%d was reported lost %d time(s) (sent %d time(s)) and was not sent again after n%d's own version had moved on: the aborted proposal is never released", s, i, ri.lost, ri.sent, s)
	}
	return "still-accepted", fmt.Sprintf("that proposal was aborted; Abort to n%d sent %d, lost %d, processed after the accept %d", i, ri.sent, ri.lost, ri.procAfter)
}

// probeOrder: the replica that holds an unreleased proposal first (so the report can say what happens to it
// when it is the only writer), then the nodes with a script by index, then (Sym) passive replicas ordered
// by their state rather than by their index.
func (w *world) probeOrder(first int) []int {
	var order []int
	if first >= 0 {
		order = append(order, first)
	}
	var passive []int
	_, canon := w.canonKey() // interchangeable writers in an order that depends on their state only
	for _, i := range canon {
		if i != first {
			order = append(order, i)
		}
	}
	for i := range w.nodes {
		if i != first && w.passive(i) {
			passive = append(passive, i)
		}
	}
	if len(passive) > 1 {
		sigs := w.passiveSigs()
		sort.SliceStable(passive, func(a, b int) bool { return sigs[passive[a]] < sigs[passive[b]] })
	}
	return append(order, passive...)
}

// stuck: an operation is in flight but no move is enabled.  Let virtual time pass once more (in case a
// sleep was not tracked); if still nothing can happen every goroutine is durably blocked for good.
func (w *world) stuck() {
	before := w.steps
	w.logf("no move enabled with an operation in flight: letting virtual time pass")
	w.advanceTime()
	synctest.Wait()
	w.settle()
	free, _ := w.enabled()
	if len(free) == 0 && w.anyOp() {
		var ops []string
		for _, nd := range w.nodes {
			if nd.op != nil {
				ops = append(ops, fmt.Sprintf("n%d:%c", nd.idx, nd.op.kind))
			}
		}
		w.fail("deadlock", "operations %v never return: no message pending, no timer within 70 virtual seconds, every goroutine durably blocked (step %d)", ops, before)
	}
}

// ---------------------------------------------------------------------------------------------
// state key

type timeSet []int64

func (t *timeSet) add(x int64) {
	for _, y := range *t {
		if y == x {
			return
		}
	}
	*t = append(*t, x)
}

func (t timeSet) rank(x int64) int {
	r := 0
	for _, y := range t {
		if y < x {
			r++
		}
	}
	return r
}

func (w *world) kInt(x int)    { w.kb = strconv.AppendInt(w.kb, int64(x), 10) }
func (w *world) kStr(s string) { w.kb = append(w.kb, s...) }
func (w *world) kVal(v tla.Value) {
	if v.IsNumber() {
		w.kb = strconv.AppendInt(w.kb, int64(v.AsNumber()), 10)
	} else {
		w.kb = append(w.kb, v.String()...)
	}
}

// kRel: the oracle's diagnosis inputs, by what they can still change in a verdict (zero / non-zero)
func (w *world) kRel(ri relInfo) {
	w.kBool(ri.committed)
	w.kBool(ri.anyAbort)
	w.kBool(ri.sent > 0)
	w.kBool(ri.lost > 0)
	w.kBool(ri.procBefore > 0)
	w.kBool(ri.procAfter > 0)
}

func (w *world) kBool(b bool) {
	if b {
		w.kb = append(w.kb, 'T')
	} else {
		w.kb = append(w.kb, 'F')
	}
}

func (w *world) senderIdx(v tla.Value) int {
	for i, nd := range w.nodes {
		if nd.id.Equal(v) {
			return i
		}
	}
	return -1
}

// passive tells whether node i is an interchangeable passive replica (Sym configurations, before the
// probe phase gives every node a section).
func (w *world) passive(i int) bool {
	return w.cfg.Sym && !w.probing && len(w.cfg.Scripts[i]) == 0
}

// keyCtx holds what the renderings of one state share: dumps and the per-sender rank of every SenderTime
// that is still referenced somewhere.
type keyCtx struct {
	n       int
	times   [8]timeSet
	ds      [8]resources.VerifTwoPCDump
	stMax   [8][8]int64
	accFrom [8]int
	slRank  []int  // for w.sleepers[i]: its position in deadline order
	lab     [8]int // label printed instead of a node index (identity unless writer symmetry is being tried)
	order   []int  // non-passive nodes in label order
}

func (w *world) newKeyCtx() *keyCtx {
	k := &keyCtx{n: len(w.nodes)}
	for i, nd := range w.nodes {
		k.ds[i] = w.dump(i)
		for s := 0; s < k.n; s++ {
			k.stMax[i][s] = -1
			if s == i {
				continue
			}
			if t, ok := resources.VerifTwoPCSenderTimeMax(nd.rcvr, w.nodes[s].id); ok {
				k.stMax[i][s] = t
				k.times[s].add(t)
			}
		}
		k.accFrom[i] = -1
		if k.ds[i].AcceptedPreCommit {
			if s := w.senderIdx(k.ds[i].Accepted.Sender); s >= 0 {
				k.accFrom[i] = s
				k.times[s].add(k.ds[i].Accepted.SenderTime)
			}
		}
		for _, bc := range nd.bcasts {
			k.times[i].add(bc.time)
		}
		if nd.overridden != nil {
			k.times[nd.overridden.sender].add(nd.overridden.time)
		}
		for _, f := range nd.forgot {
			k.times[f.sender].add(f.time)
		}
		for a, f := range nd.forgotAccept {
			k.times[a.sender].add(a.time)
			k.times[f.sender].add(f.time)
		}
	}
	for _, x := range w.winners {
		k.times[x.node].add(x.pcTime)
	}
	for _, m := range w.pend {
		k.times[m.from].add(m.req.SenderTime)
	}
	for _, s := range w.sleepers {
		k.times[s.from].add(s.time)
	}
	for i := range w.nodes {
		k.lab[i] = i
		if !w.passive(i) {
			k.order = append(k.order, i)
		}
	}
	k.slRank = make([]int, len(w.sleepers))
	for i, a := range w.sleepers {
		for j, b := range w.sleepers {
			if b.deadline.Before(a.deadline) || (b.deadline.Equal(a.deadline) && j < i) {
				k.slRank[i]++
			}
		}
	}
	return k
}

// nodeSeg appends the rendering of node i (without its index).
func (w *world) nodeSeg(k *keyCtx, i int) {
	nd := w.nodes[i]
	d := &k.ds[i]
	w.kStr("N")
	w.kInt(d.Version)
	w.kStr(" ")
	w.kVal(d.Value)
	w.kStr(" ")
	w.kVal(d.OldValue)
	w.kStr(" ")
	w.kStr(d.CSState)
	w.kStr(" pa")
	w.kInt(d.PrecommitAttempts)
	w.kStr(" f")
	w.kInt(d.NumInFlight)
	if d.AcceptedPreCommit {
		s := k.accFrom[i]
		w.kStr(" acc")
		if s >= 0 {
			w.kInt(k.lab[s])
		} else {
			w.kInt(s)
		}
		w.kStr(",")
		w.kInt(d.Accepted.Version)
		w.kStr(",")
		w.kVal(d.Accepted.Value)
		w.kStr(",")
		if s >= 0 {
			w.kInt(k.times[s].rank(d.Accepted.SenderTime))
			w.kBool(w.nodes[s].committedPC[d.Accepted.SenderTime])
			w.kRel(w.relInfoOf(s, d.Accepted.SenderTime, i, nd.acceptedAt[accKey{s, d.Accepted.SenderTime}]))
		}
		w.kBool(nd.abortIgnored[d.Accepted.SenderTime])
	}
	w.kStr(" st")
	for l := 0; l < k.n; l++ {
		for s := 0; s < k.n; s++ {
			if k.lab[s] == l && k.stMax[i][s] >= 0 {
				w.kInt(l)
				w.kStr(":")
				w.kInt(k.times[s].rank(k.stMax[i][s]))
				w.kStr(",")
			}
		}
	}
	if nd.overridden != nil {
		w.kStr(" ov")
		w.kInt(k.lab[nd.overridden.sender])
		w.kStr(".")
		w.kInt(nd.overridden.version)
		w.kStr(".")
		w.kInt(k.times[nd.overridden.sender].rank(nd.overridden.time))
		w.kStr(".")
		w.kInt(k.lab[nd.overridden.by])
	}
	if len(nd.forgotAccept) > 0 {
		var fs []string
		for a, f := range nd.forgotAccept {
			fs = append(fs, fmt.Sprintf("%d.%d>%d.%d.%d", k.lab[a.sender], k.times[a.sender].rank(a.time), k.lab[f.sender], f.version, k.times[f.sender].rank(f.time)))
		}
		sort.Strings(fs)
		w.kStr(" fa")
		w.kStr(strings.Join(fs, ","))
	}
	if len(nd.forgot) > 0 {
		var fs []string
		for _, f := range nd.forgot {
			fs = append(fs, fmt.Sprintf("%d.%d.%d.%d", k.lab[f.sender], f.version, k.times[f.sender].rank(f.time), k.lab[f.by]))
		}
		sort.Strings(fs)
		w.kStr(" fg")
		w.kStr(strings.Join(fs, ","))
	}
	w.kStr(" s")
	w.kInt(nd.sec)
	w.kStr("a")
	w.kInt(nd.attempt)
	w.kStr("p")
	w.kInt(nd.pc)
	w.kStr("c")
	w.kInt(nd.pcVersion)
	w.kb = append(w.kb, nd.phase)
	if nd.op != nil {
		w.kb = append(w.kb, 'o', nd.op.kind)
	}
	if nd.hasRead {
		w.kStr(" r")
		w.kInt(int(nd.readVal))
		w.kStr("@")
		w.kInt(nd.readVer)
	}
	if nd.wrote {
		w.kStr(" w")
		w.kVal(nd.wval)
	}
	if nd.backoff {
		w.kStr(" bo")
	}
	if len(nd.bcasts) > 0 {
		var bs []string
		for bi, bc := range nd.bcasts {
			// the tallies matter only while the broadcast loop is still counting replies: the latest broadcast
			// of the operation in flight; of a decided broadcast only the stragglers remain
			if nd.op != nil && bc.owner == nd.op && bi == len(nd.bcasts)-1 {
				bs = append(bs, fmt.Sprintf("%d.%d.%d:%d/%d/%d/%d", bc.typ, bc.version, k.times[i].rank(bc.time), bc.acc, bc.rej, bc.errs, bc.outstanding))
			} else {
				bs = append(bs, fmt.Sprintf("%d.%d.%d:done/%d", bc.typ, bc.version, k.times[i].rank(bc.time), bc.outstanding))
			}
		}
		sort.Strings(bs)
		w.kStr(" bc")
		for _, s := range bs {
			w.kStr(s)
			w.kStr(",")
		}
	}
	w.kStr(" R")
	for _, r := range nd.results {
		w.kStr(r)
	}
	w.kStr(";")
}

// msgSeg renders a pending message; the receiver's index is left out when withTo is false.
func (w *world) msgSeg(k *keyCtx, m *msg, withTo bool) string {
	b := make([]byte, 0, 48)
	b = strconv.AppendInt(b, int64(k.lab[m.from]), 10)
	b = append(b, '>')
	if withTo {
		b = strconv.AppendInt(b, int64(k.lab[m.to]), 10)
	}
	b = append(b, '.')
	b = strconv.AppendInt(b, int64(m.req.RequestType), 10)
	b = append(b, '.')
	b = strconv.AppendInt(b, int64(m.req.Version), 10)
	b = append(b, '.')
	b = append(b, valStr(m.req.Value)...)
	b = append(b, '.')
	b = strconv.AppendInt(b, int64(k.times[m.from].rank(m.req.SenderTime)), 10)
	if m.stage == 1 {
		if m.err != nil {
			b = append(b, ".err"...)
		} else {
			if m.resp.Accept {
				b = append(b, ".A"...)
			} else {
				b = append(b, ".R"...)
			}
			b = strconv.AppendInt(b, int64(m.resp.Version), 10)
			b = append(b, '.')
			b = append(b, valStr(m.resp.Value)...)
		}
	}
	if m.dup {
		b = append(b, ".dup"...)
	}
	if m.dupped {
		b = append(b, ".dd"...)
	}
	if m.stage == 5 {
		b = append(b, ".F"...)
	}
	if m.req.RequestType == resources.PreCommit && m.stage != 1 {
		// if the receiver accepts it (late), the oracle's diagnosis depends on what already happened to the
		// Commit / Aborts of that proposal on this link
		ri := w.relInfoOf(m.from, m.req.SenderTime, m.to, w.seq)
		for _, x := range []bool{ri.committed, ri.anyAbort, ri.sent > 0, ri.lost > 0, ri.procBefore > 0} {
			if x {
				b = append(b, 'T')
			} else {
				b = append(b, 'F')
			}
		}
	}
	return string(b)
}

func (w *world) sleeperSeg(k *keyCtx, i int, withTo bool) string {
	s := w.sleepers[i]
	b := make([]byte, 0, 24)
	b = strconv.AppendInt(b, int64(k.slRank[i]), 10)
	b = append(b, ':')
	b = strconv.AppendInt(b, int64(k.lab[s.from]), 10)
	b = append(b, '>')
	if withTo {
		b = strconv.AppendInt(b, int64(k.lab[s.to]), 10)
	}
	b = append(b, '.')
	b = strconv.AppendInt(b, int64(s.typ), 10)
	b = append(b, '.')
	b = strconv.AppendInt(b, int64(k.times[s.from].rank(s.time)), 10)
	return string(b)
}

// passiveSig renders a passive replica together with everything that refers to it (messages and retry
// sleeps addressed to it; a passive replica never sends a request), without its index.
func (w *world) passiveSig(k *keyCtx, p int) string {
	start := len(w.kb)
	w.nodeSeg(k, p)
	var ms []string
	for _, m := range w.pend {
		if m.to == p {
			ms = append(ms, w.msgSeg(k, m, false))
		}
	}
	sort.Strings(ms)
	w.kStr("M")
	for _, x := range ms {
		w.kStr(x)
		w.kStr(" ")
	}
	ms = ms[:0]
	for i, sl := range w.sleepers {
		if sl.to == p {
			ms = append(ms, w.sleeperSeg(k, i, false))
		}
	}
	sort.Strings(ms)
	w.kStr("S")
	for _, x := range ms {
		w.kStr(x)
		w.kStr(" ")
	}
	sig := string(w.kb[start:])
	w.kb = w.kb[:start]
	return sig
}

// passiveSigs returns the signature of every passive replica (index -> signature).
func (w *world) passiveSigs() map[int]string {
	k := w.newKeyCtx()
	out := map[int]string{}
	for i := range w.nodes {
		if w.passive(i) {
			out[i] = w.passiveSig(k, i)
		}
	}
	return out
}

// symClasses returns the groups of non-passive nodes that are interchangeable in Sym configurations:
// same script, increments only (a blind write carries the node's index).
func (w *world) symClasses() [][]int {
	if !w.cfg.Sym || w.probing {
		return nil
	}
	by := map[string][]int{}
	var names []string
	for i, sc := range w.cfg.Scripts {
		if len(sc) == 0 {
			continue
		}
		pure := true
		for _, x := range sc {
			if x != "rmw" {
				pure = false
			}
		}
		if !pure {
			continue
		}
		n := strings.Join(sc, "+")
		if len(by[n]) == 0 {
			names = append(names, n)
		}
		by[n] = append(by[n], i)
	}
	var out [][]int
	for _, n := range names {
		if len(by[n]) > 1 {
			out = append(out, by[n])
		}
	}
	return out
}

func permutations(a []int) [][]int {
	if len(a) <= 1 {
		return [][]int{append([]int(nil), a...)}
	}
	var out [][]int
	for i := range a {
		rest := append(append([]int(nil), a[:i]...), a[i+1:]...)
		for _, p := range permutations(rest) {
			out = append(out, append([]int{a[i]}, p...))
		}
	}
	return out
}

// key renders everything the future of the execution depends on, except absolute virtual time:
// SenderTimes are replaced by their rank among the times of the same sender that are still referenced.
// In Sym configurations passive replicas appear as a sorted multiset of signatures, and the smallest
// rendering over all relabelings of interchangeable writers is taken, so two states that differ only by a
// permutation of interchangeable nodes have the same key.
func (w *world) key() string {
	key, _ := w.canonKey()
	return key
}

// canonKey returns the key and the order of the non-passive nodes under the relabeling that produced it.
func (w *world) canonKey() (string, []int) {
	k := w.newKeyCtx()
	classes := w.symClasses()
	if len(classes) == 0 {
		return w.keyWith(k), k.order
	}
	// all combinations of one permutation per class
	assign := [][]int{nil}
	for _, cl := range classes {
		var next [][]int
		for _, pre := range assign {
			for _, p := range permutations(cl) {
				next = append(next, append(append([]int(nil), pre...), p...))
			}
		}
		assign = next
	}
	var members []int
	for _, cl := range classes {
		members = append(members, cl...)
	}
	best, bestOrder := "", []int(nil)
	for _, a := range assign {
		// member members[j] takes the label (= index) of a[j]'s slot: node a[j] is printed as members[j]
		for i := range w.nodes {
			k.lab[i] = i
		}
		for j, nd := range a {
			k.lab[nd] = members[j]
		}
		k.order = k.order[:0]
		for l := 0; l < k.n; l++ {
			for i := range w.nodes {
				if k.lab[i] == l && !w.passive(i) {
					k.order = append(k.order, i)
				}
			}
		}
		s := w.keyWith(k)
		if bestOrder == nil || s < best {
			best, bestOrder = s, append([]int(nil), k.order...)
		}
	}
	return best, bestOrder
}

func (w *world) keyWith(k *keyCtx) string {
	w.kb = w.kb[:0]
	for _, i := range k.order {
		w.nodeSeg(k, i)
	}
	var sigs []string
	for i := range w.nodes {
		if w.passive(i) {
			sigs = append(sigs, w.passiveSig(k, i))
		}
	}
	if len(sigs) > 0 {
		sort.Strings(sigs)
		w.kStr("P{")
		for _, x := range sigs {
			w.kStr(x)
			w.kStr("|")
		}
		w.kStr("}")
	}
	var ms []string
	for _, m := range w.pend {
		if !w.passive(m.to) {
			ms = append(ms, w.msgSeg(k, m, true))
		}
	}
	if len(ms) > 0 {
		sort.Strings(ms)
		w.kStr("M")
		for _, s := range ms {
			w.kStr(s)
			w.kStr(" ")
		}
	}
	ms = ms[:0]
	for i, sl := range w.sleepers {
		if !w.passive(sl.to) {
			ms = append(ms, w.sleeperSeg(k, i, true))
		}
	}
	if len(ms) > 0 {
		sort.Strings(ms)
		w.kStr("S")
		for _, s := range ms {
			w.kStr(s)
			w.kStr(" ")
		}
	}
	// oracle tables (versions are dense small integers)
	for v := 0; v <= len(w.installed)+len(w.winners); v++ {
		if x, ok := w.installed[v]; ok {
			w.kStr(" I")
			w.kInt(v)
			w.kStr("=")
			w.kStr(x)
		}
		if x, ok := w.winners[v]; ok {
			w.kStr(" W")
			w.kInt(v)
			w.kStr("=")
			w.kInt(k.lab[x.node])
			w.kStr(".")
			w.kInt(x.sec)
			w.kStr(".")
			w.kInt(x.attempt)
			w.kStr(".")
			w.kInt(k.times[x.node].rank(x.pcTime))
		}
	}
	return string(w.kb)
}

// ---------------------------------------------------------------------------------------------
// one execution

func (w *world) run() {
	c := w.c
	maxSteps := w.cfg.MaxSteps
	if maxSteps == 0 {
		maxSteps = 400
	}
	w.check(-1)
	for _, want := range w.cfg.Prefix {
		w.tick()
		free, _ := w.enabledAll()
		found := false
		for _, mv := range free {
			if mv.spec() == want {
				w.check(w.apply(mv))
				found = true
				break
			}
		}
		if !found {
			// the tree no longer takes this path (or the prefix was written for another shape): nothing to explore
			w.cnt.prefixMismatch.Add(1)
			w.logf("prefix move %q is not enabled: configuration not applicable", want)
			c.Outcome("prefix-not-applicable at " + want)
			return
		}
	}
	for {
		w.tick()
		free, faults := w.enabled()
		if len(free) == 0 {
			if w.anyOp() {
				w.stuck()
				continue
			}
			break
		}
		if w.steps >= maxSteps {
			w.cnt.depthCapped.Add(1)
			c.Outcome("step-cap")
			return
		}
		var mv move
		pick := 0
		if len(faults) > 0 || len(free) > 1 {
			// only at real choice points, and before choosing: a re-run of a recorded schedule then never
			// prunes (every Visit precedes a recorded choice), forced continuations are never cut
			if !c.Replaying() { // inside the replayed prefix Visit never prunes: do not pay for the key
				if !c.Visit(w.key()) {
					c.Prune()
				}
				w.cnt.statesExpanded.Add(1)
			}
		}
		if len(faults) > 0 {
			pick = w.choose(1+len(faults), "fault", true)
		}
		if pick > 0 {
			mv = faults[pick-1]
		} else if len(free) == 1 {
			mv = free[0]
		} else {
			mv = free[w.choose(len(free), "move", false)]
		}
		w.check(w.apply(mv))
	}
	w.final()
	for i, nd := range w.nodes {
		d := w.dump(i)
		c.Outcome("n" + strconv.Itoa(i) + " v" + strconv.Itoa(d.Version) + "=" + valStr(d.OldValue) + " " + strings.Join(nd.results, ","))
	}
}

// shutdown answers everything that is or will be parked with "accepted" so that every goroutine of the
// resources ends, and lets virtual time pass until they have.
func (w *world) shutdown() (drained bool) {
	w.mu.Lock()
	w.teardown = true
	nm := w.newMsgs
	w.newMsgs = nil
	w.mu.Unlock()
	for _, m := range append(w.pend, nm...) {
		if m.ch != nil {
			*m.reply = resources.TwoPCResponse{Accept: true}
			m.ch <- nil
		}
	}
	w.pend = nil
	for i := 0; i < 200; i++ {
		synctest.Wait()
		busy := false
		for j, nd := range w.nodes {
			if nd.op != nil && !nd.op.done.Load() {
				busy = true
			}
			if w.dump(j).NumInFlight != 0 {
				busy = true
			}
		}
		if !busy {
			return true
		}
		time.Sleep(time.Second)
	}
	return false
}

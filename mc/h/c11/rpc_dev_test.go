package c11

import "testing"

// TestRealRPC prints the result of the real-socket cross-check (development aid).
func TestRealRPC(t *testing.T) { t.Log(realRPCCrossCheck()) }

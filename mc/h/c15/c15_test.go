// C15: the generated lock service grants the lock to one client at a time, in request order.
package c15

import (
	"encoding/json"
	"fmt"
	"strings"
	"testing"

	"verif/mc/hres"
	ss "verif/mc/specstep"
	"verif/mc/sys/locksvc"
)

type replay struct {
	N    int       `json:"num_clients"`
	Path []ss.Move `json:"path"`
}

func invariants() []func(s *ss.State) (string, string) {
	return []func(s *ss.State) (string, string){
		func(s *ss.State) (string, string) { // Safety of the spec: at most one holder
			if h := locksvc.Holders(s); len(h) > 1 {
				return "safety/two-holders", fmt.Sprintf("clients %v hold the lock at the same time", h)
			}
			return "", ""
		},
		func(s *ss.State) (string, string) { // grants are a prefix of the request arrival order
			if s.Obs == "" {
				return "", ""
			}
			parts := strings.SplitN(s.Obs, "|", 2)
			r, g := strings.TrimPrefix(parts[0], "R:"), strings.TrimPrefix(parts[1], "G:")
			if !strings.HasPrefix(r, g) {
				return "order/grant-not-in-request-order", fmt.Sprintf("requests reached the server in order [%s] but the lock was granted in order [%s]", r, g)
			}
			return "", ""
		},
	}
}

func TestCheck(t *testing.T) {
	hres.Main(t, func(env hres.Env) *hres.Result {
		res := &hres.Result{Property: "C15", Level: "model_checking"}
		if env.Replay != nil {
			var r replay
			if err := json.Unmarshal(env.Replay, &r); err != nil {
				t.Fatal(err)
			}
			sys := locksvc.New(r.N)
			sys.Observe = locksvc.Observe
			states, last, ok := sys.Replay(r.Path)
			res.Coverage = map[string]any{"evaluations": 1, "distinct_nontrivial": 0, "states": len(states), "transitions": len(r.Path), "traces_validated_against_impl": 0, "samples": sys.Render(r.Path)}
			if !ok && last != nil && last.Kind == ss.Failed {
				res.Violations = append(res.Violations, hres.Viol{Key: "replay", What: last.Err, Replay: r})
			}
			for _, s := range states {
				for _, inv := range invariants() {
					if k, w := inv(s); k != "" {
						res.Violations = append(res.Violations, hres.Viol{Key: k, What: w, Replay: r})
						return res
					}
				}
			}
			return res
		}
		maxN := 3
		if env.Thorough() {
			maxN = 4
		}
		var states, trans, validated int64
		exhaustive := true
		perN := map[string]any{}
		var samples []any
		seen := map[string]bool{}
		for n := 1; n <= maxN; n++ {
			sys := locksvc.New(n)
			sys.Observe = locksvc.Observe
			r := sys.BFS(ss.BFSOptions{Workers: env.Workers, Deadline: env.Deadline, Invariants: invariants(), FailedIsViolation: false /* assertion failures are outside this property's statement: counted in the evidence (error_edges), not judged */})
			states += r.States
			trans += r.Transitions
			exhaustive = exhaustive && r.Exhaustive
			// conformance: every BFS-tree leaf path on long-lived contexts
			nConf, confCap := 0, 20000
			if env.Thorough() {
				confCap = 200000
			}
			for _, leaf := range r.Leaves {
				if nConf >= confCap {
					break
				}
				path := r.PathTo(leaf)
				if d := sys.Conform(path); d != "" {
					if !seen["conformance"] {
						seen["conformance"] = true
						res.Violations = append(res.Violations, hres.Viol{Key: "conformance/injected-vs-live", What: d, Replay: replay{n, path}})
					}
					break
				}
				nConf++
			}
			validated += int64(nConf)
			perN[fmt.Sprint(n)] = map[string]any{"states": r.States, "transitions": r.Transitions, "depth": r.Depth, "disabled_attempts": r.Disabled, "error_edges": r.ErrorEdges, "tree_leaves": len(r.Leaves), "leaf_paths_replayed_live": nConf, "exhaustive": r.Exhaustive, "cap": r.Cap}
			for _, v := range r.Violations {
				if !seen[v.Key] {
					seen[v.Key] = true
					res.Violations = append(res.Violations, hres.Viol{Key: v.Key, What: v.What + " | " + strings.Join(v.Trace, " ; "), Replay: replay{n, v.Path}})
				}
			}
			if n == 2 && len(r.Leaves) > 0 {
				samples = append(samples, map[string]any{"num_clients": n, "trace": sys.Render(r.PathTo(r.Leaves[len(r.Leaves)-1]))})
			}
		}
		res.Coverage = map[string]any{
			"states": states, "transitions": trans, "traces_validated_against_impl": validated, "samples": samples,
			"per_num_clients": perN, "exhaustive": exhaustive,
			"explanation": "explicit-state BFS over the generated AServer/AClient critical sections (real generated Go, one attempt per transition, all resolutions of the bag-network read choice), NumClients = 1..N; invariants: Safety (<=1 holder), grant order = request arrival order (observer), no assertion/panic edge; every BFS-tree leaf path is replayed on long-lived MPCalContexts and compared state by state",
		}
		res.Assumptions = []string{"environment = the spec's ReliableLink macro over a bag network, written in Go (validated against TLC's graph by C02)", "128-bit state hashing (collision probability negligible)"}
		return res
	})
}

// C13: the CRDT resource delivers every committed update and loses none.
//
// E1 exploration over real resources.NewCRDT instances on 127.0.0.1.  The broadcast ticker is
// disabled (24 h interval); a broadcast tick is a move that calls the private broadcast() once
// through the overlay accessor.  Every replica also has the scripted peer X in its peer list: X is a
// real RPC server speaking the CRDT resource's protocol (service CRDTRPCReceiver), so X sees exactly
// the snapshots a peer receives, and X can send its own state to any replica at any time.
//
// moves (at most Depth, each on any replica i):
//
//	w<i>  WriteValue of a fresh update (starts a critical section if none is in flight)
//	c<i>  PreCommit+Commit of the section in flight        a<i>  Abort of the section in flight
//	t<i>  one broadcast tick of replica i                  x<i>  X commits a fresh update and sends its state to i
//	b<i>  begin a broadcast round of replica i and hold all its calls on the wire (every peer is reached
//	      through a gate: a forwarding RPC service in front of a real replica, X's own handler)
//	e<i>  deliver the held calls of the round and wait until broadcast() has returned
//
// Between b<i> and e<i> every other move is allowed (w/c/a on i, x<i>, anything on other replicas) except
// another tick of i (one goroutine runs broadcast).  At most Holds rounds per execution are held.
//
// After every move the worker waits until all asynchronously received states have been merged (see
// worker.go settle) and reports ReadValue of every replica, the snapshot every replica would hand to a
// peer, what X's server received, and the accessor dump.  After the moves a fair suffix runs: sections
// still in flight commit, rounds still in flight are delivered, X sends its state to everyone, then three
// rounds of ticks at every replica.  A second, small configuration (stall.go) has two scripted peers
// that can stay silent beyond a short send timeout.
package c13

import (
	"bufio"
	"encoding/json"
	"fmt"
	"os"
	"os/exec"
	"sort"
	"strings"
	"sync"
	"sync/atomic"
	"testing"
	"time"

	"verif/mc/explore"
	"verif/mc/hres"
)

// ---------------------------------------------------------------------------------------------
// worker handle (parent side)

type worker struct {
	cmd   *exec.Cmd
	in    *os.File // parent writes requests
	out   *bufio.Reader
	outF  *os.File
	execs int
}

var (
	workerRestarts atomic.Int64
	envTimeouts    atomic.Int64
	envErrors      atomic.Int64
	envErrSample   atomic.Value
)

var batchNanos, batchCount, batchMoves atomic.Int64
var mu sync.Mutex // guards the few plain counters of this package
var silentHoldsTotal atomic.Int64

const maxExecsPerWorker = 1500

func spawn() (*worker, error) {
	reqR, reqW, err := os.Pipe()
	if err != nil {
		return nil, err
	}
	respR, respW, err := os.Pipe()
	if err != nil {
		return nil, err
	}
	cmd := exec.Command(os.Args[0], "-test.run", "^TestCheck$", "-test.timeout", "0", "-test.count", "1")
	cmd.Env = append(os.Environ(), "VERIF_CHILD=c13")
	cmd.ExtraFiles = []*os.File{reqR, respW}
	cmd.Stdout, cmd.Stderr = nil, nil
	if err := cmd.Start(); err != nil {
		return nil, err
	}
	reqR.Close()
	respW.Close()
	return &worker{cmd: cmd, in: reqW, out: bufio.NewReaderSize(respR, 1<<16), outF: respR}, nil
}

func (w *worker) kill() {
	if w == nil || w.cmd == nil {
		return
	}
	w.in.Close()
	w.cmd.Process.Kill()
	w.cmd.Wait()
	w.outF.Close()
	w.cmd = nil
}

// call sends one request and waits for the answer (60 s cap: the worker has its own shorter caps).
func (w *worker) call(rq request) (*response, error) {
	b, _ := json.Marshal(rq)
	b = append(b, '\n')
	if _, err := w.in.Write(b); err != nil {
		return nil, err
	}
	type res struct {
		line []byte
		err  error
	}
	ch := make(chan res, 1)
	go func() {
		l, err := w.out.ReadBytes('\n')
		ch <- res{l, err}
	}()
	select {
	case r := <-ch:
		if r.err != nil {
			return nil, r.err
		}
		var resp response
		if err := json.Unmarshal(r.line, &resp); err != nil {
			return nil, err
		}
		return &resp, nil
	case <-time.After(60 * time.Second):
		return nil, fmt.Errorf("worker did not answer within 60 s")
	}
}

// slot is the per-explorer-goroutine holder of a worker process.
type slot struct{ w *worker }

func (s *slot) get() (*worker, error) {
	if s.w != nil && s.w.cmd != nil && s.w.execs < maxExecsPerWorker {
		return s.w, nil
	}
	if s.w != nil {
		s.w.kill()
	}
	w, err := spawn()
	if err != nil {
		return nil, err
	}
	s.w = w
	return w, nil
}

func (s *slot) drop() {
	if s.w != nil {
		s.w.kill()
		s.w = nil
		workerRestarts.Add(1)
	}
}

// ---------------------------------------------------------------------------------------------
// sets of update ids

type set uint32

func mkset(ids []int) set {
	var s set
	for _, i := range ids {
		s |= 1 << uint(i)
	}
	return s
}
func (s set) String() string {
	var p []string
	for i := 0; i < 32; i++ {
		if s&(1<<uint(i)) != 0 {
			p = append(p, updName(i))
		}
	}
	return "{" + strings.Join(p, ",") + "}"
}
func (s set) first() int {
	for i := 0; i < 32; i++ {
		if s&(1<<uint(i)) != 0 {
			return i
		}
	}
	return -1
}

// update id = owner*stride + per-owner sequence number; stride = max(6, Depth) so that one owner can
// issue an update at every move; (N+1)*stride must stay below 31 (the counter encodes update k as 2^k).
var stride = 6

func setStride(cfg config) {
	stride = 6
	if cfg.Depth > stride {
		stride = cfg.Depth
	}
	if (cfg.N+1)*stride > 30 {
		panic(fmt.Sprintf("config %+v: (N+1)*stride = %d exceeds the 30 update ids available", cfg, (cfg.N+1)*stride))
	}
}

var curN = 2 // only for rendering names

func updName(id int) string {
	o, k := id/stride, id%stride
	return fmt.Sprintf("u%d.%d", o, k) // owner.sequence; the owner numbered N is the scripted peer X
}

// ---------------------------------------------------------------------------------------------
// engine: one execution = real instances in the worker + the reference bookkeeping here

type config struct {
	N     int    `json:"replicas"`
	VT    string `json:"value_type"`
	Depth int    `json:"depth"`
	Holds int    `json:"inflight_rounds"` // how many broadcast rounds per execution may be held in flight (b/e moves)
	// HoldCost: every held round shortens the execution by this many moves (the hold is a deviation that
	// is paid for): an execution with h held rounds has at most Depth - h*HoldCost moves.
	HoldCost int `json:"hold_cost"`
}

type failure struct{ key, what string }

type engine struct {
	cfg   config
	sl    *slot
	w     *worker
	moves []string

	// planning state: enough to know which moves are enabled and which update id comes next
	planSeq      []int
	planInflight []bool
	planRound    []bool // a b move of the replica has not been ended yet
	planArmed    []bool // prediction: the replica owes its peers a broadcast (a round would send something)
	planRearmed  []bool // prediction: the replica wrote or committed since its open round began
	planHolds    int    // b moves used
	planCount    int    // moves planned so far

	round            []bool // the replica's broadcast round is in flight (calls held on the wire)
	pendingSent      []set  // the snapshot that round carries
	committedInRound set    // updates committed while a round of their owner was in flight
	silentHolds      int    // b moves whose broadcast() returned without sending (prediction planArmed was wrong)

	committed       []set // own updates of committed sections, per replica
	inflight        []set // own updates of the section in flight, per replica
	aborted         set   // updates of aborted sections
	recvd           []set // updates contained in states that have landed at the replica (peers' broadcasts, replies to its own broadcasts, X)
	recvdInSection  []set // the part of recvd that landed while the current section was in flight
	stable          []set // the snapshot each replica hands to a peer
	xstate          set   // X's committed updates
	xsent           []set // what X has sent to each replica
	xgot            set   // union of all snapshots X's server received
	tickedInSection set   // updates that were in flight when their owner ticked
	last            *step
	started         bool
}

var errEnv = fmt.Errorf("environment failure")

func newEngine(cfg config, sl *slot) *engine {
	n := cfg.N
	return &engine{cfg: cfg, sl: sl, committed: make([]set, n), inflight: make([]set, n), recvd: make([]set, n),
		recvdInSection: make([]set, n), stable: make([]set, n), xsent: make([]set, n),
		planSeq: make([]int, n+1), planInflight: make([]bool, n), planRound: make([]bool, n), planArmed: make([]bool, n),
		planRearmed: make([]bool, n), round: make([]bool, n), pendingSent: make([]set, n)}
}

func (e *engine) envFail(err error, resp *response) error {
	if resp != nil && resp.EnvTimeout {
		envTimeouts.Add(1)
	} else {
		envErrors.Add(1)
		msg := ""
		if err != nil {
			msg = err.Error()
		} else if resp != nil {
			msg = resp.Err
		}
		envErrSample.Store(msg)
	}
	e.sl.drop()
	e.w = nil
	return errEnv
}

type move struct {
	kind string
	i    int
	id   int
}

func (m move) String() string { return fmt.Sprintf("%s%d", m.kind, m.i) }

func parseMove(s string) (move, error) {
	var m move
	if len(s) < 2 {
		return m, fmt.Errorf("bad move %q", s)
	}
	m.kind = s[:1]
	_, err := fmt.Sscanf(s[1:], "%d", &m.i)
	return m, err
}

func (e *engine) enabled() []move {
	var out []move
	if e.planCount >= e.cfg.Depth-e.planHolds*e.cfg.HoldCost {
		return out // the held rounds have been paid for with moves
	}
	mayHold := e.planHolds < e.cfg.Holds && e.planCount+1 <= e.cfg.Depth-(e.planHolds+1)*e.cfg.HoldCost
	for i := 0; i < e.cfg.N; i++ {
		if e.planSeq[i] < stride {
			out = append(out, move{kind: "w", i: i})
		}
		if e.planInflight[i] {
			out = append(out, move{kind: "c", i: i}, move{kind: "a", i: i})
		}
		if e.planRound[i] {
			out = append(out, move{kind: "e", i: i})
		} else {
			out = append(out, move{kind: "t", i: i})
			// holding a round that would send nothing is the same as not ticking: only offered when the
			// replica owes a broadcast (a prediction; a wrong one is counted, see silent_holds)
			if e.planArmed[i] && mayHold {
				out = append(out, move{kind: "b", i: i})
			}
		}
		if e.planSeq[e.cfg.N] < stride {
			out = append(out, move{kind: "x", i: i})
		}
	}
	return out
}

func (e *engine) isEnabled(m move) bool {
	for _, x := range e.enabled() {
		if x.kind == m.kind && x.i == m.i {
			return true
		}
	}
	return false
}

// plan fixes the update id of the move and advances the planning state.
func (e *engine) plan(m move) move {
	n := e.cfg.N
	e.planCount++
	switch m.kind {
	case "w":
		m.id = m.i*stride + e.planSeq[m.i]
		e.planSeq[m.i]++
		e.planInflight[m.i] = true
		e.planArmed[m.i], e.planRearmed[m.i] = true, true
	case "c":
		e.planInflight[m.i] = false
		e.planArmed[m.i], e.planRearmed[m.i] = true, true
	case "a":
		e.planInflight[m.i] = false
	case "t":
		e.planArmed[m.i] = false
	case "b":
		e.planRound[m.i] = true
		e.planRearmed[m.i] = false
		e.planHolds++
	case "e":
		e.planRound[m.i] = false
		e.planArmed[m.i] = e.planRearmed[m.i]
	case "x":
		m.id = n*stride + e.planSeq[n]
		e.planSeq[n]++
	}
	return m
}

// exec performs the planned moves on the real instances (one request to the worker) and judges the
// observations move by move.  newExec creates fresh instances first.
func (e *engine) exec(newExec bool, ms []move, inSuffix bool) (*failure, error) {
	rq := request{Op: "run", New: newExec, N: e.cfg.N, NX: 1, VT: e.cfg.VT}
	for _, m := range ms {
		rq.Moves = append(rq.Moves, mv{Kind: m.kind, I: m.i, ID: m.id})
	}
	var resp *response
	var err error
	t0 := time.Now()
	if newExec {
		for attempt := 0; attempt < 6; attempt++ {
			var w *worker
			if w, err = e.sl.get(); err != nil {
				return nil, e.envFail(err, nil)
			}
			w.execs++
			resp, err = w.call(rq)
			if err == nil && (resp.OK || len(resp.Steps) > 0 || resp.EnvTimeout) {
				e.w = w
				break
			}
			// the worker died (NewCRDT's log.Fatalf on a busy port) or could not set up: new worker, try again
			e.sl.drop()
			resp = nil
		}
		if resp == nil {
			return nil, e.envFail(fmt.Errorf("could not create instances: %v", err), nil)
		}
	} else {
		if e.w == nil {
			return nil, errEnv
		}
		resp, err = e.w.call(rq)
	}
	batchNanos.Add(int64(time.Since(t0)))
	batchCount.Add(1)
	batchMoves.Add(int64(len(ms)))
	if err != nil {
		return nil, e.envFail(err, resp)
	}
	for k := range resp.Steps {
		if f := e.judge(ms[k], &resp.Steps[k], inSuffix); f != nil {
			return f, nil
		}
	}
	if !resp.OK {
		return nil, e.envFail(nil, resp)
	}
	return nil, nil
}

func (e *engine) history() string { return strings.Join(e.moves, " ") }

// judge updates the bookkeeping for one move and checks everything observable after it.
func (e *engine) judge(m move, resp *step, inSuffix bool) *failure {
	n := e.cfg.N
	e.moves = append(e.moves, m.String())
	// the snapshot every replica handed out before this move (what a tick's replies carry)
	prevStable := append([]set{}, e.stable...)
	switch m.kind {
	case "w":
		e.inflight[m.i] |= 1 << uint(m.id)
	case "c":
		if e.round[m.i] {
			e.committedInRound |= e.inflight[m.i]
		}
		e.committed[m.i] |= e.inflight[m.i]
		e.inflight[m.i] = 0
		e.recvdInSection[m.i] = 0
	case "b":
		e.tickedInSection |= e.inflight[m.i]
		if resp.InFlight {
			// every call of the round is on the wire: nothing has been delivered anywhere yet
			e.round[m.i] = true
			e.pendingSent[m.i] = 0
			for _, l := range resp.XLog {
				e.pendingSent[m.i] |= mkset(l)
			}
		} else {
			e.silentHolds++
			silentHoldsTotal.Add(1)
		}
	case "e":
		if e.round[m.i] {
			// the held calls are delivered: every peer receives the round's snapshot, the replies (each
			// peer's snapshot now, X's committed state now) land at the sender
			for j := 0; j < n; j++ {
				if j != m.i {
					e.land(j, e.pendingSent[m.i])
					e.land(m.i, prevStable[j])
				}
			}
			e.land(m.i, e.xstate)
			e.round[m.i] = false
			e.pendingSent[m.i] = 0
		}
	case "a":
		e.aborted |= e.inflight[m.i]
		e.inflight[m.i] = 0
	case "x", "X":
		if m.kind == "x" {
			e.xstate |= 1 << uint(m.id)
		}
		e.xsent[m.i] |= e.xstate
		e.land(m.i, e.xstate)
	case "t":
		e.tickedInSection |= e.inflight[m.i]
		if len(resp.XLog) > 0 {
			// a broadcast happened: every peer received the snapshot X received, and the replies (each
			// peer's snapshot before this move, plus X's committed state) landed at the sender
			var sent set
			for _, l := range resp.XLog {
				sent |= mkset(l)
			}
			for j := 0; j < n; j++ {
				if j != m.i {
					e.land(j, sent)
					e.land(m.i, prevStable[j])
				}
			}
			e.land(m.i, e.xstate)
		}
	}
	var inflightAll set
	for i := 0; i < n; i++ {
		inflightAll |= e.inflight[i]
	}
	fail := func(key, format string, a ...any) *failure {
		return &failure{key, fmt.Sprintf("after [%s]: ", e.history()) + fmt.Sprintf(format, a...)}
	}
	where := "after-" + m.kind
	if inSuffix {
		where = "in-suffix"
	}
	// snapshots received by peers: X's server (broadcasts), replies to X
	snap := func(from int, s set, how string) *failure {
		if bad := s & inflightAll; bad != 0 {
			return fail("inflight-update-in-snapshot/"+how, "replica %d handed a peer (%s) the snapshot %v which contains %v of a critical section still in flight", from, how, s, bad)
		}
		if bad := s & e.aborted; bad != 0 {
			return fail("aborted-update-in-snapshot/"+how, "replica %d handed a peer (%s) the snapshot %v which contains %v of an aborted critical section", from, how, s, bad)
		}
		return nil
	}
	for _, l := range resp.XLog {
		s := mkset(l)
		e.xgot |= s
		if f := snap(m.i, s, "broadcast"); f != nil {
			return f
		}
	}
	for _, l := range resp.GLog {
		if f := snap(m.i, mkset(l), "broadcast"); f != nil {
			return f
		}
	}
	if resp.HasXReply {
		if f := snap(m.i, mkset(resp.XReply), "reply"); f != nil {
			return f
		}
	}
	for i := 0; i < n; i++ {
		e.stable[i] = mkset(resp.Stable[i])
		if resp.StableSeen[i] {
			if f := snap(i, e.stable[i], "reply"); f != nil {
				return f
			}
		}
	}
	// reads
	for i := 0; i < n; i++ {
		rd := mkset(resp.Reads[i])
		own := e.committed[i] | e.inflight[i]
		if lost := e.recvd[i] &^ rd; lost != 0 {
			key := "received-state-lost/" + where
			if m.kind == "a" && m.i == i && lost&^e.recvdInSection[i] == 0 {
				key = "received-state-lost/abort-discards-state-merged-during-the-section"
			}
			return fail(key, "replica %d reads %v: %v, which it had received from a peer and merged, is gone", i, rd, lost)
		}
		if lost := e.committed[i] &^ rd; lost != 0 {
			return fail("own-committed-update-lost/"+where, "replica %d reads %v without its own committed %v", i, rd, lost)
		}
		if lost := e.inflight[i] &^ rd; lost != 0 {
			return fail("own-write-not-visible-in-section/"+where, "replica %d reads %v without %v written by its section in flight", i, rd, lost)
		}
		if bad := rd & e.aborted; bad != 0 {
			return fail("aborted-update-visible/"+where, "replica %d reads %v which contains %v of an aborted critical section", i, rd, bad)
		}
		if bad := rd & (inflightAll &^ e.inflight[i]); bad != 0 {
			return fail("inflight-update-visible-at-peer/"+where, "replica %d reads %v which contains %v of another replica's section in flight", i, rd, bad)
		}
		if extra := rd &^ (own | e.recvd[i]); extra != 0 {
			return fail("unexplained-update/"+where, "replica %d reads %v; %v was neither written here nor received", i, rd, extra)
		}
	}
	if m.kind == "a" {
		e.recvdInSection[m.i] = 0
	}
	e.last = resp
	return nil
}

func (e *engine) land(i int, s set) {
	nw := s &^ e.recvd[i]
	e.recvd[i] |= s
	if e.inflight[i] != 0 {
		e.recvdInSection[i] |= nw
	}
}

// suffix: updates stop; every section still in flight commits; broadcast rounds still in flight are
// delivered and end; X delivers its state to every replica (as its own broadcast eventually would);
// three rounds of ticks everywhere.  Then all replicas must
// read the join of all committed updates, and X must have been handed every committed update.
func (e *engine) suffix(newExec bool) (*failure, error) {
	n := e.cfg.N
	hist := len(e.moves)
	var ms []move
	for i := 0; i < n; i++ {
		if e.planInflight[i] {
			ms = append(ms, e.plan(move{kind: "c", i: i}))
		}
	}
	for i := 0; i < n; i++ {
		if e.planRound[i] {
			ms = append(ms, e.plan(move{kind: "e", i: i}))
		}
	}
	if e.planSeq[n] > 0 {
		for i := 0; i < n; i++ {
			ms = append(ms, move{kind: "X", i: i})
		}
	}
	for round := 0; round < 3; round++ {
		for i := 0; i < n; i++ {
			ms = append(ms, move{kind: "t", i: i})
		}
	}
	if f, err := e.exec(newExec, ms, true); f != nil || err != nil {
		return f, err
	}
	var all set
	for i := 0; i < n; i++ {
		all |= e.committed[i]
	}
	want := all | e.xstate
	moves := strings.Join(e.moves[:hist], " ")
	for i := 0; i < n; i++ {
		rd := mkset(e.last.Reads[i])
		if missing := want &^ rd; missing != 0 {
			u := missing.first()
			owner := u / stride
			key := "committed-update-undelivered/other"
			why := ""
			if e.committedInRound&(1<<uint(u)) != 0 {
				key = "committed-update-undelivered/commit-while-broadcast-round-in-flight"
				why = fmt.Sprintf(" (replica %d committed %s while one of its broadcast rounds was on the wire; the acknowledgements of that round, which carried the older state, used up the broadcast credit of the commit; needBroadcastCount is now %d)", owner, updName(u), e.last.Dumps[min(owner, n-1)].NBC)
			} else if e.tickedInSection&(1<<uint(u)) != 0 {
				key = "committed-update-undelivered/tick-between-write-and-commit"
				why = fmt.Sprintf(" (replica %d ticked while %s was in flight: the tick used up the broadcast credit armed by WriteValue and Commit does not re-arm it; needBroadcastCount is now %d)", owner, updName(u), e.last.Dumps[min(owner, n-1)].NBC)
			}
			return &failure{key, fmt.Sprintf("after [%s] + suffix(commit sections in flight, end rounds in flight, X to all, 3 rounds of ticks): replica %d reads %v, committed updates are %v: %v never arrived%s", moves, i, rd, want, missing, why)}, nil
		}
		if extra := rd &^ want; extra != 0 {
			return &failure{"uncommitted-update-in-final-state", fmt.Sprintf("after [%s] + suffix: replica %d reads %v, committed updates are %v", moves, i, rd, want)}, nil
		}
	}
	if missing := all &^ e.xgot; missing != 0 {
		u := missing.first()
		key := "committed-update-undelivered/other"
		if e.committedInRound&(1<<uint(u)) != 0 {
			key = "committed-update-undelivered/commit-while-broadcast-round-in-flight"
		} else if e.tickedInSection&(1<<uint(u)) != 0 {
			key = "committed-update-undelivered/tick-between-write-and-commit"
		}
		return &failure{key, fmt.Sprintf("after [%s] + suffix: peer X was never handed %v (committed: %v, X received: %v)", moves, missing, all, e.xgot)}, nil
	}
	return nil, nil
}

// permutations of 0..n-1
func perms(n int) [][]int {
	if n == 1 {
		return [][]int{{0}}
	}
	var out [][]int
	for _, p := range perms(n - 1) {
		for pos := 0; pos <= len(p); pos++ {
			q := append(append(append([]int{}, p[:pos]...), n-1), p[pos:]...)
			out = append(out, q)
		}
	}
	return out
}

// stateKey: everything the future of the execution and of the oracle depends on, minimised over
// renamings of the replicas (the replicas are interchangeable: same code, same peers, ids only name them).
func (e *engine) stateKey() string {
	n := e.cfg.N
	best := ""
	for _, p := range perms(n) { // p[old] = new
		ren := func(s set) set {
			var o set
			for b := 0; b < 32; b++ {
				if s&(1<<uint(b)) != 0 {
					ow := b / stride
					if ow < n {
						ow = p[ow]
					}
					o |= 1 << uint(ow*stride+b%stride)
				}
			}
			return o
		}
		parts := make([]string, n)
		for i := 0; i < n; i++ {
			d := e.last.Dumps[i]
			parts[p[i]] = fmt.Sprintf("v%x o%x h%v n%d q%d|c%x f%x r%x rs%x st%x xs%x s%d|R%v%v p%x P%v%v%v|", ren(mkset(d.Value)), ren(mkset(d.Old)), d.HasOld, d.NBC, d.Queue,
				ren(e.committed[i]), ren(e.inflight[i]), ren(e.recvd[i]), ren(e.recvdInSection[i]), ren(e.stable[i]), ren(e.xsent[i]), e.planSeq[i],
				e.round[i], e.planRound[i], ren(e.pendingSent[i]), e.planArmed[i], e.planRearmed[i], e.planInflight[i])
		}
		k := strings.Join(parts, "") + fmt.Sprintf("A%x X%x G%x T%x C%x s%d h%d", ren(e.aborted), e.xstate, ren(e.xgot), ren(e.tickedInSection), ren(e.committedInRound), e.planSeq[n], e.planHolds) // (planCount is covered by the explorer's remaining budget)
		if best == "" || k < best {
			best = k
		}
	}
	return fmt.Sprintf("%d/%s|", n, e.cfg.VT) + best
}

func (e *engine) outcome() string {
	var p []string
	for i := 0; i < e.cfg.N; i++ {
		p = append(p, fmt.Sprintf("r%d=%v c=%v", i, mkset(e.last.Reads[i]), e.committed[i]))
	}
	return strings.Join(p, " ") + fmt.Sprintf(" aborted=%v x=%v", e.aborted, e.xstate)
}

// runNamed executes a fixed list of moves and the suffix (used for replay and witness minimisation).
func runNamed(cfg config, sl *slot, names []string) (f *failure, outcome string, err error) {
	e := newEngine(cfg, sl)
	var ms []move
	for _, s := range names {
		m, err := parseMove(s)
		if err != nil {
			return nil, "", err
		}
		if !e.isEnabled(m) {
			return nil, "", fmt.Errorf("move %s not enabled", s)
		}
		ms = append(ms, e.plan(m))
	}
	if len(ms) > 0 {
		if f, err := e.exec(true, ms, false); f != nil || err != nil {
			return f, "", err
		}
	}
	f, err = e.suffix(len(ms) == 0)
	if f != nil || err != nil {
		return f, "", err
	}
	return nil, e.outcome(), nil
}

type detail struct {
	Moves []string `json:"moves"`
}

// body: the moves of the replayed prefix depend on nothing but earlier moves, so they are planned
// first and performed in one request; the state reached is looked up (pruning) before anything else
// is asked, so that a pruned execution has no choice points beyond its prefix.
func body(cfg config) func(c *explore.Ctx) {
	return func(c *explore.Ctx) {
		sl := c.User.(*slot)
		e := newEngine(cfg, sl)
		var ms []move
		stopped := false
		for c.Replaying() {
			en := e.enabled()
			k := c.Deviate(1+len(en), "mv")
			if k == 0 {
				stopped = true
				break
			}
			ms = append(ms, e.plan(en[k-1]))
		}
		executed := false
		run := func(batch []move) {
			f, err := e.exec(!executed, batch, false)
			executed = true
			if err != nil {
				c.Prune()
			}
			if f != nil {
				c.Fail(f.key, f.what, detail{append([]string{}, e.moves...)})
			}
			// a pure replay (confirmation of a violation, --replay) has its stop choice inside the
			// recorded prefix: it must run to the end, never be cut at an already visited state
			if !stopped {
				c.VisitOrPrune(e.stateKey())
			}
		}
		if len(ms) > 0 {
			run(ms)
		}
		for !stopped {
			en := e.enabled()
			k := c.Deviate(1+len(en), "mv")
			if k == 0 {
				break
			}
			run([]move{e.plan(en[k-1])})
		}
		hist := append([]string{}, e.moves...)
		f, err := e.suffix(!executed)
		if err != nil {
			c.Prune()
		}
		if f != nil {
			c.Fail(f.key, f.what, detail{hist})
		}
		c.Outcome(e.outcome())
	}
}

type replay struct {
	Key   string     `json:"key"`
	Cfg   config     `json:"config"`
	Moves []string   `json:"moves,omitempty"`
	Stall *stallCase `json:"stall,omitempty"`          // a script of the silent-peers configuration instead of a move list
	AW    []string   `json:"aworset_valued,omitempty"` // a continuation of the AWORSet-valued configuration (awdiv.go)
	IsAW  bool       `json:"is_aworset_valued,omitempty"`
	What  string     `json:"what"`
}

// minimise removes moves one at a time as long as the same key is still reported (3 out of 3 runs each).
func minimise(cfg config, sl *slot, key string, moves []string) ([]string, string) {
	what := ""
	same := func(ms []string) bool {
		for k := 0; k < 3; k++ {
			f, _, err := runNamed(cfg, sl, ms)
			if err != nil || f == nil || f.key != key {
				return false
			}
			what = f.what
		}
		return true
	}
	cur := append([]string{}, moves...)
	for changed := true; changed; {
		changed = false
		for i := 0; i < len(cur); i++ {
			cand := append(append([]string{}, cur[:i]...), cur[i+1:]...)
			keep := what
			if same(cand) {
				cur = cand
				changed = true
				break
			}
			what = keep
		}
	}
	if what == "" {
		if f, _, _ := runNamed(cfg, sl, cur); f != nil {
			what = f.what
		}
	}
	return cur, what
}

func latencies() map[string]int64 {
	out := map[string]int64{"requests": batchCount.Load(), "moves": batchMoves.Load()}
	if n := batchCount.Load(); n > 0 {
		out["mean_request_us"] = batchNanos.Load() / n / 1000
	}
	if n := batchMoves.Load(); n > 0 {
		out["mean_us_per_move"] = batchNanos.Load() / n / 1000
	}
	return out
}

func plan(thorough bool) []config {
	if !thorough {
		return []config{{N: 2, VT: "gcounter", Depth: 6, Holds: 1, HoldCost: 1}}
	}
	// cheapest first: each run gets an equal share of the time left, the last one inherits the rest
	return []config{{N: 2, VT: "aworset", Depth: 6, Holds: 1}, {N: 2, VT: "lww", Depth: 6, Holds: 1}, {N: 3, VT: "gcounter", Depth: 6, Holds: 1},
		{N: 2, VT: "gcounter", Depth: 7, Holds: 2}, {N: 2, VT: "gcounter", Depth: 8, Holds: 1}}
}

func TestCheck(t *testing.T) {
	if os.Getenv("VERIF_CHILD") == "c13" {
		childMain()
		os.Exit(0)
	}
	hres.Main(t, func(env hres.Env) *hres.Result {
		res := &hres.Result{Property: "C13", Level: "exploration"}
		res.Assumptions = []string{
			"all peers are reachable for the whole execution (the property quantifies over peers reachable from the time of the update)",
			"the broadcast ticker is replaced by explicit tick moves (interval option 24 h; the accessor calls the unchanged private broadcast())",
			"interleavings are at the granularity of resource operations, ticks and complete ReceiveValue calls; goroutine interleavings inside one broadcast/merge are not enumerated",
			"the scripted peer X answers like a peer inside a long critical section: its replies carry its own committed updates only",
			"a held round (b..e) holds every call of the round before delivery (gates: a forwarding RPC service in front of each real replica, X's own handler); e delivers all of them at once",
			"b is offered only where the bookkeeping predicts that the replica owes a broadcast (a held round that sends nothing equals no tick); wrong predictions are counted in silent_holds",
			"silent-peers configuration: a round is judged wedged only after 6 s (150 x the 40 ms send timeout) with the broadcast goroutine parked in a select then and 1.5 s later; slower-but-returning rounds discard the execution",
			"sections still in flight when the moves end are committed at the start of the suffix",
		}
		if env.Replay != nil {
			var r replay
			if err := json.Unmarshal(env.Replay, &r); err != nil {
				t.Fatal(err)
			}
			sl := &slot{}
			defer sl.drop()
			if r.IsAW {
				f, out, err := runAW(sl, r.AW)
				res.Coverage = map[string]any{"evaluations": 1, "distinct_nontrivial": 0, "rule": "replay of one script of the AWORSet-valued configuration", "samples": []any{strings.Join(r.AW, " ") + " => " + out}}
				if err != nil {
					res.Coverage["env_error"] = "environment failure (discarded, not a verdict)"
				}
				if f != nil {
					res.Violations = append(res.Violations, hres.Viol{Key: f.key, What: f.what, Replay: replay{Key: f.key, AW: r.AW, IsAW: true, What: f.what}})
				}
				return res
			}
			if r.Stall != nil {
				curN = 2
				stride = 6
				f, out, err := runStall(sl, *r.Stall)
				res.Coverage = map[string]any{"evaluations": 1, "distinct_nontrivial": 0, "rule": "replay of one silent-peers script", "samples": []any{r.Stall.String() + " => " + out}}
				if err != nil {
					res.Coverage["env_error"] = "environment failure (discarded, not a verdict)"
				}
				if f != nil {
					res.Violations = append(res.Violations, hres.Viol{Key: f.key, What: f.what, Replay: replay{Key: f.key, Stall: r.Stall, What: f.what}})
				}
				return res
			}
			curN = r.Cfg.N
			setStride(r.Cfg)
			f, out, err := runNamed(r.Cfg, sl, r.Moves)
			res.Coverage = map[string]any{"evaluations": 1, "distinct_nontrivial": 0, "rule": "replay of one move list", "samples": []any{strings.Join(r.Moves, " ") + " => " + out}}
			if err != nil {
				res.Coverage["env_error"] = err.Error()
			}
			if f != nil {
				res.Violations = append(res.Violations, hres.Viol{Key: f.key, What: f.what, Replay: replay{Key: f.key, Cfg: r.Cfg, Moves: r.Moves, What: f.what}})
			}
			return res
		}
		cfgs := plan(env.Thorough())
		var runs []any
		var samples []any
		viol := map[string]hres.Viol{}
		var evals int64
		distinct := 0
		exhaustive := true
		var divergences, pruned int64
		{
			// silent-peers configuration (stall.go): 16 scripts, cheap on a tree that does not wedge
			curN, stride = 2, 6
			var smu sync.Mutex
			var slots []*slot
			wk := env.Workers
			if wk > 4 {
				wk = 4
			}
			st := explore.Run(stallBody, explore.Options{Workers: wk, Deadline: time.Now().Add(time.Until(env.Deadline) / 3), Samples: 2,
				Setup: func(w int) any {
					s := &slot{}
					smu.Lock()
					slots = append(slots, s)
					smu.Unlock()
					return s
				}})
			for _, s := range slots {
				if s.w != nil {
					s.w.kill()
				}
			}
			evals += st.Executions
			distinct += st.Outcomes
			divergences += st.Divergences
			exhaustive = exhaustive && st.Exhaustive
			for _, s := range st.Samples {
				samples = append(samples, map[string]any{"config": "silent-peers", "choices": s.Choices, "outcome": s.Outcome})
			}
			for _, v := range st.Violations {
				if _, ok := viol[v.Key]; ok {
					continue
				}
				sc, _ := v.Detail.(stallCase)
				viol[v.Key] = hres.Viol{Key: v.Key, What: v.What, Replay: replay{Key: v.Key, Stall: &sc, What: v.What}}
			}
			mu.Lock()
			maxMs := stallMaxRoundMs
			mu.Unlock()
			runs = append(runs, map[string]any{"config": "silent-peers: replicas 0,1 + scripted X0,X1, send timeout 40 ms, wedge bound 6000+1500 ms", "executions": st.Executions,
				"distinct_outcomes": st.Outcomes, "exhaustive": st.Exhaustive, "cap_hit": st.CapHit, "divergences": st.Divergences, "wall_s": st.WallS,
				"violation_keys": len(st.Violations), "longest_round_ms": maxMs})
		}
		{
			// AWORSet-valued configuration (awdiv.go): scripted prefix + every continuation of at most awDepth moves
			if env.Thorough() {
				awDepth, awPrefixTick = 7, false
			}
			var smu sync.Mutex
			var slots []*slot
			st := explore.Run(awBody, explore.Options{Workers: env.Workers, Deadline: time.Now().Add(time.Until(env.Deadline) / 3), Samples: 2,
				Setup: func(w int) any {
					s := &slot{}
					smu.Lock()
					slots = append(slots, s)
					smu.Unlock()
					return s
				}})
			evals += st.Executions
			distinct += st.Outcomes
			divergences += st.Divergences
			exhaustive = exhaustive && st.Exhaustive
			for _, s := range st.Samples {
				samples = append(samples, map[string]any{"config": "aworset-valued", "choices": s.Choices, "outcome": s.Outcome})
			}
			msl := &slot{}
			for _, v := range st.Violations {
				if _, ok := viol[v.Key]; ok {
					continue
				}
				cont, _ := v.Detail.([]string)
				what := v.What
				// the witness reported is the first failing continuation in length-then-offer order, so that
				// it is the same in every run
				if w, wh := awFirstWitness(msl, v.Key, len(cont)); w != nil {
					cont, what = w, wh
				}
				viol[v.Key] = hres.Viol{Key: v.Key, What: what, Replay: replay{Key: v.Key, AW: cont, IsAW: true, What: what}}
			}
			msl.drop()
			for _, s := range slots {
				if s.w != nil {
					s.w.kill()
				}
			}
			runs = append(runs, map[string]any{"config": fmt.Sprintf("aworset-valued: 3 nodes, prefix n0:add x n1:add x n2:add y (+t2: %v), continuations of <= %d moves {t<i>,b<i>,e<i>,r0,r1}, one held round", awPrefixTick, awDepth), "executions": st.Executions,
				"distinct_outcomes": st.Outcomes, "exhaustive": st.Exhaustive, "cap_hit": st.CapHit, "divergences": st.Divergences, "wall_s": st.WallS, "violation_keys": len(st.Violations)})
		}
		for i, cfg := range cfgs {
			curN = cfg.N
			setStride(cfg)
			rem := time.Until(env.Deadline)
			dl := time.Now().Add(rem / time.Duration(len(cfgs)-i))
			var mu sync.Mutex
			var slots []*slot
			st := explore.Run(body(cfg), explore.Options{Budget: cfg.Depth, Workers: env.Workers, Deadline: dl, Samples: 4,
				Setup: func(w int) any {
					s := &slot{}
					mu.Lock()
					slots = append(slots, s)
					mu.Unlock()
					return s
				}})
			evals += st.Executions
			distinct += st.Outcomes
			divergences += st.Divergences
			pruned += st.Pruned
			exhaustive = exhaustive && st.Exhaustive
			for _, s := range st.Samples {
				samples = append(samples, map[string]any{"config": cfg, "choices": s.Choices, "outcome": s.Outcome})
			}
			msl := &slot{}
			for _, v := range st.Violations {
				if _, ok := viol[v.Key]; ok {
					continue
				}
				var moves []string
				if d, ok := v.Detail.(detail); ok {
					moves = d.Moves
				}
				min, what := minimise(cfg, msl, v.Key, moves)
				// name the replicas of the witness canonically (smallest move list under renaming)
				if what != "" {
					bestS, bestM := strings.Join(min, " "), min
					for _, p := range perms(cfg.N) {
						ren := make([]string, len(min))
						for k, s := range min {
							m, _ := parseMove(s)
							ren[k] = fmt.Sprintf("%s%d", m.kind, p[m.i])
						}
						if rs := strings.Join(ren, " "); rs < bestS {
							bestS, bestM = rs, ren
						}
					}
					if bestS != strings.Join(min, " ") {
						if f, _, err := runNamed(cfg, msl, bestM); err == nil && f != nil && f.key == v.Key {
							min, what = bestM, f.what
						}
					}
				}
				if what == "" {
					what = v.What
					min = moves
				}
				viol[v.Key] = hres.Viol{Key: v.Key, What: "minimal witness " + what, Replay: replay{Key: v.Key, Cfg: cfg, Moves: min, What: what}}
			}
			msl.drop()
			for _, s := range slots {
				if s.w != nil {
					s.w.kill()
				}
			}
			runs = append(runs, map[string]any{"config": cfg, "executions": st.Executions, "pruned_on_visited_state": st.Pruned, "distinct_outcomes": st.Outcomes,
				"exhaustive": st.Exhaustive, "cap_hit": st.CapHit, "divergences": st.Divergences, "max_depth_seen": st.MaxDepthSeen, "wall_s": st.WallS,
				"violation_keys": len(st.Violations)})
		}
		keys := make([]string, 0, len(viol))
		for k := range viol {
			keys = append(keys, k)
		}
		sort.Strings(keys)
		for _, k := range keys {
			res.Violations = append(res.Violations, viol[k])
		}
		if envTimeouts.Load() > 0 || envErrors.Load() > 0 {
			exhaustive = false
		}
		es, _ := envErrSample.Load().(string)
		res.Coverage = map[string]any{
			"evaluations":         evals,
			"distinct_nontrivial": distinct,
			"rule": "every sequence of at most Depth moves {w,c,a,t,x,b,e} x replica on real NewCRDT instances (plus the scripted peer X; b/e = begin/end a broadcast round whose calls are held on the wire, at most inflight_rounds per execution), each followed by the fair suffix; plus the 16 scripts of the silent-peers configuration; " +
				"a branch is cut when the complete state (accessor dump of every instance + oracle bookkeeping) was already expanded with at least as many moves left; " +
				"distinct = distinct (final reads, committed sets, aborted set, X's updates) tuples observed after the suffix",
			"samples":                 samples,
			"runs":                    runs,
			"exhaustive":              exhaustive,
			"divergences":             divergences,
			"pruned_on_visited_state": pruned,
			"env_timeout":             envTimeouts.Load(),
			"env_errors":              envErrors.Load(),
			"env_error_sample":        es,
			"worker_restarts":         workerRestarts.Load(),
			"worker_requests":         latencies(),
			"silent_holds":            silentHoldsTotal.Load(),
			"update_names":            "u<owner>.<k> = k-th update of replica <owner> (owner = number of replicas: the scripted peer X)",
		}
		return res
	})
}

package c13

// Worker (child process) side of the C13 harness: owns the real resources.NewCRDT instances of one
// execution at a time plus the scripted peer X, performs one move per request, waits until the
// asynchronous merges have landed, and returns what can be observed.  It never judges anything.
//
// The worker is a separate process because instances cannot be closed (crdt.Close waits for the
// broadcast ticker, which is disabled here): each execution abandons a parked goroutine per instance
// and NewCRDT calls log.Fatalf when its port is busy.  The parent replaces the worker regularly.

import (
	"bufio"
	"encoding/json"
	"fmt"
	"io"
	"log"
	"net"
	"net/rpc"
	"os"
	"sort"
	"sync"
	"time"

	"github.com/DistCompiler/pgo/distsys"
	"github.com/DistCompiler/pgo/distsys/resources"
	"github.com/DistCompiler/pgo/distsys/tla"
)

type mv struct {
	Kind string `json:"k"` // w c a t x X  (x = scripted peer X commits a fresh update and sends its state to replica I; X = X sends its state to I without a new update)
	I    int    `json:"i"`
	ID   int    `json:"id,omitempty"` // update id for w / x
}

type request struct {
	Op    string `json:"op"` // run | quit
	New   bool   `json:"new,omitempty"`
	N     int    `json:"n,omitempty"`
	VT    string `json:"vt,omitempty"` // gcounter | aworset | lww
	Moves []mv   `json:"moves,omitempty"`
}

type dump struct {
	Value  []int `json:"value"`
	Old    []int `json:"old"`
	HasOld bool  `json:"has_old"`
	NBC    int   `json:"nbc"`
	Queue  int   `json:"q"`
}

// step is everything observable after one move has landed.
type step struct {
	Reads      [][]int `json:"reads"`       // ReadValue of every replica
	Dumps      []dump  `json:"dumps"`       // accessor dump of every replica
	Stable     [][]int `json:"stable"`      // the snapshot every replica hands to a peer now: reply to X's empty ReceiveValue sent after a t/x move, else computed from the dump
	StableSeen []bool  `json:"stable_seen"` // true: Stable[i] is a real reply
	XLog       [][]int `json:"xlog"`        // snapshots X's server received during the move (broadcasts)
	XReply     []int   `json:"xreply"`      // reply to X's ReceiveValue of an x move
	HasXReply  bool    `json:"has_xreply"`
}

type response struct {
	OK         bool   `json:"ok"`
	Err        string `json:"err,omitempty"`
	EnvTimeout bool   `json:"env_timeout,omitempty"`
	Steps      []step `json:"steps"`
}

type xReceiver struct{ ex *execution }

// ReceiveValue is what a peer of the CRDT resource serves (service name CRDTRPCReceiver).
// X answers like a peer that has been inside a critical section since its last commit: its reply is
// its own committed state only; it never relays what it received.
func (r *xReceiver) ReceiveValue(args resources.ReceiveValueArgs, reply *resources.ReceiveValueResp) error {
	ex := r.ex
	ex.xmu.Lock()
	defer ex.xmu.Unlock()
	if args.Value != nil {
		ex.xlog = append(ex.xlog, decode(ex.vt, args.Value))
	}
	*reply = resources.ReceiveValueResp{Value: ex.xstate}
	return nil
}

type execution struct {
	n      int
	vt     string
	ids    []tla.Value
	xid    tla.Value
	reps   []distsys.ArchetypeResource
	addrs  map[string]string
	xl     net.Listener
	xcl    []*rpc.Client
	xmu    sync.Mutex
	xlog   [][]int
	xstate resources.CRDTValue
}

func initValue(vt string) resources.CRDTValue {
	switch vt {
	case "aworset":
		return resources.AWORSet{}.Init()
	case "lww":
		return resources.LWWSet{}.Init()
	default:
		return resources.GCounter{}.Init()
	}
}

func protoValue(vt string) resources.CRDTValue {
	switch vt {
	case "aworset":
		return resources.AWORSet{}
	case "lww":
		return resources.LWWSet{}
	default:
		return resources.GCounter{}
	}
}

// opValue is the update with identity id: the counter adds 2^id, the sets add element id, so that
// Read() of any state decodes to the exact set of updates it contains.
func opValue(vt string, id int) tla.Value {
	if vt == "gcounter" {
		return tla.MakeNumber(int32(1) << uint(id))
	}
	return tla.MakeRecord([]tla.RecordField{
		{Key: tla.MakeString("cmd"), Value: tla.MakeNumber(1)},
		{Key: tla.MakeString("elem"), Value: tla.MakeNumber(int32(id))},
	})
}

func decodeRead(vt string, v tla.Value) []int {
	out := []int{}
	if vt == "gcounter" {
		x := uint32(v.AsNumber())
		for b := 0; b < 31; b++ {
			if x&(1<<uint(b)) != 0 {
				out = append(out, b)
			}
		}
		return out
	}
	it := v.AsSet().Iterator()
	for !it.Done() {
		k, _, _ := it.Next()
		out = append(out, int(k.AsNumber()))
	}
	sort.Ints(out)
	return out
}

func decode(vt string, v resources.CRDTValue) []int {
	if v == nil {
		return []int{}
	}
	return decodeRead(vt, v.Read())
}

var nextPort int

func freePort() (int, error) {
	const lo, hi = 20000, 32000 // below the kernel's ephemeral range
	if nextPort == 0 {
		nextPort = lo + (os.Getpid()*37)%(hi-lo)
	}
	for tries := 0; tries < 4000; tries++ {
		p := nextPort
		nextPort++
		if nextPort >= hi {
			nextPort = lo
		}
		l, err := net.Listen("tcp", fmt.Sprintf("127.0.0.1:%d", p))
		if err != nil {
			continue
		}
		l.Close()
		return p, nil
	}
	return 0, fmt.Errorf("no free port")
}

func newExecution(n int, vt string) (*execution, error) {
	ex := &execution{n: n, vt: vt, addrs: map[string]string{}, xid: tla.MakeNumber(int32(n + 1)), xstate: initValue(vt)}
	xl, err := net.Listen("tcp", "127.0.0.1:0")
	if err != nil {
		return nil, err
	}
	ex.xl = xl
	srv := rpc.NewServer()
	if err := srv.RegisterName("CRDTRPCReceiver", &xReceiver{ex: ex}); err != nil {
		return nil, err
	}
	go srv.Accept(xl)
	ex.addrs[ex.xid.String()] = xl.Addr().String()
	for i := 0; i < n; i++ {
		id := tla.MakeNumber(int32(i + 1))
		ex.ids = append(ex.ids, id)
		p, err := freePort()
		if err != nil {
			return nil, err
		}
		ex.addrs[id.String()] = fmt.Sprintf("127.0.0.1:%d", p)
	}
	for i := 0; i < n; i++ {
		var peers []tla.Value
		for j := 0; j < n; j++ {
			if j != i {
				peers = append(peers, ex.ids[j])
			}
		}
		peers = append(peers, ex.xid)
		// NewCRDT log.Fatalf's if the port was taken in the meantime: the parent then sees the worker die and retries.
		res := resources.NewCRDT(ex.ids[i], peers, func(id tla.Value) string { return ex.addrs[id.String()] }, protoValue(vt),
			resources.WithCRDTBroadcastInterval(24*time.Hour), // ticker effectively disabled: ticks are moves
			resources.WithCRDTSendTimeout(10*time.Second), resources.WithCRDTDialTimeout(10*time.Second))
		ex.reps = append(ex.reps, res)
	}
	for i := 0; i < n; i++ {
		conn, err := net.DialTimeout("tcp", ex.addrs[ex.ids[i].String()], 10*time.Second)
		if err != nil {
			return nil, err
		}
		ex.xcl = append(ex.xcl, rpc.NewClient(conn))
	}
	return ex, nil
}

func (ex *execution) shutdown() {
	for _, c := range ex.xcl {
		c.Close()
	}
	for _, r := range ex.reps {
		resources.VerifCRDTShutdown(r)
	}
	ex.xl.Close()
}

var errEnvTimeout = fmt.Errorf("env timeout")

func (ex *execution) xcall(i int, v resources.CRDTValue) (resources.CRDTValue, error) {
	var reply resources.ReceiveValueResp
	call := ex.xcl[i].Go("CRDTRPCReceiver.ReceiveValue", resources.ReceiveValueArgs{Value: v}, &reply, nil)
	select {
	case <-call.Done:
		if call.Error != nil {
			return nil, call.Error
		}
		return reply.Value, nil
	case <-time.After(15 * time.Second):
		return nil, errEnvTimeout
	}
}

// settle: X sends its empty (bottom) state to every replica in targets.  mergeValues is a FIFO
// consumed by one goroutine, and the move's own RPCs have completed before this one is sent, so once
// the queue is empty again every state received during the move has been merged (the bottom value
// itself merges as the identity).  The replies are the snapshots a peer receives from each replica
// right now.  Moves that cannot enqueue anything (w, c, a) need no settling.
func (ex *execution) settle(targets []int) (map[int][]int, error) {
	stable := map[int][]int{}
	for _, i := range targets {
		v, err := ex.xcall(i, initValue(ex.vt))
		if err != nil {
			return nil, err
		}
		stable[i] = decode(ex.vt, v)
	}
	deadline := time.Now().Add(15 * time.Second)
	for _, i := range targets {
		for spins := 0; resources.VerifCRDTMergeQueueLen(ex.reps[i]) != 0; spins++ {
			if time.Now().After(deadline) {
				return nil, errEnvTimeout
			}
			if spins > 200 {
				time.Sleep(50 * time.Microsecond)
			}
		}
	}
	return stable, nil
}

func (ex *execution) observe(resp *step, targets []int) error {
	stable, err := ex.settle(targets)
	if err != nil {
		return err
	}
	resp.Stable = make([][]int, ex.n)
	resp.StableSeen = make([]bool, ex.n)
	for i := 0; i < ex.n; i++ {
		v, err := ex.reps[i].ReadValue(distsys.ArchetypeInterface{})
		if err != nil {
			return err
		}
		resp.Reads = append(resp.Reads, decodeRead(ex.vt, v))
		d := resources.VerifCRDTDumpOf(ex.reps[i])
		dd := dump{Value: decode(ex.vt, d.Value), HasOld: d.HasOldValue, NBC: d.NeedBroadcastCount, Queue: d.MergeQueueLen, Old: []int{}}
		if d.HasOldValue {
			dd.Old = decode(ex.vt, d.OldValue)
		}
		resp.Dumps = append(resp.Dumps, dd)
		if st, ok := stable[i]; ok {
			resp.Stable[i], resp.StableSeen[i] = st, true // observed: a real reply to a real ReceiveValue
		} else if d.HasOldValue {
			resp.Stable[i] = dd.Old // not observed: what getStableValue computes from the dump
		} else {
			resp.Stable[i] = dd.Value
		}
	}
	return nil
}

func (ex *execution) move(rq mv, resp *step) error {
	ex.xmu.Lock()
	ex.xlog = nil
	ex.xmu.Unlock()
	iface := distsys.ArchetypeInterface{}
	nbcBefore := 0
	switch rq.Kind {
	case "w":
		if err := ex.reps[rq.I].WriteValue(iface, opValue(ex.vt, rq.ID)); err != nil {
			return err
		}
	case "c":
		if ch := ex.reps[rq.I].PreCommit(iface); ch != nil {
			if err := <-ch; err != nil {
				return err
			}
		}
		if ch := ex.reps[rq.I].Commit(iface); ch != nil {
			<-ch
		}
	case "a":
		if ch := ex.reps[rq.I].Abort(iface); ch != nil {
			<-ch
		}
	case "t":
		nbcBefore = resources.VerifCRDTDumpOf(ex.reps[rq.I]).NeedBroadcastCount
		done := make(chan struct{})
		go func() { resources.VerifCRDTBroadcastOnce(ex.reps[rq.I]); close(done) }()
		select {
		case <-done:
		case <-time.After(40 * time.Second):
			return errEnvTimeout
		}
	case "x", "X":
		ex.xmu.Lock()
		if rq.Kind == "x" {
			ex.xstate = ex.xstate.Write(ex.xid, opValue(ex.vt, rq.ID))
		}
		st := ex.xstate
		ex.xmu.Unlock()
		v, err := ex.xcall(rq.I, st)
		if err != nil {
			return err
		}
		resp.XReply = decode(ex.vt, v)
		resp.HasXReply = true
	default:
		return fmt.Errorf("unknown move %q", rq.Kind)
	}
	var targets []int
	switch rq.Kind {
	case "t":
		// a tick that sent nothing (X is connected to everyone and received nothing, and the broadcast
		// credit was already 0) cannot have enqueued anything anywhere
		ex.xmu.Lock()
		silent := len(ex.xlog) == 0 && nbcBefore == 0
		ex.xmu.Unlock()
		if !silent {
			for i := 0; i < ex.n; i++ {
				targets = append(targets, i)
			}
		}
	case "x", "X":
		targets = []int{rq.I}
	}
	if err := ex.observe(resp, targets); err != nil {
		return err
	}
	ex.xmu.Lock()
	resp.XLog = ex.xlog
	ex.xmu.Unlock()
	return nil
}

// childMain serves requests on fd 3 and answers on fd 4.
func childMain() {
	log.SetOutput(io.Discard)
	in := bufio.NewReaderSize(os.NewFile(3, "req"), 1<<16)
	out := os.NewFile(4, "resp")
	enc := json.NewEncoder(out)
	var ex *execution
	for {
		line, err := in.ReadBytes('\n')
		if err != nil {
			return
		}
		var rq request
		if err := json.Unmarshal(line, &rq); err != nil {
			enc.Encode(response{Err: "bad request: " + err.Error()})
			continue
		}
		if rq.Op == "quit" {
			return
		}
		resp := response{OK: true, Steps: []step{}}
		err = nil
		if rq.New {
			if ex != nil {
				ex.shutdown()
			}
			ex, err = newExecution(rq.N, rq.VT)
		}
		if err == nil && ex == nil {
			err = fmt.Errorf("no execution")
		}
		if err == nil {
			for _, m := range rq.Moves {
				var st step
				if err = ex.move(m, &st); err != nil {
					break
				}
				resp.Steps = append(resp.Steps, st)
			}
		}
		if err != nil {
			resp.OK = false
			resp.Err = err.Error()
			resp.EnvTimeout = err == errEnvTimeout
		}
		if err := enc.Encode(resp); err != nil {
			return
		}
	}
}

package c13

// Worker (child process) side of the C13 harness: owns the real resources.NewCRDT instances of one
// execution at a time plus the scripted peers, performs one move per request, waits until the
// asynchronous merges have landed, and returns what can be observed.  It never judges anything.
//
// Topology of one execution: replica i listens on its own port (NewCRDT), but its peers reach it
// through a gate: an RPC service registered under the receiver's name on another port that forwards
// every call to the replica's own receiver (unchanged ReceiveValue, overlay accessor
// VerifCRDTReceiver).  A gate, like a scripted peer's handler, can park a call "on the wire" so that
// a broadcast round stays in flight while other moves happen (b/e moves), or so that a scripted peer
// accepts a call without answering within the send timeout (s/r moves).
//
// The worker is a separate process because instances cannot be closed (crdt.Close waits for the
// broadcast ticker, which is disabled here): each execution abandons a parked goroutine per instance
// and NewCRDT calls log.Fatalf when its port is busy.  The parent replaces the worker regularly.

import (
	"bufio"
	"encoding/json"
	"fmt"
	"io"
	"log"
	"net"
	"net/rpc"
	"os"
	"runtime"
	"sort"
	"strings"
	"sync"
	"time"

	"github.com/DistCompiler/pgo/distsys"
	"github.com/DistCompiler/pgo/distsys/resources"
	"github.com/DistCompiler/pgo/distsys/tla"
)

type mv struct {
	// w c a t x X as before (x = scripted peer X0 commits a fresh update and sends its state to replica I;
	// X = X0 sends its state to I without a new update), plus
	//   b  begin a broadcast round of replica I and hold every call of that round on the wire
	//      (gates in front of every peer park the ReceiveValue calls before they are delivered)
	//   e  end the round of replica I: deliver the held calls, wait until broadcast() has returned
	//   s  a whole broadcast round of replica I during which the scripted peers in Mask accept the
	//      call but do not answer (they stay silent until an r move); the round has BoundMs to return
	//   r  the silent scripted peers answer at last
	Kind string `json:"k"`
	I    int    `json:"i"`
	ID   int    `json:"id,omitempty"`   // update id for w / x
	Mask int    `json:"mask,omitempty"` // s: bit k = scripted peer Xk does not answer
	Rem  bool   `json:"rem,omitempty"`  // w on a set: remove element ID instead of adding it
}

type request struct {
	Op            string `json:"op"` // run | quit
	New           bool   `json:"new,omitempty"`
	N             int    `json:"n,omitempty"`
	NX            int    `json:"nx,omitempty"` // scripted peers (default 1)
	VT            string `json:"vt,omitempty"` // gcounter | aworset | lww
	SendTimeoutMs int    `json:"send_timeout_ms,omitempty"`
	BoundMs       int    `json:"bound_ms,omitempty"`
	Moves         []mv   `json:"moves,omitempty"`
}

type dump struct {
	Value  []int `json:"value"`
	Old    []int `json:"old"`
	HasOld bool  `json:"has_old"`
	NBC    int   `json:"nbc"`
	Queue  int   `json:"q"`
}

// step is everything observable after one move has landed.
type step struct {
	Reads      [][]int `json:"reads"`       // ReadValue of every replica
	Dumps      []dump  `json:"dumps"`       // accessor dump of every replica
	Stable     [][]int `json:"stable"`      // the snapshot every replica hands to a peer now: reply to X0's empty ReceiveValue sent after the move, else computed from the dump
	StableSeen []bool  `json:"stable_seen"` // true: Stable[i] is a real reply
	XLog       [][]int `json:"xlog"`        // snapshots the scripted peers' servers received during the move (broadcasts)
	XLogK      []int   `json:"xlog_k"`      // which scripted peer received XLog[n]
	GLog       [][]int `json:"glog"`        // snapshots that arrived at the gates of real replicas during the move
	XReply     []int   `json:"xreply"`      // reply to X0's ReceiveValue of an x move
	HasXReply  bool    `json:"has_xreply"`
	InFlight   bool    `json:"in_flight"` // b: the round is now in flight (false: broadcast() returned without sending)
	RoundMs    int64   `json:"round_ms"`  // s: how long broadcast() took
	Wedged     bool    `json:"wedged"`    // s: broadcast() had not returned after BoundMs and its goroutine was parked in a select
	Evidence   string  `json:"evidence"`  // s: the goroutine's stack head when Wedged
}

type response struct {
	OK         bool   `json:"ok"`
	Err        string `json:"err,omitempty"`
	EnvTimeout bool   `json:"env_timeout,omitempty"`
	Steps      []step `json:"steps"`
}

// gate parks calls on the wire.  arm(tag): the next call that arrives is parked under tag until
// release(tag).  Calls that arrive while the gate is not armed pass at once.
type gate struct {
	mu      sync.Mutex
	armTag  int
	entered chan int
	parked  map[int][]chan struct{}
}

func newGate() *gate { return &gate{entered: make(chan int, 16), parked: map[int][]chan struct{}{}} }

func (g *gate) arm(tag int) {
	g.mu.Lock()
	g.armTag = tag
	g.mu.Unlock()
}

func (g *gate) disarm() {
	g.mu.Lock()
	g.armTag = 0
	g.mu.Unlock()
}

func (g *gate) pass() {
	g.mu.Lock()
	tag := g.armTag
	if tag == 0 {
		g.mu.Unlock()
		return
	}
	g.armTag = 0
	ch := make(chan struct{})
	g.parked[tag] = append(g.parked[tag], ch)
	g.mu.Unlock()
	g.entered <- tag
	<-ch
}

func (g *gate) release(tag int) {
	g.mu.Lock()
	for _, ch := range g.parked[tag] {
		close(ch)
	}
	delete(g.parked, tag)
	g.mu.Unlock()
}

func (g *gate) releaseAll() {
	g.mu.Lock()
	g.armTag = 0
	for tag, l := range g.parked {
		for _, ch := range l {
			close(ch)
		}
		delete(g.parked, tag)
	}
	g.mu.Unlock()
}

func (g *gate) drain() {
	for {
		select {
		case <-g.entered:
		default:
			return
		}
	}
}

const stallTag = 1000

// xpeer is a scripted peer: a real RPC server speaking the CRDT resource's protocol.
type xpeer struct {
	ex    *execution
	k     int
	id    tla.Value
	l     net.Listener
	g     *gate
	state resources.CRDTValue
}

// ReceiveValue is what a peer of the CRDT resource serves (service name CRDTRPCReceiver).
// A scripted peer answers like a peer that has been inside a critical section since its last commit:
// its reply is its own committed state only; it never relays what it received.
func (x *xpeer) ReceiveValue(args resources.ReceiveValueArgs, reply *resources.ReceiveValueResp) error {
	ex := x.ex
	ex.xmu.Lock()
	if args.Value != nil {
		ex.xlog = append(ex.xlog, decode(ex.vt, args.Value))
		ex.xlogK = append(ex.xlogK, x.k)
	}
	ex.xmu.Unlock()
	x.g.pass()
	ex.xmu.Lock()
	*reply = resources.ReceiveValueResp{Value: x.state}
	ex.xmu.Unlock()
	return nil
}

// peerGate stands in front of a real replica: peers dial the gate, the gate forwards every call to
// the replica's own receiver (unchanged ReceiveValue) after letting the harness hold it on the wire.
type peerGate struct {
	ex     *execution
	l      net.Listener
	g      *gate
	target *resources.CRDTRPCReceiver
}

func (p *peerGate) ReceiveValue(args resources.ReceiveValueArgs, reply *resources.ReceiveValueResp) error {
	ex := p.ex
	ex.xmu.Lock()
	if args.Value != nil {
		ex.glog = append(ex.glog, decode(ex.vt, args.Value))
	}
	ex.xmu.Unlock()
	p.g.pass()
	return p.target.ReceiveValue(args, reply)
}

type execution struct {
	n, nx  int
	vt     string
	ids    []tla.Value
	reps   []distsys.ArchetypeResource
	addrs  map[string]string // real listen address of every replica
	gaddrs map[string]string // address peers dial: the gate of a replica, the server of a scripted peer
	gates  []*peerGate
	xs     []*xpeer
	xcl    []*rpc.Client // X0 -> real listener of replica i (sentinels, x moves)
	xmu    sync.Mutex
	xlog   [][]int
	xlogK  []int
	glog   [][]int
	rounds map[int]chan struct{} // replica -> done channel of its broadcast() in flight
	bound  time.Duration
}

func initValue(vt string) resources.CRDTValue {
	switch vt {
	case "aworset":
		return resources.AWORSet{}.Init()
	case "lww":
		return resources.LWWSet{}.Init()
	default:
		return resources.GCounter{}.Init()
	}
}

func protoValue(vt string) resources.CRDTValue {
	switch vt {
	case "aworset":
		return resources.AWORSet{}
	case "lww":
		return resources.LWWSet{}
	default:
		return resources.GCounter{}
	}
}

// opValue is the update with identity id: the counter adds 2^id, the sets add element id, so that
// Read() of any state decodes to the exact set of updates it contains.
func opValue(vt string, id int) tla.Value {
	if vt == "gcounter" {
		return tla.MakeNumber(int32(1) << uint(id))
	}
	return tla.MakeRecord([]tla.RecordField{
		{Key: tla.MakeString("cmd"), Value: tla.MakeNumber(1)},
		{Key: tla.MakeString("elem"), Value: tla.MakeNumber(int32(id))},
	})
}

func decodeRead(vt string, v tla.Value) []int {
	out := []int{}
	if vt == "gcounter" {
		x := uint32(v.AsNumber())
		for b := 0; b < 31; b++ {
			if x&(1<<uint(b)) != 0 {
				out = append(out, b)
			}
		}
		return out
	}
	it := v.AsSet().Iterator()
	for !it.Done() {
		k, _, _ := it.Next()
		out = append(out, int(k.AsNumber()))
	}
	sort.Ints(out)
	return out
}

func decode(vt string, v resources.CRDTValue) []int {
	if v == nil {
		return []int{}
	}
	return decodeRead(vt, v.Read())
}

var nextPort int

func freePort() (int, error) {
	const lo, hi = 20000, 32000 // below the kernel's ephemeral range
	if nextPort == 0 {
		nextPort = lo + (os.Getpid()*37)%(hi-lo)
	}
	for tries := 0; tries < 4000; tries++ {
		p := nextPort
		nextPort++
		if nextPort >= hi {
			nextPort = lo
		}
		l, err := net.Listen("tcp", fmt.Sprintf("127.0.0.1:%d", p))
		if err != nil {
			continue
		}
		l.Close()
		return p, nil
	}
	return 0, fmt.Errorf("no free port")
}

func newExecution(rq request) (*execution, error) {
	n, nx, vt := rq.N, rq.NX, rq.VT
	if nx < 1 {
		nx = 1
	}
	sendTimeout := 10 * time.Minute // never fires in configurations without silent peers
	if rq.SendTimeoutMs > 0 {
		sendTimeout = time.Duration(rq.SendTimeoutMs) * time.Millisecond
	}
	ex := &execution{n: n, nx: nx, vt: vt, addrs: map[string]string{}, gaddrs: map[string]string{}, rounds: map[int]chan struct{}{},
		bound: time.Duration(rq.BoundMs) * time.Millisecond}
	for k := 0; k < nx; k++ {
		l, err := net.Listen("tcp", "127.0.0.1:0")
		if err != nil {
			return nil, err
		}
		x := &xpeer{ex: ex, k: k, id: tla.MakeNumber(int32(n + 1 + k)), l: l, g: newGate(), state: initValue(vt)}
		srv := rpc.NewServer()
		if err := srv.RegisterName("CRDTRPCReceiver", x); err != nil {
			return nil, err
		}
		go srv.Accept(l)
		ex.xs = append(ex.xs, x)
		ex.gaddrs[x.id.String()] = l.Addr().String()
	}
	for i := 0; i < n; i++ {
		id := tla.MakeNumber(int32(i + 1))
		ex.ids = append(ex.ids, id)
		p, err := freePort()
		if err != nil {
			return nil, err
		}
		ex.addrs[id.String()] = fmt.Sprintf("127.0.0.1:%d", p)
		gl, err := net.Listen("tcp", "127.0.0.1:0")
		if err != nil {
			return nil, err
		}
		ex.gates = append(ex.gates, &peerGate{ex: ex, l: gl, g: newGate()})
		ex.gaddrs[id.String()] = gl.Addr().String()
	}
	for i := 0; i < n; i++ {
		var peers []tla.Value
		for j := 0; j < n; j++ {
			if j != i {
				peers = append(peers, ex.ids[j])
			}
		}
		for _, x := range ex.xs {
			peers = append(peers, x.id)
		}
		self := ex.ids[i]
		// NewCRDT log.Fatalf's if the port was taken in the meantime: the parent then sees the worker die and retries.
		res := resources.NewCRDT(self, peers, func(id tla.Value) string {
			if id.Equal(self) {
				return ex.addrs[id.String()] // where the instance listens
			}
			return ex.gaddrs[id.String()] // where its peers are reached
		}, protoValue(vt),
			resources.WithCRDTBroadcastInterval(24*time.Hour), // ticker effectively disabled: ticks are moves
			resources.WithCRDTSendTimeout(sendTimeout), resources.WithCRDTDialTimeout(10*time.Second))
		ex.reps = append(ex.reps, res)
	}
	for i := 0; i < n; i++ {
		pg := ex.gates[i]
		pg.target = resources.VerifCRDTReceiver(ex.reps[i])
		srv := rpc.NewServer()
		if err := srv.RegisterName("CRDTRPCReceiver", pg); err != nil {
			return nil, err
		}
		go srv.Accept(pg.l)
		conn, err := net.DialTimeout("tcp", ex.addrs[ex.ids[i].String()], 10*time.Second)
		if err != nil {
			return nil, err
		}
		ex.xcl = append(ex.xcl, rpc.NewClient(conn))
	}
	return ex, nil
}

func (ex *execution) shutdown() {
	for _, x := range ex.xs {
		x.g.releaseAll()
		x.l.Close()
	}
	for _, g := range ex.gates {
		g.g.releaseAll()
		g.l.Close()
	}
	for _, c := range ex.xcl {
		c.Close()
	}
	for _, r := range ex.reps {
		resources.VerifCRDTShutdown(r)
	}
}

var errEnvTimeout = fmt.Errorf("env timeout")

func (ex *execution) xcall(i int, v resources.CRDTValue) (resources.CRDTValue, error) {
	var reply resources.ReceiveValueResp
	call := ex.xcl[i].Go("CRDTRPCReceiver.ReceiveValue", resources.ReceiveValueArgs{Value: v}, &reply, nil)
	select {
	case <-call.Done:
		if call.Error != nil {
			return nil, call.Error
		}
		return reply.Value, nil
	case <-time.After(15 * time.Second):
		return nil, errEnvTimeout
	}
}

// settle: X0 sends its empty (bottom) state to every replica in targets.  mergeValues is a FIFO
// consumed by one goroutine, and the move's own RPCs have completed before this one is sent, so once
// the queue is empty again every state received during the move has been merged (the bottom value
// itself merges as the identity).  The replies are the snapshots a peer receives from each replica
// right now.  Moves that cannot enqueue anything (w, c, a, b) need no settling.
func (ex *execution) settle(targets []int) (map[int][]int, error) {
	stable := map[int][]int{}
	for _, i := range targets {
		v, err := ex.xcall(i, initValue(ex.vt))
		if err != nil {
			return nil, err
		}
		stable[i] = decode(ex.vt, v)
	}
	deadline := time.Now().Add(15 * time.Second)
	for _, i := range targets {
		for spins := 0; resources.VerifCRDTMergeQueueLen(ex.reps[i]) != 0; spins++ {
			if time.Now().After(deadline) {
				return nil, errEnvTimeout
			}
			if spins > 200 {
				time.Sleep(50 * time.Microsecond)
			}
		}
	}
	return stable, nil
}

func (ex *execution) observe(resp *step, targets []int) error {
	stable, err := ex.settle(targets)
	if err != nil {
		return err
	}
	resp.Stable = make([][]int, ex.n)
	resp.StableSeen = make([]bool, ex.n)
	for i := 0; i < ex.n; i++ {
		v, err := ex.reps[i].ReadValue(distsys.ArchetypeInterface{})
		if err != nil {
			return err
		}
		resp.Reads = append(resp.Reads, decodeRead(ex.vt, v))
		d := resources.VerifCRDTDumpOf(ex.reps[i])
		dd := dump{Value: decode(ex.vt, d.Value), HasOld: d.HasOldValue, NBC: d.NeedBroadcastCount, Queue: d.MergeQueueLen, Old: []int{}}
		if d.HasOldValue {
			dd.Old = decode(ex.vt, d.OldValue)
		}
		resp.Dumps = append(resp.Dumps, dd)
		if st, ok := stable[i]; ok {
			resp.Stable[i], resp.StableSeen[i] = st, true // observed: a real reply to a real ReceiveValue
		} else if d.HasOldValue {
			resp.Stable[i] = dd.Old // not observed: what getStableValue computes from the dump
		} else {
			resp.Stable[i] = dd.Value
		}
	}
	return nil
}

// peerGatesOf returns the gates a broadcast round of replica i passes through.
func (ex *execution) peerGatesOf(i int) []*gate {
	var gs []*gate
	for j := 0; j < ex.n; j++ {
		if j != i {
			gs = append(gs, ex.gates[j].g)
		}
	}
	for _, x := range ex.xs {
		gs = append(gs, x.g)
	}
	return gs
}

// broadcastGoroutine describes the goroutine running (*crdt).broadcast, if any: its wait state as the
// runtime prints it and the head of its stack.
func broadcastGoroutine() (state string, head string) {
	buf := make([]byte, 4<<20)
	buf = buf[:runtime.Stack(buf, true)]
	for _, blk := range strings.Split(string(buf), "\n\n") {
		if !strings.Contains(blk, "resources.(*crdt).broadcast(") {
			continue
		}
		lines := strings.Split(blk, "\n")
		if a, b := strings.Index(lines[0], "["), strings.Index(lines[0], "]"); a >= 0 && b > a {
			state = lines[0][a+1 : b]
		}
		if len(lines) > 7 {
			lines = lines[:7]
		}
		return state, strings.Join(lines, " | ")
	}
	return "", ""
}

func (ex *execution) allReplicas() []int {
	t := make([]int, ex.n)
	for i := range t {
		t[i] = i
	}
	return t
}

func (ex *execution) move(rq mv, resp *step) error {
	ex.xmu.Lock()
	ex.xlog, ex.xlogK, ex.glog = nil, nil, nil
	ex.xmu.Unlock()
	iface := distsys.ArchetypeInterface{}
	var targets []int
	switch rq.Kind {
	case "w":
		op := opValue(ex.vt, rq.ID)
		if rq.Rem {
			op = tla.MakeRecord([]tla.RecordField{
				{Key: tla.MakeString("cmd"), Value: tla.MakeNumber(2)},
				{Key: tla.MakeString("elem"), Value: tla.MakeNumber(int32(rq.ID))},
			})
		}
		if err := ex.reps[rq.I].WriteValue(iface, op); err != nil {
			return err
		}
	case "c":
		if ch := ex.reps[rq.I].PreCommit(iface); ch != nil {
			if err := <-ch; err != nil {
				return err
			}
		}
		if ch := ex.reps[rq.I].Commit(iface); ch != nil {
			<-ch
		}
	case "a":
		if ch := ex.reps[rq.I].Abort(iface); ch != nil {
			<-ch
		}
	case "t":
		if ex.rounds[rq.I] != nil {
			return fmt.Errorf("tick of replica %d while its round is in flight", rq.I)
		}
		nbcBefore := resources.VerifCRDTDumpOf(ex.reps[rq.I]).NeedBroadcastCount
		done := make(chan struct{})
		go func() { resources.VerifCRDTBroadcastOnce(ex.reps[rq.I]); close(done) }()
		select {
		case <-done:
		case <-time.After(40 * time.Second):
			return errEnvTimeout
		}
		// a tick that sent nothing (the scripted peers are connected to everyone and received nothing, and
		// the broadcast credit was already 0) cannot have enqueued anything anywhere
		ex.xmu.Lock()
		silent := len(ex.xlog) == 0 && nbcBefore == 0
		ex.xmu.Unlock()
		if !silent {
			targets = ex.allReplicas()
		}
	case "b":
		if ex.rounds[rq.I] != nil {
			return fmt.Errorf("round of replica %d already in flight", rq.I)
		}
		gs := ex.peerGatesOf(rq.I)
		for _, g := range gs {
			g.drain()
			g.arm(rq.I + 1)
		}
		done := make(chan struct{})
		go func() { resources.VerifCRDTBroadcastOnce(ex.reps[rq.I]); close(done) }()
		inflight := true
		timeout := time.After(30 * time.Second)
	wait:
		for _, g := range gs {
			select {
			case <-g.entered:
			case <-done:
				inflight = false
				break wait
			case <-timeout:
				for _, g := range gs {
					g.disarm()
					g.release(rq.I + 1)
				}
				return errEnvTimeout
			}
		}
		if inflight {
			ex.rounds[rq.I] = done
			resp.InFlight = true
		} else {
			// broadcast() returned without reaching every peer (nothing to send): nothing is held
			for _, g := range gs {
				g.disarm()
				g.release(rq.I + 1)
			}
			targets = ex.allReplicas()
		}
	case "e":
		if done := ex.rounds[rq.I]; done != nil {
			for _, g := range ex.peerGatesOf(rq.I) {
				g.release(rq.I + 1)
			}
			select {
			case <-done:
			case <-time.After(40 * time.Second):
				return errEnvTimeout
			}
			delete(ex.rounds, rq.I)
			targets = ex.allReplicas()
		}
	case "s":
		for k, x := range ex.xs {
			if rq.Mask&(1<<uint(k)) != 0 {
				x.g.drain()
				x.g.arm(stallTag)
			}
		}
		done := make(chan struct{})
		t0 := time.Now()
		go func() { resources.VerifCRDTBroadcastOnce(ex.reps[rq.I]); close(done) }()
		select {
		case <-done:
		case <-time.After(ex.bound):
			// not back after the bound: is the goroutine parked for good, or merely starved?
			st1, head := broadcastGoroutine()
			select {
			case <-done:
			case <-time.After(ex.bound / 4):
			}
			st2, _ := broadcastGoroutine()
			select {
			case <-done: // it did come back: slow environment, not a verdict
			default:
				if strings.HasPrefix(st1, "select") && strings.HasPrefix(st2, "select") {
					resp.Wedged = true
					resp.Evidence = head
				}
			}
			// let the silent peers answer so that the goroutine can finish, whatever the verdict
			for _, x := range ex.xs {
				x.g.releaseAll()
			}
			select {
			case <-done:
			case <-time.After(30 * time.Second):
				return errEnvTimeout
			}
			if !resp.Wedged {
				return errEnvTimeout
			}
		}
		resp.RoundMs = time.Since(t0).Milliseconds()
		for _, x := range ex.xs {
			x.g.disarm() // a peer that was not called in this round does not stay armed
		}
		targets = ex.allReplicas()
	case "r":
		for _, x := range ex.xs {
			x.g.releaseAll()
		}
		targets = ex.allReplicas()
	case "x", "X":
		ex.xmu.Lock()
		if rq.Kind == "x" {
			ex.xs[0].state = ex.xs[0].state.Write(ex.xs[0].id, opValue(ex.vt, rq.ID))
		}
		st := ex.xs[0].state
		ex.xmu.Unlock()
		v, err := ex.xcall(rq.I, st)
		if err != nil {
			return err
		}
		resp.XReply = decode(ex.vt, v)
		resp.HasXReply = true
		targets = []int{rq.I}
	default:
		return fmt.Errorf("unknown move %q", rq.Kind)
	}
	if err := ex.observe(resp, targets); err != nil {
		return err
	}
	ex.xmu.Lock()
	resp.XLog, resp.XLogK, resp.GLog = ex.xlog, ex.xlogK, ex.glog
	ex.xmu.Unlock()
	return nil
}

// childMain serves requests on fd 3 and answers on fd 4.
func childMain() {
	log.SetOutput(io.Discard)
	in := bufio.NewReaderSize(os.NewFile(3, "req"), 1<<16)
	out := os.NewFile(4, "resp")
	enc := json.NewEncoder(out)
	var ex *execution
	for {
		line, err := in.ReadBytes('\n')
		if err != nil {
			return
		}
		var rq request
		if err := json.Unmarshal(line, &rq); err != nil {
			enc.Encode(response{Err: "bad request: " + err.Error()})
			continue
		}
		if rq.Op == "quit" {
			return
		}
		resp := response{OK: true, Steps: []step{}}
		err = nil
		if rq.New {
			if ex != nil {
				ex.shutdown()
			}
			ex, err = newExecution(rq)
		}
		if err == nil && ex == nil {
			err = fmt.Errorf("no execution")
		}
		if err == nil {
			for _, m := range rq.Moves {
				var st step
				if err = ex.move(m, &st); err != nil {
					break
				}
				resp.Steps = append(resp.Steps, st)
				if st.Wedged {
					break // verdict reached; the remaining moves of the script would only repeat it
				}
			}
		}
		if err != nil {
			resp.OK = false
			resp.Err = err.Error()
			resp.EnvTimeout = err == errEnvTimeout
		}
		if err := enc.Encode(resp); err != nil {
			return
		}
	}
}

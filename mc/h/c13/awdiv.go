package c13

// AWORSet-valued configuration: three real NewCRDT nodes share an add-wins set and add AND remove
// the same element (the main configurations only ever add fresh elements, so that reads decode to
// update sets; with those no value-level conflict can arise).
//
// Scripted prefix (every section commits at once):  node 0 adds x, node 1 adds x, node 2 adds y (quick
// tier: followed by a tick of node 2, so that the enumeration starts where node 2 knows both adds).
// Enumerated continuation, at most awDepth moves:   t<i> one broadcast tick of node i (offered while the
// node owes a broadcast), b<i> / e<i> one broadcast round of node i held on the wire and delivered later
// (at most one per execution), r0 / r1 = node 0 / node 1 removes x in a committed section (each once;
// node 0 first - nodes 0 and 1 are interchangeable).  Then the fair suffix: a round still on the wire
// is delivered, three rounds of ticks everywhere.
//
// Oracle (the property's "all replicas read equal values once updates stop"): after the suffix the three
// nodes must read the same set.  The bookkeeping follows which committed updates every node has received,
// directly or inside a state relayed by another node (a tick that really sent - the scripted peer X is a
// peer of everyone and logs it - hands the sender's knowledge to every peer and every peer's knowledge
// to the sender).  Different reads although every node has received every committed update are keyed
// divergence/aworset-valued/merge-order-dependent (the shared value type, not the resource, failed to
// converge); different reads with an update still missing somewhere are a delivery failure.

import (
	"fmt"
	"strings"

	"verif/mc/explore"
)

const (
	awX = 1
	awY = 2
)

var awDepth = 5
var awPrefixTick = true // the scripted prefix ends with a tick of node 2

type awStep struct {
	m     mv
	tick  int // >= 0: a tick of that node
	event int // >= 0: the commit that publishes this event of node m.I
	begin int // >= 0: a round of that node goes on the wire
	end   int // >= 0: the held round of that node is delivered
}

var awEventNames = []string{"n0:add x", "n1:add x", "n2:add y", "n0:rem x", "n1:rem x"}

func awScript(cont []string) ([]awStep, error) {
	var st []awStep
	section := func(node, elem int, rem bool, ev int) {
		st = append(st, awStep{m: mv{Kind: "w", I: node, ID: elem, Rem: rem}, tick: -1, event: -1, begin: -1, end: -1},
			awStep{m: mv{Kind: "c", I: node}, tick: -1, event: ev, begin: -1, end: -1})
	}
	section(0, awX, false, 0)
	section(1, awX, false, 1)
	section(2, awY, false, 2)
	if awPrefixTick {
		st = append(st, awStep{m: mv{Kind: "t", I: 2}, tick: 2, event: -1, begin: -1, end: -1})
	}
	open := -1
	for _, s := range cont {
		var i int
		switch {
		case len(s) == 2 && s[0] == 't' && s[1] >= '0' && s[1] <= '2':
			i = int(s[1] - '0')
			st = append(st, awStep{m: mv{Kind: "t", I: i}, tick: i, event: -1, begin: -1, end: -1})
		case len(s) == 2 && s[0] == 'b' && s[1] >= '0' && s[1] <= '2':
			i = int(s[1] - '0')
			open = i
			st = append(st, awStep{m: mv{Kind: "b", I: i}, tick: -1, event: -1, begin: i, end: -1})
		case len(s) == 2 && s[0] == 'e' && s[1] >= '0' && s[1] <= '2':
			i = int(s[1] - '0')
			open = -1
			st = append(st, awStep{m: mv{Kind: "e", I: i}, tick: -1, event: -1, begin: -1, end: i})
		case s == "r0":
			section(0, awX, true, 3)
		case s == "r1":
			section(1, awX, true, 4)
		default:
			return nil, fmt.Errorf("bad move %q", s)
		}
	}
	if open >= 0 {
		st = append(st, awStep{m: mv{Kind: "e", I: open}, tick: -1, event: -1, begin: -1, end: open})
	}
	for round := 0; round < 3; round++ {
		for i := 0; i < 3; i++ {
			st = append(st, awStep{m: mv{Kind: "t", I: i}, tick: i, event: -1, begin: -1, end: -1})
		}
	}
	return st, nil
}

func awSetName(ids []int) string {
	var p []string
	for _, e := range ids {
		if e == awX {
			p = append(p, "x")
		} else if e == awY {
			p = append(p, "y")
		} else {
			p = append(p, fmt.Sprint(e))
		}
	}
	return "{" + strings.Join(p, ",") + "}"
}

func runAW(sl *slot, cont []string) (*failure, string, error) {
	script, err := awScript(cont)
	if err != nil {
		return nil, "", err
	}
	rq := request{Op: "run", New: true, N: 3, NX: 1, VT: "aworset"}
	for _, s := range script {
		rq.Moves = append(rq.Moves, s.m)
	}
	var resp *response
	for attempt := 0; attempt < 6; attempt++ {
		var w *worker
		if w, err = sl.get(); err != nil {
			envErrors.Add(1)
			return nil, "", errEnv
		}
		w.execs++
		resp, err = w.call(rq)
		if err == nil && (resp.OK || resp.EnvTimeout) {
			break
		}
		sl.drop()
		resp = nil
	}
	if resp == nil || !resp.OK || len(resp.Steps) != len(script) {
		if resp != nil && resp.EnvTimeout {
			envTimeouts.Add(1)
		} else {
			envErrors.Add(1)
			envErrSample.Store(fmt.Sprintf("aworset-valued configuration: %v", err))
		}
		sl.drop()
		return nil, "", errEnv
	}
	var know [3]uint32 // committed updates each node has received (bit = event)
	var all uint32
	var onWire [3]uint32
	var wire [3]bool
	for k, s := range script {
		st := resp.Steps[k]
		if s.event >= 0 {
			know[s.m.I] |= 1 << uint(s.event)
			all |= 1 << uint(s.event)
		}
		if s.begin >= 0 && st.InFlight {
			wire[s.begin], onWire[s.begin] = true, know[s.begin]
		}
		if s.end >= 0 && wire[s.end] {
			before := know
			for j := 0; j < 3; j++ {
				if j != s.end {
					know[j] |= onWire[s.end]
					know[s.end] |= before[j]
				}
			}
			wire[s.end] = false
		}
		if s.tick >= 0 && len(st.XLog) > 0 {
			before := know
			for j := 0; j < 3; j++ {
				if j != s.tick {
					know[j] |= before[s.tick]
					know[s.tick] |= before[j]
				}
			}
		}
	}
	last := resp.Steps[len(resp.Steps)-1]
	reads := []string{awSetName(last.Reads[0]), awSetName(last.Reads[1]), awSetName(last.Reads[2])}
	out := fmt.Sprintf("n0=%s n1=%s n2=%s", reads[0], reads[1], reads[2])
	if reads[0] == reads[1] && reads[1] == reads[2] {
		return nil, out, nil
	}
	hist := "n0:add x; n1:add x; n2:add y; "
	if awPrefixTick {
		hist += "t2; "
	}
	hist += strings.Join(cont, " ") + "; (deliver held round;) 3 rounds of ticks"
	var nbc []int
	for _, d := range last.Dumps {
		nbc = append(nbc, d.NBC)
	}
	if know[0] == all && know[1] == all && know[2] == all {
		return &failure{"divergence/aworset-valued/merge-order-dependent",
			fmt.Sprintf("three nodes sharing an AWORSet, all sections committed, every round acknowledged, script [%s]: updates have stopped, every node has received every committed update (directly or relayed), needBroadcastCount is %v, yet they read %s for good: AWORSet.Merge gives different results for the same updates in different delivery orders (C12 aworset/merge-associative), so the resource cannot converge", hist, nbc, out)}, "", nil
	}
	var miss []string
	for i := 0; i < 3; i++ {
		for e := range awEventNames {
			if all&(1<<uint(e)) != 0 && know[i]&(1<<uint(e)) == 0 {
				miss = append(miss, fmt.Sprintf("n%d lacks %q", i, awEventNames[e]))
			}
		}
	}
	return &failure{"committed-update-undelivered/aworset-valued",
		fmt.Sprintf("script [%s]: nodes read %s and %s (needBroadcastCount %v)", hist, out, strings.Join(miss, ", "), nbc)}, "", nil
}

// awPlan is the bookkeeping that decides which continuation moves are offered.
type awPlan struct {
	armed   [3]bool
	removed [2]bool
	open    int
	holds   int
	rearmed bool
	n       int
}

func newAWPlan() *awPlan { return &awPlan{armed: [3]bool{true, true, !awPrefixTick}, open: -1} }

func (p *awPlan) enabled() []string {
	var en []string
	if p.n >= awDepth {
		return en
	}
	for i := 0; i < 3; i++ {
		if p.open == i {
			en = append(en, fmt.Sprintf("e%d", i))
		} else if p.armed[i] {
			en = append(en, fmt.Sprintf("t%d", i))
			if p.holds == 0 && p.open < 0 && p.n+1 < awDepth {
				en = append(en, fmt.Sprintf("b%d", i))
			}
		}
	}
	if !p.removed[0] {
		en = append(en, "r0")
	} else if !p.removed[1] {
		en = append(en, "r1")
	}
	return en
}

func (p *awPlan) apply(m string) {
	p.n++
	i := int(m[1] - '0')
	switch m[0] {
	case 't':
		p.armed[i] = false
	case 'b':
		p.open, p.holds, p.rearmed = i, p.holds+1, false
	case 'e':
		p.armed[p.open] = p.rearmed
		p.open = -1
	case 'r':
		p.removed[i] = true
		p.armed[i] = true
		if p.open == i {
			p.rearmed = true
		}
	}
}

// awAll lists every continuation of exactly length n, in the order the moves are offered.
func awAll(n int) [][]string {
	var out [][]string
	var rec func(p awPlan, pre []string)
	rec = func(p awPlan, pre []string) {
		if len(pre) == n {
			out = append(out, append([]string{}, pre...))
			return
		}
		for _, m := range p.enabled() {
			q := p
			q.apply(m)
			rec(q, append(pre, m))
		}
	}
	rec(*newAWPlan(), nil)
	return out
}

// awFirstWitness returns the first continuation in length-then-offer order (up to maxLen moves) that
// reports key three times out of three: the same witness in every run.
func awFirstWitness(sl *slot, key string, maxLen int) ([]string, string) {
	for n := 0; n <= maxLen; n++ {
		for _, cont := range awAll(n) {
			what := ""
			ok := true
			for k := 0; k < 3 && ok; k++ {
				f, _, err := runAW(sl, cont)
				ok = err == nil && f != nil && f.key == key
				if ok {
					what = f.what
				}
			}
			if ok {
				return cont, what
			}
		}
	}
	return nil, ""
}

func awBody(c *explore.Ctx) {
	sl := c.User.(*slot)
	p := newAWPlan()
	var cont []string
	for {
		en := p.enabled()
		if len(en) == 0 {
			break
		}
		k := c.Choose(1+len(en), "mv")
		if k == 0 {
			break
		}
		cont = append(cont, en[k-1])
		p.apply(en[k-1])
	}
	f, out, err := runAW(sl, cont)
	if err != nil {
		c.Prune()
	}
	if f != nil {
		c.Fail(f.key, f.what, append([]string{}, cont...))
	}
	c.Outcome(out)
}

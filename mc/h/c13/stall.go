package c13

// Rounds with peers that accept the call but do not answer within the send timeout.
//
// Configuration: replicas 0 (the writer) and 1 (healthy), two scripted peers X0 and X1, send timeout
// 40 ms (only here; everywhere else the timeout never fires).  Script:
//
//	w0 c0 | round of replica 0, scripted peers in S1 silent | w0 c0 | round of replica 0, S2 silent |
//	the silent peers answer at last | three rounds of ticks at both replicas
//
// for every S1, S2 subset of {X0, X1}.  A silent peer keeps the call open (connection accepted, request
// read, no reply) until the "answer at last" step, i.e. far beyond the send timeout.
//
// Oracle: broadcast() is the body of the single broadcast loop of a node, so a round that never
// returns means that no later committed update of that node is ever broadcast to anybody.  A round is
// judged wedged only when it has not returned after boundMs (150 x the send timeout) AND the goroutine
// running (*crdt).broadcast is parked in a select both then and a quarter of the bound later; a round
// that is merely slow discards the execution (env_timeout).  After the script every replica must read
// both committed updates and every scripted peer must have been handed both (if not yet, up to eight
// more batches of ticks are granted first: the property says eventually).

import (
	"fmt"
	"math/bits"
	"strings"
	"time"

	"verif/mc/explore"
)

const (
	stallSendTimeoutMs = 40
	stallBoundMs       = 6000
)

type stallCase struct {
	S1 int `json:"silent_in_round_1"` // bit k: scripted peer Xk does not answer
	S2 int `json:"silent_in_round_2"`
}

func maskName(m int) string {
	var p []string
	for k := 0; k < 2; k++ {
		if m&(1<<uint(k)) != 0 {
			p = append(p, fmt.Sprintf("X%d", k))
		}
	}
	if len(p) == 0 {
		return "nobody"
	}
	return strings.Join(p, "+")
}

func (sc stallCase) String() string {
	return fmt.Sprintf("w0 c0 round0(silent: %s) w0 c0 round0(silent: %s) answer ticks", maskName(sc.S1), maskName(sc.S2))
}

var stallMaxRoundMs int64

// runStall performs the script on fresh instances.
func runStall(sl *slot, sc stallCase) (*failure, string, error) {
	ms := []mv{{Kind: "w", I: 0, ID: 0}, {Kind: "c", I: 0}, {Kind: "s", I: 0, Mask: sc.S1},
		{Kind: "w", I: 0, ID: 1}, {Kind: "c", I: 0}, {Kind: "s", I: 0, Mask: sc.S2}, {Kind: "r"}}
	for round := 0; round < 3; round++ {
		ms = append(ms, mv{Kind: "t", I: 0}, mv{Kind: "t", I: 1})
	}
	rq := request{Op: "run", New: true, N: 2, NX: 2, VT: "gcounter", SendTimeoutMs: stallSendTimeoutMs, BoundMs: stallBoundMs, Moves: ms}
	var resp *response
	var err error
	for attempt := 0; attempt < 6; attempt++ {
		var w *worker
		if w, err = sl.get(); err != nil {
			envErrors.Add(1)
			return nil, "", errEnv
		}
		w.execs++
		resp, err = w.call(rq)
		if err == nil && (resp.OK || len(resp.Steps) > 0 || resp.EnvTimeout) {
			break
		}
		sl.drop()
		resp = nil
	}
	if resp == nil {
		envErrors.Add(1)
		envErrSample.Store(fmt.Sprintf("stall configuration: %v", err))
		return nil, "", errEnv
	}
	want := mkset([]int{0, 1})
	var xgot [2]set
	for k, st := range resp.Steps {
		for n, l := range st.XLog {
			xgot[st.XLogK[n]] |= mkset(l)
		}
		if ms[k].Kind == "s" {
			mu.Lock()
			if st.RoundMs > stallMaxRoundMs {
				stallMaxRoundMs = st.RoundMs
			}
			mu.Unlock()
			if st.Wedged {
				names := map[int]string{0: "no", 1: "one", 2: "two"}
				key := fmt.Sprintf("broadcast-wedged/round-with-%s-unanswering-peers", names[bits.OnesCount(uint(ms[k].Mask))])
				round := 1
				if k > 2 {
					round = 2
				}
				return &failure{key, fmt.Sprintf("script [%s]: broadcast() of replica 0 had not returned %d ms after the start of round %d (send timeout %d ms) in which %s accepted the call and did not answer; its goroutine is parked: %s; the node's only broadcast loop is stuck, so nothing it commits later is ever sent to the healthy peers",
					sc, stallBoundMs+stallBoundMs/4, round, stallSendTimeoutMs, maskName(ms[k].Mask), st.Evidence)}, "", nil
			}
		}
	}
	if !resp.OK {
		if resp.EnvTimeout {
			envTimeouts.Add(1)
		} else {
			envErrors.Add(1)
			envErrSample.Store("stall configuration: " + resp.Err)
		}
		sl.drop()
		return nil, "", errEnv
	}
	// "eventually": with a 40 ms send timeout a slow machine makes healthy calls time out too (they are
	// repeated by the next tick) and lets a delayed delivery land after the observation; before judging,
	// keep ticking - a lost update never arrives however often the nodes tick.
	last := resp.Steps[len(resp.Steps)-1]
	var f *failure
	for attempt := 0; ; attempt++ {
		f = nil
		for i := 0; i < 2 && f == nil; i++ {
			if rd := mkset(last.Reads[i]); rd != want {
				f = &failure{"committed-update-undelivered/after-round-with-unanswering-peers",
					fmt.Sprintf("script [%s]: replica %d reads %v, committed updates are %v", sc, i, rd, want)}
			}
		}
		for k := 0; k < 2 && f == nil; k++ {
			if missing := want &^ xgot[k]; missing != 0 {
				f = &failure{"committed-update-undelivered/after-round-with-unanswering-peers",
					fmt.Sprintf("script [%s]: scripted peer X%d was never handed %v although it answers again", sc, k, missing)}
			}
		}
		if f == nil || attempt == 8 {
			break
		}
		time.Sleep(250 * time.Millisecond)
		more, err := sl.w.call(request{Op: "run", Moves: []mv{{Kind: "t", I: 0}, {Kind: "t", I: 1}, {Kind: "t", I: 0}, {Kind: "t", I: 1}}})
		if err != nil || !more.OK || len(more.Steps) == 0 {
			envErrors.Add(1)
			sl.drop()
			return nil, "", errEnv
		}
		for _, st := range more.Steps {
			for n, l := range st.XLog {
				xgot[st.XLogK[n]] |= mkset(l)
			}
		}
		last = more.Steps[len(more.Steps)-1]
	}
	if f != nil {
		return f, "", nil
	}
	return nil, fmt.Sprintf("silent1=%s silent2=%s reads=%v,%v", maskName(sc.S1), maskName(sc.S2), mkset(last.Reads[0]), mkset(last.Reads[1])), nil
}

func stallBody(c *explore.Ctx) {
	sl := c.User.(*slot)
	sc := stallCase{S1: c.Choose(4, "silent-in-round-1"), S2: c.Choose(4, "silent-in-round-2")}
	f, out, err := runStall(sl, sc)
	if err != nil {
		c.Prune()
	}
	if f != nil {
		c.Fail(f.key, f.what, sc)
	}
	c.Outcome(out)
}

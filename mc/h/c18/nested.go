package c18

import (
	"errors"
	"fmt"
	"strings"
	"sync"
	"time"

	"github.com/DistCompiler/pgo/distsys"
	"github.com/DistCompiler/pgo/distsys/resources"
	"github.com/DistCompiler/pgo/distsys/tla"
	"github.com/DistCompiler/pgo/distsys/trace"
	"verif/mc/gate2"
	"verif/mc/hres"
)

// nested.go: the nested-archetype resource (resources.NewNested) as a carrier between archetypes.  The outer
// archetype is gated as everywhere; the archetype nested in the resource (a register, one request per critical
// section, wired with NewInputChan/NewOutputChan as in systems/nestedcrdtimpl) runs on its own goroutine, started
// by the resource, and logs through its own recorder.  Outer and nested archetype strictly alternate (every
// resource operation is a request/answer exchange), so the schedule is sequential.
//
// Oracle (part d of C18, across the resource):
//   - nested -> outer: the outer attempt that read a value answered by nested attempt j carries a clock that
//     dominates the logged clock of nested attempt j;
//   - outer -> nested: the nested attempt that read the write request carrying a value written by outer attempt k
//     carries an Outer component >= k (full dominance is not achievable: the outer attempt is still in flight
//     and goes on to witness the nested archetype's answers);
//   - own components: one per logged attempt, in both logs.

type nestedProg struct {
	Name string          `json:"name"`
	Secs []gate2.Section `json:"sections"`
}

func nestedProgs() []nestedProg {
	w := func() gate2.Op { return gate2.Op{K: "w", R: "t"} }
	r := func() gate2.Op { return gate2.Op{K: "r", R: "t"} }
	return []nestedProg{
		{"write-then-read", []gate2.Section{{Ops: []gate2.Op{w()}}, {Ops: []gate2.Op{r()}}}},
		{"write-and-read-in-one-section", []gate2.Section{{Ops: []gate2.Op{w(), r()}}}},
		{"read-write-read", []gate2.Section{{Ops: []gate2.Op{r()}}, {Ops: []gate2.Op{w()}}, {Ops: []gate2.Op{r(), r()}}}},
	}
}

type lockedRecorder struct {
	mu     sync.Mutex
	events []trace.Event
}

func (l *lockedRecorder) RecordEvent(ev trace.Event) {
	ev.Elements = append([]trace.Element(nil), ev.Elements...)
	l.mu.Lock()
	l.events = append(l.events, ev)
	l.mu.Unlock()
}

func (l *lockedRecorder) snapshot() []trace.Event {
	l.mu.Lock()
	defer l.mu.Unlock()
	return append([]trace.Event(nil), l.events...)
}

// registerArchetype: a transactional register speaking the nested-resource protocol; a read is answered with a
// value that names the request ("ans<n>:<state>"), so that every answer is unique.
func registerArchetype() distsys.MPCalArchetype {
	var mu sync.Mutex
	value, pending, reqs := "reg_0", (*string)(nil), 0
	rec := func(tpe string, fields ...tla.RecordField) tla.Value {
		return tla.MakeRecord(append(fields, tla.RecordField{Key: tla.MakeString("tpe"), Value: tla.MakeString(tpe)}))
	}
	body := func(iface distsys.ArchetypeInterface) error {
		in, err := iface.RequireArchetypeResourceRef("ANested.in")
		if err != nil {
			return err
		}
		out, err := iface.RequireArchetypeResourceRef("ANested.out")
		if err != nil {
			return err
		}
		req, err := iface.Read(in, nil)
		if err != nil {
			return err
		}
		mu.Lock()
		reqs++
		var resp tla.Value
		switch req.ApplyFunction(tla.MakeString("tpe")).AsString() {
		case "read_req":
			v := value
			if pending != nil {
				v = *pending
			}
			resp = rec("read_ack", tla.RecordField{Key: tla.MakeString("value"), Value: tla.MakeString(fmt.Sprintf("ans%d:%s", reqs, v))})
		case "write_req":
			v := strOf(req.ApplyFunction(tla.MakeString("value")))
			pending = &v
			resp = rec("write_ack")
		case "precommit_req":
			resp = rec("precommit_ack")
		case "commit_req":
			if pending != nil {
				value, pending = *pending, nil
			}
			resp = rec("commit_ack")
		case "abort_req":
			pending = nil
			resp = rec("abort_ack")
		default:
			mu.Unlock()
			panic("register: unknown request " + req.String())
		}
		mu.Unlock()
		if err = iface.Write(out, nil, resp); err != nil {
			return err
		}
		return iface.Goto("ANested.loop")
	}
	return distsys.MPCalArchetype{
		Name: "ANested", Label: "ANested.loop",
		RequiredRefParams: []string{"ANested.in", "ANested.out"},
		JumpTable:         distsys.MakeMPCalJumpTable(distsys.MPCalCriticalSection{Name: "ANested.loop", Body: body}),
		ProcTable:         distsys.MakeMPCalProcTable(),
		PreAmble:          func(distsys.ArchetypeInterface) {},
	}
}

func fieldOf(v tla.Value, name string) (s string) {
	defer func() {
		if recover() != nil {
			s = ""
		}
	}()
	return strOf(v.StripVClock().ApplyFunction(tla.MakeString(name)))
}

// runNestedProg returns (outer events, nested events, failure).
func runNestedProg(p nestedProg, w int) (int, int, []*failure) {
	outerSelf := tla.MakeString(fmt.Sprintf("o%d", w))
	nestedSelf := tla.MakeString(fmt.Sprintf("n%d", w))
	nrec := &lockedRecorder{}
	res := resources.NewNested(func(sendCh chan<- tla.Value, receiveCh <-chan tla.Value) []*distsys.MPCalContext {
		return []*distsys.MPCalContext{distsys.NewMPCalContext(nestedSelf, registerArchetype(),
			distsys.EnsureArchetypeRefParam("in", resources.NewInputChan(receiveCh)),
			distsys.EnsureArchetypeRefParam("out", resources.NewOutputChan(sendCh)),
			distsys.SetTraceRecorder(nrec))}
	})
	secs := make([]gate2.Section, len(p.Secs))
	for s := range secs {
		ops := append([]gate2.Op{}, p.Secs[s].Ops...)
		for i := range ops {
			if ops[i].K == "w" {
				ops[i].V = fmt.Sprintf("tO%d%d", s, i)
			}
		}
		secs[s] = gate2.Section{Ops: ops, Next: s + 1}
		if s == len(secs)-1 {
			secs[s].Next = -1
		}
	}
	script := &gate2.Script{Prog: gate2.Program{Arch: "AOuter", Vars: []gate2.Var{{Name: "t", Ref: true}}, Sections: secs}}
	g := gate2.New(outerSelf, script.Archetype(), gate2.Options{Timeout: 90 * time.Second}, distsys.EnsureArchetypeRefParam("t", res))
	defer g.Kill()
	desc := fmt.Sprintf("outer archetype over a nested register resource: %s", p.Name)
	for i, s := range secs {
		desc += fmt.Sprintf(" s%d{", i)
		for _, o := range s.Ops {
			desc += o.String() + "; "
		}
		desc += "}"
	}
	fail := func(key, format string, args ...any) *failure {
		return &failure{key, fmt.Sprintf(format, args...) + "  | " + desc}
	}
	if st := g.Start(); st.Ended || st.Hung {
		return 0, 0, one(fail("nested-resource/start", "Run ended before the first label: %v %v", st.Err, st.Panic))
	}
	type outerEv struct {
		ev      trace.Event
		attempt int
		obs     []gate2.BodyObs
		sec     int
	}
	var outer []outerEv
	attempt := 0
	for s := 0; s < len(secs); {
		if attempt > 6*len(secs)+6 {
			return len(outer), 0, one(&failure{"env", "the nested resource keeps timing out"})
		}
		mark := len(script.Obs)
		sr := g.Step()
		attempt++
		if sr.Hung || sr.Ended || len(sr.Events) != 1 {
			return len(outer), 0, one(fail("nested-resource/run", "attempt %d: hung=%v ended=%v err=%v panic=%v events=%d", attempt, sr.Hung, sr.Ended, sr.Err, sr.Panic, len(sr.Events)))
		}
		ev := sr.Events[0]
		if own := ev.Clock.Get("AOuter", outerSelf); own != attempt {
			return len(outer), 0, one(fail("clock/own-component/nested-resource-outer", "outer event %d carries own component %d", attempt, own))
		}
		obs := append([]gate2.BodyObs(nil), script.Obs[mark:]...)
		if ev.IsAbort {
			// only a timed-out request (100 ms, fixed in the resource) may fail an attempt here
			timedOut := false
			for _, o := range obs {
				if o.Err != nil && errors.Is(o.Err, distsys.ErrCriticalSectionAborted) {
					timedOut = true
				}
			}
			if !timedOut && len(obs) < len(secs[s].Ops) {
				return len(outer), 0, one(fail("nested-resource/abort", "outer attempt %d aborted without a timed-out request", attempt))
			}
			continue // timing under load: an allowed answer; the section is retried
		}
		outer = append(outer, outerEv{ev, attempt, obs, s})
		s++
	}
	last := g.Step()
	if !last.Ended || last.Err != nil || last.Panic != nil {
		return len(outer), 0, one(fail("nested-resource/done", "Run did not end normally: %v %v", last.Err, last.Panic))
	}
	// Run's clean-up has stopped the nested context: its log is complete
	nested := nrec.snapshot()
	for j, ev := range nested {
		if own := ev.Clock.Get("ANested", nestedSelf); own != j+1 {
			return len(outer), len(nested), one(fail("clock/own-component/nested-resource-nested", "nested event %d carries own component %d", j+1, own))
		}
	}
	both := []*actor{{name: "AOuter", self: outerSelf}, {name: "ANested", self: nestedSelf}}
	var fails []*failure // both directions are judged; the first witness per key is kept
	add := func(f *failure) {
		for _, x := range fails {
			if x.key == f.key {
				return
			}
		}
		fails = append(fails, f)
	}
	// nested -> outer
	for _, oe := range outer {
		for i, o := range oe.obs {
			if o.K != "r" || o.Err != nil {
				continue
			}
			val := strOf(o.Val)
			for j, nev := range nested {
				if nev.IsAbort {
					continue
				}
				answered := false
				for _, el := range nev.Elements {
					if we, ok := el.(trace.WriteElement); ok && we.Name == "out" && fieldOf(we.Value, "value") == val {
						answered = true
					}
				}
				if !answered {
					continue
				}
				if ok, why := dominates(oe.ev.Clock, nev.Clock, both); !ok {
					add(fail("clock/not-dominating/nested-resource/nested-to-outer",
						"outer event %d (clock %v) read t = %s (operation %d of s%d), the answer sent by nested event %d whose logged clock is %v: %s", oe.attempt, oe.ev.Clock, val, i, oe.sec, j+1, nev.Clock, why))
				}
			}
		}
	}
	// outer -> nested
	firstWriter := map[string]int{}
	for _, oe := range outer {
		for _, o := range oe.obs {
			if o.K == "w" && o.Err == nil {
				if _, ok := firstWriter[strOf(o.Val)]; !ok {
					firstWriter[strOf(o.Val)] = oe.attempt
				}
			}
		}
	}
	for j, nev := range nested {
		for _, el := range nev.Elements {
			re, ok := el.(trace.ReadElement)
			if !ok || re.Name != "in" || fieldOf(re.Value, "tpe") != "write_req" {
				continue
			}
			tag := fieldOf(re.Value, "value")
			k, ok := firstWriter[tag]
			if !ok {
				continue // the request of an outer attempt that was not committed
			}
			if got := nev.Clock.Get("AOuter", outerSelf); got < k {
				add(fail("clock/not-dominating/nested-resource/outer-to-nested",
					"nested event %d (clock %v) read the request in = [tpe |-> \"write_req\", value |-> %s] sent by outer attempt %d, but its Outer component is %d", j+1, nev.Clock, tag, k, got))
			}
		}
	}
	return len(outer), len(nested), fails
}

func one(f *failure) []*failure { return []*failure{f} }

func runNestedCarrier(env hres.Env, res *hres.Result, cov map[string]any) {
	best := map[string]hres.Viol{}
	runs, oev, nev, envDiscards, unconfirmed := 0, 0, 0, 0, 0
	for _, p := range nestedProgs() {
		p := p
		o, n, fs := runNestedProg(p, 0)
		runs++
		oev += o
		nev += n
		for _, f := range fs {
			if f.key == "env" {
				envDiscards++
				continue
			}
			if _, dup := best[f.key]; dup {
				continue
			}
			ok := true
			for i := 0; i < 4; i++ {
				_, _, fs2 := runNestedProg(p, 0)
				runs++
				again := false
				for _, f2 := range fs2 {
					if f2.key == f.key {
						again = true
					}
				}
				if !again {
					ok = false
				}
			}
			if !ok {
				unconfirmed++
				continue
			}
			best[f.key] = hres.Viol{Key: f.key, What: f.what, Replay: replay{Family: "nested-resource", Nested: &p}}
		}
	}
	for _, v := range best {
		res.Violations = append(res.Violations, v)
	}
	cleanTraceFiles(&wenv{w: 0})
	cov["nested_resource"] = map[string]any{
		"what":                 "outer archetype (gated) using a resources.NewNested resource whose nested register archetype logs through its own recorder; scripted programs {write; read}, {write and read in one section}, {read; write; read read}; sequential (outer and nested strictly alternate)",
		"programs":             len(nestedProgs()),
		"runs":                 runs,
		"outer_events_judged":  oev,
		"nested_events_judged": nev,
		"discarded_env":        envDiscards,
		"unconfirmed":          unconfirmed,
		"note":                 "nested->outer is judged by full dominance; outer->nested by the writer's own component (the outer attempt is still in flight when the nested attempt ends, so full dominance is not achievable)",
	}
	_ = strings.Join
}

package c18

import (
	"fmt"
	"sort"
	"strings"
	"sync"
	"time"

	"github.com/DistCompiler/pgo/distsys"
	"github.com/DistCompiler/pgo/distsys/tla"
	"github.com/DistCompiler/pgo/distsys/trace"
	spaghetti "github.com/DistCompiler/pgo/test/files/general/ProcedureSpaghetti.tla.gotests"
	"verif/mc/gate2"
	"verif/mc/h/c04"
	"verif/mc/hres"
)

// proc.go: programs with procedures (the program family of C04, compiled to the code generator's conventions, and
// the repository's own generated ProcedureSpaghetti).  One archetype, everything is archetype-local state, so the
// log alone must be self-consistent:
//
//	(a') exactly one event per attempt, aborted iff the attempt was made to fail;
//	(b)  replaying the committed writes, per logged name and index, reproduces every logged read;
//	     every previous-value hint equals the value the log itself gives that name before the write;
//	(c)  the own clock component grows by one per logged attempt.
//
// The harness does not model what Call/Return log (frames, parameter plumbing): the oracle is the log against itself.

type procCase struct {
	Spaghetti bool      `json:"spaghetti,omitempty"` // the repository's ProcedureSpaghetti.Arch1, configured like TestArch1
	Prog      *c04.Prog `json:"prog,omitempty"`
	AbortAt   int       `json:"abort_at"` // attempt made to fail once after its last statement (-1: none)
	Text      string    `json:"text,omitempty"`
}

func renderAny(v tla.Value) string {
	v = v.StripVClock()
	return v.String()
}

func logKey(prefix, name string, idx []tla.Value) string {
	k := name
	if prefix != "" {
		k = prefix + "." + name
	}
	for _, i := range idx {
		k += "[" + renderAny(i) + "]"
	}
	return k
}

// runProcCase returns (number of events judged, failure).
func runProcCase(c procCase, w int) (int, *failure) {
	var arch distsys.MPCalArchetype
	var cfg []distsys.MPCalContextConfigFn
	refNames := map[string]bool{}
	var desc string
	if c.Spaghetti {
		arch = spaghetti.Arch1
		cfg = []distsys.MPCalContextConfigFn{
			distsys.EnsureArchetypeRefParam("e", distsys.NewLocalArchetypeResource(tla.MakeNumber(13))),
			distsys.EnsureArchetypeValueParam("f", tla.MakeNumber(21)),
		}
		refNames["Proc1.a"], refNames["Proc2.a_"], refNames["RecursiveProcRef.X"] = true, true, true
		desc = "pgo/test/files/general/ProcedureSpaghetti (generated): Arch1(ref e = 13, f = 21) calls Proc1(ref a, b) calls Proc2(ref a_)"
	} else {
		arch = c04.Compile(c.Prog, c.AbortAt, false)
		cfg = []distsys.MPCalContextConfigFn{distsys.EnsureArchetypeRefParam("e", distsys.NewLocalArchetypeResource(tla.MakeNumber(c04.EInit)))}
		refNames = c.Prog.RefParamNames()
		desc = c.Prog.Render()
		if c.AbortAt >= 0 {
			desc += fmt.Sprintf(" [attempt %d fails once after its last statement]", c.AbortAt)
		}
	}
	self := tla.MakeString(fmt.Sprintf("p%d", w))
	g := gate2.New(self, arch, gate2.Options{Timeout: 90 * time.Second}, cfg...)
	defer g.Kill()
	fail := func(key, format string, args ...any) *failure {
		return &failure{key, fmt.Sprintf(format, args...) + "  | " + desc}
	}
	if st := g.Start(); st.Ended || st.Hung {
		return 0, fail("procedures/start", "Run ended before the first label: %v %v", st.Err, st.Panic)
	}
	store := map[string]string{}
	events := 0
	for attempt := 0; attempt < 400; attempt++ {
		sr := g.Step()
		if sr.Hung {
			return events, fail("procedures/hang", "no progress for 90 s")
		}
		if sr.Ended {
			if sr.Err != nil || sr.Panic != nil {
				return events, fail("procedures/run-error", "Run ended with err=%v panic=%v (C04 territory)", sr.Err, sr.Panic)
			}
			if len(sr.Events) != 0 {
				return events, fail("events/after-done", "%d events logged for the Done pseudo-label", len(sr.Events))
			}
			return events, nil
		}
		if len(sr.Events) != 1 {
			return events, fail("events/count", "attempt %d logged %d events", attempt, len(sr.Events))
		}
		ev := sr.Events[0]
		events++
		if wantAbort := !c.Spaghetti && attempt == c.AbortAt; ev.IsAbort != wantAbort {
			return events, fail("event/is-abort", "attempt %d logged isAbort=%v, expected %v", attempt, ev.IsAbort, wantAbort)
		}
		if own := ev.Clock.Get(arch.Name, self); own != events {
			return events, fail("clock/own-component/procedures", "event %d carries own clock component %d", events, own)
		}
		tmp := map[string]string{}
		for k, v := range store {
			tmp[k] = v
		}
		for i, el := range ev.Elements {
			switch el := el.(type) {
			case trace.ReadElement:
				k := logKey(el.Prefix, el.Name, el.Indices)
				got := renderAny(el.Value)
				if want, ok := tmp[k]; ok && want != got {
					key := "replay/read-not-reproduced/procedures"
					if refNames[k] {
						key = "replay/ref-param-name-denotes-pointer-and-target"
					}
					return events, fail(key, "event %d element %d reads %s = %s, but replaying the committed writes of the log gives %s = %s: %s", events, i, k, got, k, want, renderElems(ev.Elements))
				}
				tmp[k] = got
			case trace.WriteElement:
				k := logKey(el.Prefix, el.Name, el.Indices)
				if el.OldValueHint != nil {
					hint := renderAny(*el.OldValueHint)
					if want, ok := tmp[k]; ok && want != hint {
						key := "elements/old-value/contradicts-log/procedures"
						if refNames[k] {
							key = "replay/ref-param-name-denotes-pointer-and-target"
						}
						return events, fail(key, "event %d element %d writes %s := %s with previous-value hint %s, but the log gives %s = %s before that write", events, i, k, renderAny(el.Value), hint, k, want)
					}
				}
				tmp[k] = renderAny(el.Value)
			}
		}
		if !ev.IsAbort {
			store = tmp
		}
	}
	return events, fail("procedures/too-long", "still running after 400 attempts")
}

// runProcedures enumerates the family and adds to res / cov.
func runProcedures(env hres.Env, res *hres.Result, cov map[string]any) {
	maxProcs, maxSize, depths := 2, 2, []int{1, 2}
	if env.Thorough() {
		maxSize, depths = 4, []int{0, 1, 2}
	}
	var cases []procCase
	cases = append(cases, procCase{Spaghetti: true, AbortAt: -1})
	progs, withRef := 0, 0
	c04.Enumerate(maxProcs, maxSize, func(p *c04.Prog) {
		for _, n := range depths {
			pr := *p
			pr.N = n
			steps := c04.Steps(&pr)
			if steps < 0 {
				continue
			}
			progs++
			if len(pr.RefParamNames()) > 0 {
				withRef++
			}
			cases = append(cases, procCase{Prog: &pr, AbortAt: -1})
			for k := 0; k < steps; k++ {
				cases = append(cases, procCase{Prog: &pr, AbortAt: k})
			}
		}
	})
	type found struct {
		c    procCase
		f    *failure
		size int
	}
	var mu sync.Mutex
	best := map[string]found{}
	executions, events, capped := 0, 0, false
	jobs := make(chan procCase, 64)
	var wg sync.WaitGroup
	for w := 0; w < env.Workers; w++ {
		wg.Add(1)
		go func(w int) {
			defer wg.Done()
			n := 0
			for c := range jobs {
				if time.Now().After(env.Deadline) {
					mu.Lock()
					capped = true
					mu.Unlock()
					continue
				}
				ev, f := runProcCase(c, w)
				n++
				if n%64 == 0 {
					cleanTraceFiles(&wenv{w: w})
				}
				mu.Lock()
				executions++
				events += ev
				if f != nil {
					size := 0
					if !c.Spaghetti {
						size = 1000 + len(c.Prog.Render()) + 10*c.Prog.N
						if c.AbortAt >= 0 {
							size += 5
						}
					}
					if old, ok := best[f.key]; !ok || size < old.size {
						best[f.key] = found{c, f, size}
					}
				}
				mu.Unlock()
			}
			cleanTraceFiles(&wenv{w: w})
		}(w)
	}
	for _, c := range cases {
		jobs <- c
	}
	close(jobs)
	wg.Wait()
	keys := make([]string, 0, len(best))
	for k := range best {
		keys = append(keys, k)
	}
	sort.Strings(keys)
	unconfirmedKeys := 0
	for _, k := range keys {
		b := best[k]
		ok := true
		for i := 0; i < 4; i++ {
			if _, f := runProcCase(b.c, 0); f == nil || f.key != k {
				ok = false
			}
		}
		if !ok {
			unconfirmedKeys++
			continue
		}
		c := b.c
		if c.Prog != nil {
			c.Text = c.Prog.Render()
		}
		res.Violations = append(res.Violations, hres.Viol{Key: k, What: b.f.what, Replay: replay{Family: "procedures", Proc: &c}})
	}
	cleanTraceFiles(&wenv{w: 0})
	cov["procedures"] = map[string]any{
		"what":              "the repository's generated ProcedureSpaghetti.Arch1 plus every program of C04's procedure grammar with <=max_procs procedures and <=max_size features (value and ref parameters, locals, direct/mutual recursion, tail calls), x depth argument, x {no abort, each attempt failing once}; oracle: the log against itself (one event per attempt, replay of committed writes per logged name, previous-value hints, own clock component)",
		"max_procs":         maxProcs,
		"max_size":          maxSize,
		"depth_arguments":   depths,
		"programs":          progs,
		"programs_with_ref": withRef,
		"executions":        executions,
		"events_judged":     events,
		"cap_hit":           capped,
		"unconfirmed_keys":  unconfirmedKeys,
		"sample":            strings.TrimSpace(cases[len(cases)/2].Prog.Render()),
	}
}

package c18

import (
	"errors"
	"fmt"
	"os"
	"path/filepath"
	"strings"
	"sync/atomic"
	"time"

	"github.com/DistCompiler/pgo/distsys"
	"github.com/DistCompiler/pgo/distsys/tla"
	"github.com/DistCompiler/pgo/distsys/trace"
	"verif/mc/gate2"
)

// caseSpec is one system with one program per archetype (schedule and faults are chosen while running).
type caseSpec struct {
	Sys   sysSpec           `json:"system"`
	Progs [][]gate2.Section `json:"programs"` // per archetype
}

func (c caseSpec) String() string {
	var b strings.Builder
	for _, r := range c.Sys.Res {
		fmt.Fprintf(&b, "%s:%s%v ", r.Name, r.Kind, r.Users)
	}
	for a, p := range c.Progs {
		fmt.Fprintf(&b, "| %s:", archNames[a])
		for i, s := range p {
			fmt.Fprintf(&b, " s%d{", i)
			for _, o := range s.Ops {
				b.WriteString(o.String() + "; ")
			}
			b.WriteString("}")
		}
		b.WriteString(" ")
	}
	return b.String()
}

type failure struct{ key, what string }

var selfSeq atomic.Int64

// chooser abstracts explore.Ctx so that the runner can also be driven by a fixed script.
type chooser interface {
	Choose(n int, label string) int
	Deviate(n int, label string) int
	Prune()
}

// fault: what happens to an attempt.  kind "": nothing.
type attemptFault struct {
	kind string // "" | body | op | precommit
	k    int
	res  string
}

type actor struct {
	idx    int
	name   string
	self   tla.Value
	secs   []gate2.Section
	script *gate2.Script
	g      *gate2.Gate
	sec    int // next section to run
	tries  int // attempts of the current section so far
	logged int // events logged so far
	done   bool
	store  map[string]string // replay of committed writes to archetype-local state (oracle b)
	armed  attemptFault
}

type writerRef struct {
	arch    int
	attempt int
	clock   tla.VClock
	desc    string
}

type runner struct {
	cs                   caseSpec
	env                  *wenv
	b                    *built
	actors               []*actor
	m                    model
	writers              map[string]writerRef // resource name + "|" + index + "|" + tag -> committed writer attempt
	kinds                map[string]string    // resource name -> kind
	recvCount, sentCount map[string]int       // per link: messages consumed / sent by committed sections so far
	sharedStore          map[string]string    // replay of committed writes to shared variables, all archetypes, commit order
	trail                []string
	file                 bool // file-recorder mode: events come from the PGO_TRACE_DIR log
	faultMaxOps          int  // > 0: failing attempts are only enumerated in systems with at most that many operations
	stats                *runStats
}

type runStats struct {
	events, aborted, reads, crossReads, hints, envAborts int
}

func refusable(o gate2.Op) int {
	if o.I != nil || o.S != "" {
		return 2
	}
	return 1
}

func idxKey(o gate2.Op) string {
	if o.I != nil {
		return fmt.Sprint(*o.I)
	}
	return o.S
}

func strOf(v tla.Value) (s string) {
	defer func() {
		if x := recover(); x != nil {
			s = fmt.Sprintf("<%v>", v)
		}
	}()
	return v.StripVClock().AsString()
}

// valStr renders a value of these programs: a string tag, or a sequence of tags joined by commas.
func valStr(v tla.Value) (s string) {
	defer func() {
		if x := recover(); x != nil {
			s = fmt.Sprintf("<%v>", v)
		}
	}()
	v = v.StripVClock()
	if v.IsTuple() {
		var parts []string
		it := v.AsTuple().Iterator()
		for !it.Done() {
			_, e := it.Next()
			parts = append(parts, strOf(e))
		}
		return strings.Join(parts, ",")
	}
	return v.AsString()
}

func dominates(a, b tla.VClock, actors []*actor) (bool, string) {
	for _, x := range actors {
		if a.Get(x.name, x.self) < b.Get(x.name, x.self) {
			return false, fmt.Sprintf("component (%s,%v): %d < %d", x.name, x.self, a.Get(x.name, x.self), b.Get(x.name, x.self))
		}
	}
	return true, ""
}

func newRunner(cs caseSpec, env *wenv, withFaulty bool, file bool, st *runStats) *runner {
	r := &runner{cs: cs, env: env, m: initModel(cs.Sys), writers: map[string]writerRef{}, kinds: map[string]string{}, file: file, stats: st}
	for _, rs := range cs.Sys.Res {
		r.kinds[rs.Name] = rs.Kind
	}
	if file {
		cleanTraceFiles(env) // exactly one log file per self must exist while a file-mode execution runs
	}
	r.recvCount, r.sentCount = map[string]int{}, map[string]int{}
	r.sharedStore = map[string]string{}
	for _, rs := range cs.Sys.Res {
		switch rs.Kind {
		case "shared":
			r.sharedStore[rs.Name] = r.m[rs.Name].cell
		case "sharedfn", "sharedmap":
			for k, v := range r.m[rs.Name].idx {
				r.sharedStore[rs.Name+"["+k+"]"] = v
			}
		}
	}
	r.b = buildSystem(cs.Sys, env, withFaulty)
	for a := 0; a < cs.Sys.NArch; a++ {
		secs := make([]gate2.Section, len(cs.Progs[a]))
		for s := range secs {
			ops := append([]gate2.Op{}, cs.Progs[a][s].Ops...)
			for i := range ops {
				if ops[i].K == "w" {
					ops[i].V = fmt.Sprintf("t%s%d%d", archNames[a], s, i)
				}
			}
			secs[s] = gate2.Section{Ops: ops, Next: s + 1}
			if s == len(secs)-1 {
				secs[s].Next = -1
			}
		}
		env.execs++
		selfName := fmt.Sprintf("%s%d", strings.ToLower(archNames[a]), env.w)
		if file {
			// the log file is found by its name (trace-<self>-*.log): a self that is unique per execution cannot
			// be confused with a file left behind by an earlier execution of this worker
			selfName = fmt.Sprintf("%sx%d", selfName, selfSeq.Add(1)) // process-wide counter
		}
		ac := &actor{idx: a, name: archNames[a], self: tla.MakeString(selfName), secs: secs, store: map[string]string{}}
		ac.script = &gate2.Script{Prog: gate2.Program{Arch: ac.name, Vars: r.b.vars[a], Sections: secs}}
		ac.script.ValueOf = func(o gate2.Op) (tla.Value, bool) {
			if r.kinds[o.R] == "sharedfn" && o.I == nil && o.S == "" {
				// a whole-variable write of a function-valued variable writes a new function (two fresh tags)
				return tla.MakeTuple(tla.MakeString(o.V+"a"), tla.MakeString(o.V+"b")), true
			}
			return tla.Value{}, false
		}
		ac.script.AbortAt = func(sec, op, attempt int) bool {
			return ac.armed.kind == "body" && ac.armed.k == op
		}
		ac.g = gate2.New(ac.self, ac.script.Archetype(), gate2.Options{Timeout: 90 * time.Second, NoRecorder: file}, r.b.cfg[a]...)
		// initial values of archetype-local state, for the replay oracle
		for _, rs := range cs.Sys.Res {
			if !isPrivate(rs.Kind) || rs.Users[0] != a {
				continue
			}
			if r.m[rs.Name].idx != nil {
				for k, v := range r.m[rs.Name].idx {
					ac.store[rs.Name+"["+k+"]"] = v
				}
			} else {
				ac.store[rs.Name] = r.m[rs.Name].cell
			}
		}
		ac.store[".pc"] = ac.script.Archetype().Label
		if len(secs) == 0 {
			ac.done = true
		}
		r.actors = append(r.actors, ac)
	}
	return r
}

func (r *runner) close() {
	for _, a := range r.actors {
		if a.g != nil {
			a.g.Kill()
		}
	}
	r.env.dirty++
	if r.file || r.env.dirty >= 64 {
		cleanTraceFiles(r.env)
	}
}

// cleanTraceFiles removes the log files the runtime created for this worker's contexts (every NewMPCalContext
// creates one under PGO_TRACE_DIR).  In recorder mode they are unused, so they are swept in batches.
func cleanTraceFiles(env *wenv) {
	env.dirty = 0
	dir := os.Getenv("PGO_TRACE_DIR")
	if dir == "" {
		return
	}
	ents, err := os.ReadDir(dir)
	if err != nil {
		return
	}
	w := fmt.Sprint(env.w)
	for _, e := range ents {
		n := e.Name()
		// trace-<a|b|c><worker>-<random>.log  or  trace-<a|b|c><worker>x<execution>-<random>.log
		if len(n) > 7 && strings.HasPrefix(n, "trace-") && strings.HasPrefix(n[7:], w) {
			if rest := n[7+len(w):]; len(rest) > 0 && (rest[0] == '-' || rest[0] == 'x') {
				os.Remove(filepath.Join(dir, n))
			}
		}
	}
}

// enabled: the actor's next section can read everything it reads from links (per the model).
func (r *runner) enabled(a *actor) bool {
	if a.done {
		return false
	}
	need := map[string]int{}
	for _, o := range a.secs[a.sec].Ops {
		if o.K == "r" && isLink(r.kinds[o.R]) {
			need[o.R]++
		}
	}
	for n, k := range need {
		if len(r.m[n].queue) < k {
			return false
		}
	}
	return true
}

func (r *runner) fail(key, format string, args ...any) *failure {
	return &failure{key, fmt.Sprintf(format, args...) + "  | schedule: " + strings.Join(r.trail, " ") + "  | " + r.cs.String()}
}

// expected element of one attempt
type expElem struct {
	write   bool
	prefix  string
	name    string
	idx     string // "" or rendered index
	val     string
	hint    *string // write: expected previous-value hint (nil: the resource gives none)
	res     string  // resource (variable) name, "" for .pc
	private bool
	keys    []string // writer-registry keys: for a read the values it depends on, for a write the values it creates
}

// stepActor runs one attempt of actor a (with its armed fault) and judges the logged event.
func (r *runner) stepActor(a *actor) *failure {
	label := fmt.Sprintf("%s.s%d", a.name, a.sec)
	if a.g.Parked() != label {
		return r.fail("pc/parked", "%s parked at %s, expected %s", a.name, a.g.Parked(), label)
	}
	markObs := len(a.script.Obs)
	markLog := r.b.logs[a.idx].Mark()
	sr := a.g.Step()
	a.tries++
	if sr.Hung {
		return r.fail("hang/"+label, "no progress for 90 s")
	}
	if sr.Ended {
		return r.fail("run-ended", "Run of %s ended in %s: err=%v panic=%v", a.name, label, sr.Err, sr.Panic)
	}
	var ev trace.Event
	if r.file {
		evs, err := readTraceFile(a)
		if err != nil {
			return r.fail("file/unreadable", "trace file of %s: %v", a.name, err)
		}
		if len(evs) != a.logged+1 {
			return r.fail("events/count", "after attempt %d of %s the trace file holds %d events, expected %d", a.logged+1, a.name, len(evs), a.logged+1)
		}
		ev = evs[len(evs)-1]
	} else {
		if len(sr.Events) != 1 {
			return r.fail("events/count", "attempt of %s in %s logged %d events, expected exactly one", a.name, label, len(sr.Events))
		}
		ev = sr.Events[0]
	}
	a.logged++
	r.stats.events++
	fk := a.armed.kind
	if fk == "" {
		fk = "none"
	}
	if ev.ArchetypeName != a.name || !ev.Self.Equal(a.self) {
		return r.fail("event/identity", "event of %s carries archetype %q self %v", a.name, ev.ArchetypeName, ev.Self)
	}

	// ---- what the attempt really did: body-level observations, replayed on the reference transaction
	t := r.m.clone()
	pend := map[string][]string{}
	var exp []expElem
	exp = append(exp, expElem{prefix: "", name: ".pc", val: label, private: true})
	obs := a.script.Obs[markObs:]
	sec := a.secs[a.sec]
	bodyFailed := false
	recvLocal, sentLocal := map[string]int{}, map[string]int{} // messages received / sent on each link by this attempt
	envAbort := false
	touchesTCP := false
	for _, o := range sec.Ops {
		if r.kinds[o.R] == "tcp" {
			touchesTCP = true
		}
	}
	for _, o := range obs {
		op := sec.Ops[o.Op]
		kind := r.kinds[op.R]
		if o.Err != nil {
			if a.armed.kind == "op" && a.armed.res == op.R && errors.Is(o.Err, distsys.ErrCriticalSectionAborted) {
				bodyFailed = true
				continue
			}
			if kind == "tcp" && errors.Is(o.Err, distsys.ErrCriticalSectionAborted) {
				// a network operation may time out or fail and abort the section: an allowed answer (DESIGN 2.7-2);
				// the attempt is then judged as the aborted attempt it is
				bodyFailed = true
				envAbort = true
				continue
			}
			return r.fail("op/unexpected-error", "%s op %d (%s) returned %v", label, o.Op, op, o.Err)
		}
		e := expElem{prefix: a.name, name: op.R, idx: idxKey(op), res: op.R, private: isPrivate(kind)}
		mr := t[op.R]
		if o.K == "r" {
			var want string
			switch {
			case isLink(kind):
				if len(mr.queue) == 0 {
					return r.fail("link/read-from-empty", "%s read %v from %s although no committed message is pending", label, o.Val, op.R)
				}
				want = mr.queue[0]
				mr.queue = mr.queue[1:]
				// links are FIFO: the k-th value received was sent by whoever committed the k-th send (a relay can
				// put the same tag on a link twice, so the tag alone does not identify the sender)
				e.keys = []string{fmt.Sprintf("%s#%d", op.R, r.recvCount[op.R]+recvLocal[op.R])}
				recvLocal[op.R]++
			case mr.idx != nil && idxKey(op) == "":
				// the whole function-valued variable
				want = mr.idx["1"] + "," + mr.idx["2"]
				e.keys = []string{op.R + "|1|" + mr.idx["1"], op.R + "|2|" + mr.idx["2"]}
			case mr.idx != nil:
				want = mr.idx[idxKey(op)]
			default:
				want = mr.cell
			}
			got := valStr(o.Val)
			if got != want {
				return r.fail("harness/read-mismatch/"+kind, "%s op %d (%s) returned %s, the reference gives %s (C01 territory; the trace oracle needs a correct execution)", label, o.Op, op, got, want)
			}
			e.val = got
		} else {
			e.write = true
			e.val = valStr(o.Val)
			switch {
			case isLink(kind):
				pend[op.R] = append(pend[op.R], e.val)
				e.keys = []string{fmt.Sprintf("%s#%d", op.R, r.sentCount[op.R]+sentLocal[op.R])}
				sentLocal[op.R]++
			case mr.idx != nil && idxKey(op) == "":
				old := mr.idx["1"] + "," + mr.idx["2"]
				e.hint = &old
				parts := strings.SplitN(e.val, ",", 2)
				if len(parts) != 2 {
					return r.fail("harness/whole-write", "%s op %d wrote %s to a function-valued variable", label, o.Op, e.val)
				}
				mr.idx["1"], mr.idx["2"] = parts[0], parts[1]
				e.keys = []string{op.R + "|1|" + parts[0], op.R + "|2|" + parts[1]}
			case mr.idx != nil:
				old := mr.idx[idxKey(op)]
				e.hint = &old
				mr.idx[idxKey(op)] = e.val
			default:
				old := mr.cell
				e.hint = &old
				mr.cell = e.val
			}
		}
		if e.keys == nil {
			e.keys = []string{e.res + "|" + e.idx + "|" + e.val}
		}
		exp = append(exp, e)
	}
	completed := len(obs) == len(sec.Ops) && !bodyFailed && a.armed.kind != "body"
	next := fmt.Sprintf("%s.s%d", a.name, a.sec+1)
	if a.sec == len(a.secs)-1 {
		next = a.name + ".Done"
	}
	if completed {
		old := label
		exp = append(exp, expElem{write: true, name: ".pc", val: next, hint: &old, private: true})
	}
	wantAbort := a.armed.kind != ""
	if !wantAbort && ev.IsAbort && (envAbort || touchesTCP) {
		// the body or the pre-commit handshake of a TCP mailbox failed for environmental reasons
		wantAbort = true
		fk = "env"
		r.stats.envAborts++
	}
	if ev.IsAbort != wantAbort {
		return r.fail("event/is-abort/"+fk, "attempt of %s (%s, fault %s) logged isAbort=%v, but the attempt %s", a.name, label, fk, ev.IsAbort, map[bool]string{true: "failed", false: "committed"}[wantAbort])
	}
	if ev.IsAbort {
		r.stats.aborted++
	}

	// ---- (a) elements = exactly the reads and writes performed
	if len(ev.Elements) != len(exp) {
		return r.fail("elements/count/"+fk, "event %d of %s (%s) has %d elements, the attempt performed %d operations: logged %s, performed %s", a.logged, a.name, label, len(ev.Elements), len(exp), renderElems(ev.Elements), renderExp(exp))
	}
	for i, e := range exp {
		switch el := ev.Elements[i].(type) {
		case trace.ReadElement:
			if e.write {
				return r.fail("elements/kind", "event %d of %s element %d is a read, the attempt performed %s", a.logged, a.name, i, renderExp(exp[i:i+1]))
			}
			if el.Prefix != e.prefix || el.Name != e.name {
				return r.fail("elements/name", "event %d of %s element %d names %s.%s, the attempt read %s.%s", a.logged, a.name, i, el.Prefix, el.Name, e.prefix, e.name)
			}
			if renderIdx(el.Indices) != e.idx {
				return r.fail("elements/indices", "event %d of %s element %d has indices %s, the attempt used [%s]", a.logged, a.name, i, renderIdx(el.Indices), e.idx)
			}
			if valStr(el.Value) != e.val {
				return r.fail("elements/value/read", "event %d of %s element %d (%s.%s) logs value %v, the attempt read %s", a.logged, a.name, i, e.prefix, e.name, el.Value, e.val)
			}
			r.stats.reads++
		case trace.WriteElement:
			if !e.write {
				return r.fail("elements/kind", "event %d of %s element %d is a write, the attempt performed %s", a.logged, a.name, i, renderExp(exp[i:i+1]))
			}
			if el.Prefix != e.prefix || el.Name != e.name {
				return r.fail("elements/name", "event %d of %s element %d names %s.%s, the attempt wrote %s.%s", a.logged, a.name, i, el.Prefix, el.Name, e.prefix, e.name)
			}
			if renderIdx(el.Indices) != e.idx {
				return r.fail("elements/indices", "event %d of %s element %d has indices %s, the attempt used [%s]", a.logged, a.name, i, renderIdx(el.Indices), e.idx)
			}
			if valStr(el.Value) != e.val {
				return r.fail("elements/value/write", "event %d of %s element %d (%s.%s) logs value %v, the attempt wrote %s", a.logged, a.name, i, e.prefix, e.name, el.Value, e.val)
			}
			if e.hint != nil {
				kind := "pc"
				if e.res != "" {
					kind = r.kinds[e.res]
				}
				if el.OldValueHint == nil {
					return r.fail("elements/old-value/missing/"+kind, "event %d of %s element %d (%s.%s := %s) has no previous-value hint; the value before the write was %s", a.logged, a.name, i, e.prefix, e.name, e.val, *e.hint)
				}
				if valStr(*el.OldValueHint) != *e.hint {
					return r.fail("elements/old-value/wrong/"+kind, "event %d of %s element %d (%s.%s := %s) hints previous value %v; the value before the write within the attempt was %s", a.logged, a.name, i, e.prefix, e.name, e.val, *el.OldValueHint, *e.hint)
				}
				r.stats.hints++
			} else if el.OldValueHint != nil {
				return r.fail("elements/old-value/unexpected", "event %d of %s element %d (%s.%s) carries a previous-value hint %v for a resource that is not a state variable", a.logged, a.name, i, e.prefix, e.name, *el.OldValueHint)
			}
		default:
			return r.fail("elements/kind", "event %d of %s element %d has unknown type %T", a.logged, a.name, i, el)
		}
	}
	// ground truth of the wrapped resources: every read/write that reached a resource, and nothing else
	var truth []gate2.OpRec
	for _, rec := range r.b.logs[a.idx].Since(markLog) {
		if (rec.Op == "read" || rec.Op == "write") && rec.Err == nil {
			truth = append(truth, rec)
		}
	}
	ti := 0
	for _, e := range exp {
		if e.res == "" || !r.b.wrapped[a.idx][e.res] {
			continue
		}
		if ti >= len(truth) {
			return r.fail("elements/not-performed", "event %d of %s logs %s but the resource never saw that operation (%d operations reached wrapped resources)", a.logged, a.name, renderExp([]expElem{e}), len(truth))
		}
		tr := truth[ti]
		ti++
		if tr.Res != e.res || (tr.Op == "write") != e.write || renderIdx(tr.Path) != e.idx || strOf(tr.Val) != e.val {
			return r.fail("elements/differs-from-resource", "event %d of %s logs %s, the resource saw %s", a.logged, a.name, renderExp([]expElem{e}), tr)
		}
	}
	if ti != len(truth) {
		return r.fail("elements/unlogged-operation", "the resources of %s saw %d reads/writes in %s, the event logs %d of them", a.name, len(truth), label, ti)
	}

	// ---- (b) replaying committed writes reproduces every logged read: of archetype-local state from the
	// archetype's own log, and of shared variables from all logs merged in commit order (attempts are serialised
	// by the driver and a shared variable is locked for the whole section, so that order is the serial order)
	tmp := map[string]string{}
	for k, v := range a.store {
		tmp[k] = v
	}
	tmpSh := map[string]string{}
	for k, v := range r.sharedStore {
		tmpSh[k] = v
	}
	isSharedVar := func(res string) bool {
		k := r.kinds[res]
		return k == "shared" || k == "sharedfn" || k == "sharedmap"
	}
	for i, el := range ev.Elements {
		var name string
		var indices []tla.Value
		var val tla.Value
		write := false
		switch el := el.(type) {
		case trace.ReadElement:
			name, indices, val = el.Name, el.Indices, el.Value
		case trace.WriteElement:
			name, indices, val, write = el.Name, el.Indices, el.Value, true
		}
		var store map[string]string
		switch {
		case exp[i].private:
			store = tmp
		case isSharedVar(exp[i].res):
			store = tmpSh
		default:
			continue
		}
		idx := renderIdx(indices)
		keys := []string{name}
		vals := []string{valStr(val)}
		if idx != "" {
			keys = []string{name + "[" + idx + "]"}
		} else if r.kinds[exp[i].res] == "sharedfn" {
			// whole access to the function-valued variable = access to both of its elements
			keys = []string{name + "[1]", name + "[2]"}
			vals = strings.SplitN(valStr(val), ",", 2)
			if len(vals) != 2 {
				return r.fail("replay/shape", "event %d of %s element %d logs %v for the function-valued variable %s", a.logged, a.name, i, val, name)
			}
		}
		for j, key := range keys {
			if write {
				store[key] = vals[j]
			} else if want, ok := store[key]; ok && vals[j] != want {
				which := "replay/read-not-reproduced"
				if !exp[i].private {
					which = "replay/shared-read-not-reproduced"
				}
				return r.fail(which, "event %d of %s element %d reads %s = %s, replaying the committed writes of the log(s) gives %s", a.logged, a.name, i, key, vals[j], want)
			}
		}
	}
	if !ev.IsAbort {
		a.store = tmp
		r.sharedStore = tmpSh
	}

	// ---- (c) own component grows by one per logged attempt
	if own := ev.Clock.Get(a.name, a.self); own != a.logged {
		return r.fail("clock/own-component/"+fk, "event %d of %s carries own clock component %d (clock %v)", a.logged, a.name, own, ev.Clock)
	}

	// ---- (d) the clock dominates the clock of the writer of every value read
	for i, e := range exp {
		if e.write || e.res == "" {
			continue
		}
		for _, key := range e.keys {
			w, ok := r.writers[key]
			if !ok {
				continue // an initial value
			}
			if w.arch != a.idx {
				r.stats.crossReads++
			}
			if ok, why := dominates(ev.Clock, w.clock, r.actors); !ok {
				via := r.kinds[e.res]
				if via == "sharedfn" {
					if e.idx == "" {
						via += "-whole"
					} else {
						via += "-indexed"
					}
				}
				scope := "cross-archetype"
				if w.arch == a.idx {
					scope = "same-archetype"
				}
				return r.fail("clock/not-dominating/"+via+"/"+scope, "event %d of %s (clock %v) read %s[%s] = %s (element %d), which contains %s written by %s whose logged clock is %v: %s", a.logged, a.name, ev.Clock, e.res, e.idx, e.val, i, key, w.desc, w.clock, why)
			}
		}
	}

	// ---- bookkeeping
	if ev.IsAbort {
		r.trail = append(r.trail, fmt.Sprintf("%s.s%d!%s", a.name, a.sec, fk))
		a.armed = attemptFault{}
		for _, p := range r.b.plans[a.idx] {
			p.RefuseOp, p.RefusePreCommit = -1, -1
		}
		return nil
	}
	r.trail = append(r.trail, fmt.Sprintf("%s.s%d", a.name, a.sec))
	for n, msgs := range pend {
		t[n].queue = append(t[n].queue, msgs...)
	}
	for n, k := range recvLocal {
		r.recvCount[n] += k
	}
	for n, k := range sentLocal {
		r.sentCount[n] += k
	}
	r.m = t
	for _, e := range exp {
		if e.write && e.res != "" {
			for _, key := range e.keys {
				r.writers[key] = writerRef{arch: a.idx, attempt: a.logged, clock: ev.Clock, desc: fmt.Sprintf("event %d of %s (%s)", a.logged, a.name, label)}
			}
		}
	}
	a.sec++
	a.tries = 0
	if a.sec == len(a.secs) {
		a.done = true // parked at Done; Run is let go only when every archetype is through (see finish)
	}
	return nil
}

// finish lets every archetype take its Done pseudo-label.  This happens only after all sections of all archetypes
// have run: a terminated archetype closes its mailboxes, and a peer still sending to it would see network errors.
func (r *runner) finish() *failure {
	for _, a := range r.actors {
		if a.g.Ended() {
			continue
		}
		last := a.g.Step()
		if !last.Ended || last.Err != nil || last.Panic != nil {
			return r.fail("done/not-ended", "Run of %s did not end normally at Done: err=%v panic=%v", a.name, last.Err, last.Panic)
		}
		if !r.file && len(last.Events) != 0 {
			return r.fail("events/after-done", "%d events logged for the Done pseudo-label of %s", len(last.Events), a.name)
		}
		if r.file {
			evs, err := readTraceFile(a)
			if err != nil {
				return r.fail("file/unreadable", "trace file of %s: %v", a.name, err)
			}
			if len(evs) != a.logged {
				return r.fail("events/count", "the trace file of %s holds %d events at the end, %d attempts were made", a.name, len(evs), a.logged)
			}
		}
	}
	return nil
}

func renderIdx(idx []tla.Value) string {
	var parts []string
	for _, i := range idx {
		if i.StripVClock().IsNumber() {
			parts = append(parts, fmt.Sprint(i.StripVClock().AsNumber()))
		} else {
			parts = append(parts, strOf(i))
		}
	}
	return strings.Join(parts, ",")
}

func renderElems(es []trace.Element) string {
	var parts []string
	for _, e := range es {
		switch e := e.(type) {
		case trace.ReadElement:
			parts = append(parts, fmt.Sprintf("read %s.%s[%s]=%v", e.Prefix, e.Name, renderIdx(e.Indices), e.Value))
		case trace.WriteElement:
			parts = append(parts, fmt.Sprintf("write %s.%s[%s]:=%v", e.Prefix, e.Name, renderIdx(e.Indices), e.Value))
		}
	}
	return "[" + strings.Join(parts, "; ") + "]"
}

func renderExp(es []expElem) string {
	var parts []string
	for _, e := range es {
		k := "read"
		if e.write {
			k = "write"
		}
		parts = append(parts, fmt.Sprintf("%s %s.%s[%s] %s", k, e.prefix, e.name, e.idx, e.val))
	}
	return "[" + strings.Join(parts, "; ") + "]"
}

// arm installs the fault for the next attempt of a.
func (r *runner) arm(a *actor, f attemptFault) {
	a.armed = f
	if f.kind == "op" || f.kind == "precommit" {
		p := r.b.plans[a.idx][f.res]
		ops, pcs := p.Ops()
		if f.kind == "op" {
			p.RefuseOp = ops + f.k
		} else {
			p.RefusePreCommit = pcs
		}
	}
}

// faultsOf lists the faults applicable to the next attempt of a.
func (r *runner) faultsOf(a *actor, bodyOnly bool) []attemptFault {
	sec := a.secs[a.sec]
	var out []attemptFault
	for k := 0; k <= len(sec.Ops); k++ {
		out = append(out, attemptFault{kind: "body", k: k})
	}
	if bodyOnly {
		return out
	}
	seen := map[string]int{}
	var order []string
	for _, o := range sec.Ops {
		if _, ok := r.b.plans[a.idx][o.R]; !ok {
			continue
		}
		if _, ok := seen[o.R]; !ok {
			order = append(order, o.R)
		}
		seen[o.R] += refusable(o)
	}
	for _, n := range order {
		for k := 0; k < seen[n]; k++ {
			out = append(out, attemptFault{kind: "op", k: k, res: n})
		}
		out = append(out, attemptFault{kind: "precommit", res: n})
	}
	return out
}

// run drives the whole system: at every point any enabled archetype may take its next attempt; the first
// attempt of a section may be made to fail (one fault per execution: explore's deviation budget).
func (r *runner) run(c chooser, bodyOnly bool) (string, *failure) {
	totalOps := 0
	for _, a := range r.actors {
		for _, s := range a.secs {
			totalOps += len(s.Ops)
		}
	}
	faults := r.faultMaxOps == 0 || totalOps <= r.faultMaxOps
	for _, a := range r.actors {
		if st := a.g.Start(); st.Ended || st.Hung {
			return "", r.fail("start/failed", "Run of %s ended before its first label: err=%v panic=%v", a.name, st.Err, st.Panic)
		}
	}
	for {
		var en []*actor
		alive := 0
		for _, a := range r.actors {
			if !a.done {
				alive++
			}
			if r.enabled(a) {
				en = append(en, a)
			}
		}
		if alive == 0 {
			break
		}
		if len(en) == 0 {
			c.Prune() // a reader waits for a message nobody will send: the program is not schedulable to the end
		}
		a := en[0]
		if len(en) > 1 {
			a = en[c.Choose(len(en), "next")]
		}
		if a.tries > 6 {
			panic(envProblem{"a section keeps aborting for environmental reasons (network)"})
		}
		if a.tries == 0 && faults {
			fs := r.faultsOf(a, bodyOnly)
			if k := c.Deviate(len(fs)+1, "fault"); k > 0 {
				r.arm(a, fs[k-1])
			}
		}
		if fl := r.stepActor(a); fl != nil {
			return "", fl
		}
	}
	if fl := r.finish(); fl != nil {
		return "", fl
	}
	return r.m.render(), nil
}

package c18

import (
	"bufio"
	"encoding/json"
	"fmt"
	"os"
	"path/filepath"
	"strconv"

	"github.com/DistCompiler/pgo/distsys/tla"
	"github.com/DistCompiler/pgo/distsys/trace"
)

// jsonlog.go: reads the log file the context's own recorder writes under PGO_TRACE_DIR and turns every line
// back into a trace.Event, so that the same oracle judges what actually reaches the disk.

type jsonName struct {
	Prefix string `json:"prefix"`
	Name   string `json:"name"`
	Self   string `json:"self"`
}

type jsonElem struct {
	Tag      string   `json:"tag"`
	Name     jsonName `json:"name"`
	Indices  []string `json:"indices"`
	Value    string   `json:"value"`
	OldValue *string  `json:"oldValue"`
}

type jsonEvent struct {
	ArchetypeName string            `json:"archetypeName"`
	Self          string            `json:"self"`
	Elements      []jsonElem        `json:"csElements"`
	Clock         []json.RawMessage `json:"clock"`
	IsAbort       bool              `json:"isAbort"`
}

// parseTLA parses the renderings that occur in these programs: quoted strings and integers.
func parseTLA(s string) (tla.Value, error) {
	if len(s) > 0 && s[0] == '"' {
		u, err := strconv.Unquote(s)
		if err != nil {
			return tla.Value{}, err
		}
		return tla.MakeString(u), nil
	}
	if s == "defaultInitValue" {
		return tla.Value{}, nil
	}
	n, err := strconv.Atoi(s)
	if err != nil {
		return tla.Value{}, fmt.Errorf("unexpected value rendering %q", s)
	}
	return tla.MakeNumber(int32(n)), nil
}

func readTraceFile(a *actor) ([]trace.Event, error) {
	dir := os.Getenv("PGO_TRACE_DIR")
	ms, _ := filepath.Glob(filepath.Join(dir, "trace-"+strOf(a.self)+"-*.log"))
	// listing a directory that other workers create and remove files in at the same time may return an entry twice
	seenName := map[string]bool{}
	uniq := ms[:0]
	for _, m := range ms {
		if !seenName[m] {
			seenName[m] = true
			uniq = append(uniq, m)
		}
	}
	ms = uniq
	if len(ms) != 1 {
		// diagnostic detail: which files, how big, how they start
		detail := ""
		for _, m := range ms {
			b, _ := os.ReadFile(m)
			head := string(b)
			if len(head) > 160 {
				head = head[:160]
			}
			detail += fmt.Sprintf(" [%s: %d bytes: %s]", filepath.Base(m), len(b), head)
		}
		return nil, fmt.Errorf("%d log files for self %v:%s", len(ms), a.self, detail)
	}
	f, err := os.Open(ms[0])
	if err != nil {
		return nil, err
	}
	defer f.Close()
	var out []trace.Event
	sc := bufio.NewScanner(f)
	sc.Buffer(make([]byte, 1<<20), 1<<20)
	for sc.Scan() {
		var je jsonEvent
		if err := json.Unmarshal(sc.Bytes(), &je); err != nil {
			return nil, fmt.Errorf("line %d is not JSON: %v", len(out)+1, err)
		}
		self, err := parseTLA(je.Self)
		if err != nil {
			return nil, err
		}
		ev := trace.Event{ArchetypeName: je.ArchetypeName, Self: self, IsAbort: je.IsAbort}
		for _, el := range je.Elements {
			if el.Name.Self != je.Self {
				return nil, fmt.Errorf("element self %s differs from event self %s", el.Name.Self, je.Self)
			}
			var idx []tla.Value
			for _, i := range el.Indices {
				v, err := parseTLA(i)
				if err != nil {
					return nil, err
				}
				idx = append(idx, v)
			}
			v, err := parseTLA(el.Value)
			if err != nil {
				return nil, err
			}
			switch el.Tag {
			case "read":
				ev.Elements = append(ev.Elements, trace.ReadElement{Prefix: el.Name.Prefix, Name: el.Name.Name, Indices: idx, Value: v})
			case "write":
				we := trace.WriteElement{Prefix: el.Name.Prefix, Name: el.Name.Name, Indices: idx, Value: v}
				if el.OldValue != nil {
					ov, err := parseTLA(*el.OldValue)
					if err != nil {
						return nil, err
					}
					we.OldValueHint = &ov
				}
				ev.Elements = append(ev.Elements, we)
			default:
				return nil, fmt.Errorf("unknown element tag %q", el.Tag)
			}
		}
		// clock: [[[archetype, self], n], ...]
		var clk tla.VClock
		for _, raw := range je.Clock {
			var pair []json.RawMessage
			if err := json.Unmarshal(raw, &pair); err != nil || len(pair) != 2 {
				return nil, fmt.Errorf("bad clock entry %s", raw)
			}
			var key []string
			var n int
			if err := json.Unmarshal(pair[0], &key); err != nil || len(key) != 2 {
				return nil, fmt.Errorf("bad clock key %s", pair[0])
			}
			if err := json.Unmarshal(pair[1], &n); err != nil {
				return nil, fmt.Errorf("bad clock count %s", pair[1])
			}
			ks, err := parseTLA(key[1])
			if err != nil {
				return nil, err
			}
			for i := 0; i < n; i++ {
				clk = clk.Inc(key[0], ks)
			}
		}
		ev.Clock = clk
		out = append(out, ev)
	}
	return out, sc.Err()
}

// C18: execution traces are faithful and causally consistent.
//
// sys.go: systems of 1-3 scripted archetypes, the resources between them, and the reference model.
package c18

import (
	"fmt"
	"net"
	"sort"
	"strings"
	"time"

	"github.com/DistCompiler/pgo/distsys"
	"github.com/DistCompiler/pgo/distsys/hashmap"
	"github.com/DistCompiler/pgo/distsys/resources"
	"github.com/DistCompiler/pgo/distsys/tla"
	"verif/mc/gate2"
)

// resSpec is one resource of a system.
//
//	private kinds (Users = [owner]):  local | ilocal | reflocal | incmap | hashmap
//	shared (Users = all users):      shared   (resources.LocalSharedManager, one handle per user, behind Logging)
//	                                  sharedfn (function-valued LocalShared variable bound WITHOUT any wrapper: whole and
//	                                           indexed access, the latter through localShared.Index -> sub-resource)
//	                                  sharedmap (per-user IncMap, bound without wrapper, whose elements are handles
//	                                           of LocalShared variables common to all users)
//	links (Users = [writer, reader]): chan (OutputChan -> Go channel -> InputChan) | tcp (TCP mailbox on loopback)
//	                                  | single-output-chan (SingleOutputChan -> Go channel -> InputChan: the value is
//	                                    on the channel as soon as it is written; a section that sent cannot abort)
type resSpec struct {
	Name  string `json:"name"`
	Kind  string `json:"kind"`
	Users []int  `json:"users"`
}

type sysSpec struct {
	NArch int       `json:"archetypes"`
	Res   []resSpec `json:"resources"`
}

var archNames = []string{"A", "B", "C"}

func isLink(kind string) bool { return kind == "chan" || kind == "tcp" || kind == "single-output-chan" }

// base strips the "-raw" suffix: a "-raw" kind is the same resource bound without Logging/Faulty wrappers.
func base(kind string) string { return strings.TrimSuffix(kind, "-raw") }

func isPrivate(kind string) bool {
	switch base(kind) {
	case "local", "ilocal", "reflocal", "incmap", "hashmap":
		return true
	}
	return false
}

// hintKinds: resources whose writes deliver a previous-value hint (they bottom out in a local state variable).
func givesHint(kind string) bool {
	return isPrivate(kind) || kind == "shared" || kind == "sharedfn" || kind == "sharedmap"
}

func intp(i int) *int { return &i }

// menu lists the operations archetype a may apply to resource r.
func menu(r resSpec, a int) []gate2.Op {
	n := r.Name
	switch base(r.Kind) {
	case "local", "reflocal", "shared":
		return []gate2.Op{{K: "r", R: n}, {K: "w", R: n}}
	case "ilocal", "incmap":
		return []gate2.Op{{K: "r", R: n, I: intp(1)}, {K: "w", R: n, I: intp(1)}, {K: "w", R: n, I: intp(2)}}
	case "hashmap":
		return []gate2.Op{{K: "r", R: n, I: intp(1)}, {K: "w", R: n, I: intp(1)}}
	case "sharedfn":
		return []gate2.Op{{K: "r", R: n, I: intp(1)}, {K: "w", R: n, I: intp(1)}, {K: "w", R: n, I: intp(2)}, {K: "r", R: n}, {K: "w", R: n}}
	case "sharedmap":
		return []gate2.Op{{K: "r", R: n, I: intp(1)}, {K: "w", R: n, I: intp(1)}, {K: "w", R: n, I: intp(2)}}
	case "chan":
		if r.Users[0] == a {
			return []gate2.Op{{K: "w", R: n}, {K: "f", R: n}}
		}
		return []gate2.Op{{K: "r", R: n}}
	case "single-output-chan":
		if r.Users[0] == a {
			return []gate2.Op{{K: "w", R: n}}
		}
		return []gate2.Op{{K: "r", R: n}}
	case "tcp":
		if r.Users[0] == a {
			return []gate2.Op{{K: "w", R: n, I: intp(1)}, {K: "f", R: n, I: intp(1)}}
		}
		return []gate2.Op{{K: "r", R: n, I: intp(1)}}
	}
	panic("c18: kind " + r.Kind)
}

// ---------------------------------------------------------------------------------------------------
// reference model

type mres struct {
	cell  string
	idx   map[string]string
	queue []string // links: committed, not yet consumed messages
}

func (m *mres) clone() *mres {
	c := &mres{cell: m.cell, queue: append([]string(nil), m.queue...)}
	if m.idx != nil {
		c.idx = map[string]string{}
		for k, v := range m.idx {
			c.idx[k] = v
		}
	}
	return c
}

type model map[string]*mres

func (m model) clone() model {
	c := model{}
	for k, v := range m {
		c[k] = v.clone()
	}
	return c
}

func (m model) render() string {
	ks := make([]string, 0, len(m))
	for k := range m {
		ks = append(ks, k)
	}
	sort.Strings(ks)
	var b strings.Builder
	for _, k := range ks {
		r := m[k]
		b.WriteString(k + ":")
		if r.idx != nil {
			is := make([]string, 0, len(r.idx))
			for i := range r.idx {
				is = append(is, i)
			}
			sort.Strings(is)
			for _, i := range is {
				b.WriteString(i + "=" + r.idx[i] + ",")
			}
		} else {
			b.WriteString(r.cell)
		}
		if len(r.queue) > 0 {
			b.WriteString("q[" + strings.Join(r.queue, ",") + "]")
		}
		b.WriteString(" ")
	}
	return b.String()
}

func initModel(sys sysSpec) model {
	m := model{}
	for _, r := range sys.Res {
		switch base(r.Kind) {
		case "local", "reflocal", "shared":
			m[r.Name] = &mres{cell: r.Name + "_0"}
		case "ilocal", "incmap", "hashmap", "sharedfn", "sharedmap":
			m[r.Name] = &mres{idx: map[string]string{"1": r.Name + "_1_0", "2": r.Name + "_2_0"}}
		default:
			m[r.Name] = &mres{}
		}
	}
	return m
}

// ---------------------------------------------------------------------------------------------------
// real resources

type wenv struct {
	w        int
	portBase int
	portNext int
	execs    int
	dirty    int // executions since the last sweep of this worker's trace files
	guard    int // executions since start (descriptor guard)
}

func (e *wenv) port() int {
	for i := 0; i < 2000; i++ {
		p := e.portBase + e.portNext%1000
		e.portNext++
		l, err := net.Listen("tcp", fmt.Sprintf("127.0.0.1:%d", p))
		if err == nil {
			l.Close()
			return p
		}
	}
	panic("c18: no free port")
}

// built is what one execution needs to know about the real resources.
type built struct {
	vars    [][]gate2.Var                    // per archetype
	cfg     [][]distsys.MPCalContextConfigFn // per archetype
	logs    []*gate2.Log                     // per archetype: ground truth of operations that reached wrapped resources
	plans   []map[string]*gate2.FaultPlan    // per archetype, per variable
	wrapped []map[string]bool                // per archetype: variables bound through Logging wrappers
}

func buildSystem(sys sysSpec, env *wenv, withFaulty bool) *built {
	b := &built{}
	for a := 0; a < sys.NArch; a++ {
		b.vars = append(b.vars, nil)
		b.cfg = append(b.cfg, nil)
		b.logs = append(b.logs, &gate2.Log{})
		b.plans = append(b.plans, map[string]*gate2.FaultPlan{})
		b.wrapped = append(b.wrapped, map[string]bool{})
	}
	bind := func(a int, name string, res distsys.ArchetypeResource) {
		var r distsys.ArchetypeResource = gate2.NewLogging(name, res, b.logs[a])
		if withFaulty {
			p := gate2.NoFault()
			b.plans[a][name] = p
			r = gate2.NewFaulty(r, p)
		}
		b.wrapped[a][name] = true
		b.vars[a] = append(b.vars[a], gate2.Var{Name: name, Ref: true})
		b.cfg[a] = append(b.cfg[a], distsys.EnsureArchetypeRefParam(name, r))
	}
	// bindRaw binds a resource exactly as an application would: no Logging, no Faulty.  The runtime picks code paths
	// by the dynamic type of what Index/the handle yields, and a wrapper would hide the real types from it.
	bindRaw := func(a int, name string, res distsys.ArchetypeResource) {
		b.vars[a] = append(b.vars[a], gate2.Var{Name: name, Ref: true})
		b.cfg[a] = append(b.cfg[a], distsys.EnsureArchetypeRefParam(name, res))
	}
	wrapped := bind
	for _, r := range sys.Res {
		n := r.Name
		bind = wrapped
		if strings.HasSuffix(r.Kind, "-raw") {
			bind = bindRaw
		}
		switch base(r.Kind) {
		case "sharedfn":
			mgr := resources.NewLocalSharedManager(tla.MakeTuple(tla.MakeString(n+"_1_0"), tla.MakeString(n+"_2_0")), resources.WithLocalSharedResourceTimeout(20*time.Second))
			for _, a := range r.Users {
				bindRaw(a, n, mgr.MakeLocalShared())
			}
		case "sharedmap":
			mgrs := map[int32]*resources.LocalSharedManager{}
			for _, k := range []int32{1, 2} {
				mgrs[k] = resources.NewLocalSharedManager(tla.MakeString(fmt.Sprintf("%s_%d_0", n, k)), resources.WithLocalSharedResourceTimeout(20*time.Second))
			}
			for _, a := range r.Users {
				bindRaw(a, n, resources.NewIncMap(func(index tla.Value) distsys.ArchetypeResource {
					return mgrs[index.AsNumber()].MakeLocalShared()
				}))
			}
		case "local":
			a := r.Users[0]
			b.vars[a] = append(b.vars[a], gate2.Var{Name: n, Init: tla.MakeString(n + "_0")})
		case "ilocal":
			a := r.Users[0]
			b.vars[a] = append(b.vars[a], gate2.Var{Name: n, Init: tla.MakeTuple(tla.MakeString(n+"_1_0"), tla.MakeString(n+"_2_0"))})
		case "reflocal":
			bind(r.Users[0], n, distsys.NewLocalArchetypeResource(tla.MakeString(n+"_0")))
		case "incmap":
			bind(r.Users[0], n, resources.NewIncMap(func(index tla.Value) distsys.ArchetypeResource {
				return distsys.NewLocalArchetypeResource(tla.MakeString(fmt.Sprintf("%s_%d_0", n, index.AsNumber())))
			}))
		case "hashmap":
			hm := hashmap.New[distsys.ArchetypeResource]()
			for _, k := range []int{1, 2} {
				hm.Set(tla.MakeNumber(int32(k)), distsys.NewLocalArchetypeResource(tla.MakeString(fmt.Sprintf("%s_%d_0", n, k))))
			}
			bind(r.Users[0], n, resources.NewHashMap(hm))
		case "shared":
			mgr := resources.NewLocalSharedManager(tla.MakeString(n+"_0"), resources.WithLocalSharedResourceTimeout(20*time.Second))
			for _, a := range r.Users {
				bind(a, n, mgr.MakeLocalShared())
			}
		case "chan":
			ch := make(chan tla.Value, 16)
			bind(r.Users[0], n, resources.NewOutputChan(ch))
			bind(r.Users[1], n, resources.NewInputChan(ch, resources.WithInputChanReadTimeout(20*time.Second)))
		case "single-output-chan":
			ch := make(chan tla.Value, 16)
			bind(r.Users[0], n, resources.NewSingleOutputChan(ch))
			bind(r.Users[1], n, resources.NewInputChan(ch, resources.WithInputChanReadTimeout(20*time.Second)))
		case "tcp":
			addr := fmt.Sprintf("127.0.0.1:%d", env.port())
			opts := []resources.MailboxesOption{resources.WithMailboxesReadTimeout(20 * time.Second), resources.WithMailboxesDialTimeout(5 * time.Second), resources.WithMailboxesWriteTimeout(5 * time.Second)}
			wr := resources.NewTCPMailboxes(func(tla.Value) (resources.MailboxKind, string) { return resources.MailboxesRemote, addr }, opts...)
			rd := resources.NewTCPMailboxes(func(tla.Value) (resources.MailboxKind, string) { return resources.MailboxesLocal, addr }, opts...)
			// realise the receiving mailbox now, so that its listener exists before anyone sends
			func() {
				defer func() {
					if x := recover(); x != nil {
						panic(envProblem{fmt.Sprint(x)})
					}
				}()
				rd.Index(distsys.ArchetypeInterface{}, tla.MakeNumber(1))
			}()
			// a reader waits up to 20 s for a message the model says was committed (the receiving side publishes a
			// batch right after acknowledging the commit), so delivery latency never turns into a spurious abort
			bind(r.Users[0], n, gate2.AsyncClose{ArchetypeResource: wr})
			bind(r.Users[1], n, gate2.AsyncClose{ArchetypeResource: rd})
		default:
			panic("c18: kind " + r.Kind)
		}
	}
	return b
}

type envProblem struct{ what string }

package c18

import (
	"encoding/json"
	"fmt"
	"os"
	"os/exec"
	"path/filepath"
	"runtime"
	"strings"
	"sync"
	"testing"
	"time"

	"verif/mc/explore"
	"verif/mc/gate2"
	"verif/mc/hres"
)

// family = one exploration: how a case is drawn from the explorer.
type family struct {
	Name     string
	Draw     func(c *explore.Ctx) caseSpec
	Faulty   bool // wrap resources in Faulty: operation / pre-commit refusals are enumerated besides body aborts
	File     bool // file-recorder mode (the context's own PGO_TRACE_DIR log is parsed)
	MaxDepth int
	// FaultMaxOps > 0: failing attempts are enumerated only in systems of at most that many operations
	// (bigger systems run fault-free in every interleaving)
	FaultMaxOps int
	Describe    string
}

var privateKinds = []string{"local", "ilocal", "reflocal", "incmap", "hashmap"}

func singleConfigs() []sysSpec {
	var out []sysSpec
	for i, k := range privateKinds {
		out = append(out, sysSpec{NArch: 1, Res: []resSpec{{Name: "v0", Kind: k, Users: []int{0}}}})
		for _, k2 := range privateKinds[i+1:] {
			out = append(out, sysSpec{NArch: 1, Res: []resSpec{{Name: "v0", Kind: k, Users: []int{0}}, {Name: "v1", Kind: k2, Users: []int{0}}}})
		}
	}
	return out
}

// rawConfigs: the ref-bound private kinds once more, bound without wrappers (body aborts only).
func rawConfigs() []sysSpec {
	kinds := []string{"reflocal-raw", "incmap-raw", "hashmap-raw"}
	var out []sysSpec
	for i, k := range kinds {
		out = append(out, sysSpec{NArch: 1, Res: []resSpec{{Name: "v0", Kind: k, Users: []int{0}}}})
		for _, k2 := range kinds[i+1:] {
			out = append(out, sysSpec{NArch: 1, Res: []resSpec{{Name: "v0", Kind: k, Users: []int{0}}, {Name: "v1", Kind: k2, Users: []int{0}}}})
		}
	}
	return out
}

func menuOf(sys sysSpec, a int) []gate2.Op {
	var m []gate2.Op
	for _, r := range sys.Res {
		for _, u := range r.Users {
			if u == a {
				m = append(m, menu(r, a)...)
				break
			}
		}
	}
	return m
}

// drawProgram draws <= maxSec sections of <= maxOps operations, at most *left operations in all.
func drawProgram(c *explore.Ctx, m []gate2.Op, minSec, maxSec, maxOps int, left *int) []gate2.Section {
	if len(m) == 0 {
		return nil
	}
	hi := maxSec
	if *left < hi {
		hi = *left
	}
	if hi < minSec {
		c.Prune()
	}
	nsec := minSec + c.Choose(hi-minSec+1, "sections")
	var secs []gate2.Section
	for s := 0; s < nsec; s++ {
		maxHere := maxOps
		if x := *left - (nsec - s - 1); x < maxHere {
			maxHere = x
		}
		n := 1 + c.Choose(maxHere, "ops")
		*left -= n
		var ops []gate2.Op
		for i := 0; i < n; i++ {
			o := m[c.Choose(len(m), "op")]
			if o.K == "f" {
				// a relay needs something read earlier in the same section
				ok := false
				for _, p := range ops {
					if p.K == "r" {
						ok = true
					}
				}
				if !ok {
					c.Prune()
				}
			}
			ops = append(ops, o)
		}
		secs = append(secs, gate2.Section{Ops: ops})
	}
	return secs
}

// encodeRole renders a program with its links named by role, so that programs of different ring positions compare.
func encodeRole(sys sysSpec, a int, p []gate2.Section) string {
	var b strings.Builder
	for _, s := range p {
		b.WriteString("|")
		for _, o := range s.Ops {
			name := o.R
			for _, r := range sys.Res {
				if r.Name == o.R && isLink(r.Kind) {
					if r.Users[0] == a {
						name = "out"
					} else {
						name = "in"
					}
				}
			}
			b.WriteString(o.K + name + ";")
		}
	}
	return b.String()
}

// sharedOnly: three archetypes that communicate only through shared variables bound without any wrapper: a
// function-valued LocalShared variable tbl (whole and indexed access) and an IncMap m of LocalShared elements.
func sharedOnly() sysSpec {
	return sysSpec{NArch: 3, Res: []resSpec{
		{Name: "tbl", Kind: "sharedfn", Users: []int{0, 1, 2}},
		{Name: "m", Kind: "sharedmap", Users: []int{0, 1, 2}},
	}}
}

func ring(kind string, shared bool) sysSpec {
	s := sysSpec{NArch: 3, Res: []resSpec{
		{Name: "l0", Kind: kind, Users: []int{0, 1}},
		{Name: "l1", Kind: kind, Users: []int{1, 2}},
		{Name: "l2", Kind: kind, Users: []int{2, 0}},
	}}
	if shared {
		s.Res = append(s.Res, resSpec{Name: "x", Kind: "shared", Users: []int{0, 1, 2}})
	}
	return s
}

// schedulable: does the system run to the end?  (single reader per link: if one maximal schedule ends, all do)
func schedulable(cs caseSpec) bool {
	q := map[string]int{}
	pos := make([]int, cs.Sys.NArch)
	kinds := map[string]string{}
	for _, r := range cs.Sys.Res {
		kinds[r.Name] = r.Kind
	}
	for {
		progress := false
		done := true
		for a := 0; a < cs.Sys.NArch; a++ {
			if pos[a] >= len(cs.Progs[a]) {
				continue
			}
			done = false
			need := map[string]int{}
			for _, o := range cs.Progs[a][pos[a]].Ops {
				if o.K == "r" && isLink(kinds[o.R]) {
					need[o.R]++
				}
			}
			ok := true
			for n, k := range need {
				if q[n] < k {
					ok = false
				}
			}
			if !ok {
				continue
			}
			for _, o := range cs.Progs[a][pos[a]].Ops {
				if isLink(kinds[o.R]) {
					if o.K == "r" {
						q[o.R]--
					} else {
						q[o.R]++
					}
				}
			}
			pos[a]++
			progress = true
		}
		if done {
			return true
		}
		if !progress {
			return false
		}
	}
}

func families(thorough bool) []family {
	singles := singleConfigs()
	sTotal, mTotal, tTotal, shTotal := 3, 4, 4, 3
	if thorough {
		sTotal, mTotal, tTotal, shTotal = 4, 5, 5, 4
	}
	drawSingle := func(total int, cfgs ...sysSpec) func(c *explore.Ctx) caseSpec {
		return func(c *explore.Ctx) caseSpec {
			singles := singles
			if len(cfgs) > 0 {
				singles = cfgs
			}
			sys := singles[c.Choose(len(singles), "config")]
			left := total
			return caseSpec{Sys: sys, Progs: [][]gate2.Section{drawProgram(c, menuOf(sys, 0), 1, 2, 3, &left)}}
		}
	}
	drawRing := func(sys sysSpec, total int, relay bool) func(c *explore.Ctx) caseSpec {
		return func(c *explore.Ctx) caseSpec {
			left := total
			cs := caseSpec{Sys: sys}
			var enc []string
			for a := 0; a < sys.NArch; a++ {
				if left == 0 {
					cs.Progs = append(cs.Progs, nil)
					enc = append(enc, "")
					continue
				}
				m := menuOf(sys, a)
				if sys.Res[0].Kind == "sharedfn" && !thorough {
					// quick: element 2 is only written by whole-variable writes
					var m2 []gate2.Op
					for _, o := range m {
						if o.I == nil || *o.I != 2 {
							m2 = append(m2, o)
						}
					}
					m = m2
				}
				if !relay {
					var m2 []gate2.Op
					for _, o := range m {
						if o.K != "f" {
							m2 = append(m2, o)
						}
					}
					m = m2
				}
				p := drawProgram(c, m, 0, 2, 2, &left)
				cs.Progs = append(cs.Progs, p)
				enc = append(enc, encodeRole(sys, a, p))
				// the ring is symmetric under rotation: only the rotation whose first program is the largest is run
				if a > 0 && enc[a] > enc[0] {
					c.Prune()
				}
			}
			// a system in which only one archetype does anything is a single-archetype program: the single families
			nonEmpty := 0
			for _, p := range cs.Progs {
				if len(p) > 0 {
					nonEmpty++
				}
			}
			if nonEmpty < 2 {
				c.Prune()
			}
			if !schedulable(cs) {
				c.Prune()
			}
			// a system in which nobody reads anything another archetype wrote says nothing about causality
			return cs
		}
	}
	fs := []family{
		{Name: "single", Draw: drawSingle(sTotal), Faulty: true,
			Describe: fmt.Sprintf("one archetype over 1-2 of {local, indexed local, ref-bound local, IncMap of locals, HashMap of locals}; programs of 1-2 sections, <=3 operations each, <=%d in all; one failing attempt anywhere (await false before operation k | k-th resource operation refused | pre-commit refused)", sTotal)},
		{Name: "ring-tcp", Draw: drawRing(ring("tcp", false), tTotal, true),
			Describe: fmt.Sprintf("three archetypes A->B->C->A linked by TCP mailboxes on loopback; per archetype 0-2 sections of 1-2 operations from {send, relay, receive}, <=%d operations in all; every section-level interleaving; one aborted attempt at every position", tTotal)},
		{Name: "ring-single-output-chan", Draw: drawRing(ring("single-output-chan", false), 4, false), FaultMaxOps: -1,
			Describe: "three archetypes A->B->C->A linked by SingleOutputChan/InputChan pairs (the value is on the Go channel as soon as it is written, so no attempt is made to fail: a section that sent cannot be rolled back); per archetype 0-2 sections of 1-2 operations from {send, receive}, <=4 operations in all; every section-level interleaving"},
		{Name: "ring-chan-shared", Draw: drawRing(ring("chan", true), mTotal, thorough), FaultMaxOps: map[bool]int{false: 3, true: 0}[thorough],
			Describe: fmt.Sprintf("three archetypes A->B->C->A linked by OutputChan/InputChan pairs plus one LocalShared variable used by all; per archetype 0-2 sections of 1-2 operations from {send, relay the value just read, receive, read x, write x}, <=%d operations in all; (relay only in the thorough tier); programs identical up to rotation of the ring are run once; every section-level interleaving; one aborted attempt (await false) at every position (quick: in the systems of <=3 operations; the 4-operation systems run fault-free)", mTotal)},
		{Name: "single-raw", Draw: drawSingle(sTotal, rawConfigs()...),
			Describe: fmt.Sprintf("one archetype over 1-2 of {ref-bound local, IncMap of locals, HashMap of locals} bound WITHOUT Logging/Faulty wrappers, so that the runtime sees the real resource and element types; programs as in `single`, <=%d operations; one aborted attempt (await false) at every position", sTotal)},
		{Name: "shared-indexed", Draw: drawRing(sharedOnly(), shTotal, true),
			Describe: fmt.Sprintf("three archetypes sharing, bound WITHOUT Logging/Faulty wrappers (the runtime sees the real resource types), a function-valued LocalShared variable tbl and an IncMap m whose elements are LocalShared variables; per archetype 0-2 sections of 1-2 operations from {read tbl[1], write tbl[1], read tbl, write tbl (a new function), read m[1], write m[1]; thorough also write tbl[2], write m[2]}, <=%d operations in all; programs identical up to rotation run once; every section-level interleaving; one aborted attempt at every position; reads of shared variables are also replayed from all logs in commit order", shTotal)},
		{Name: "file-single", Draw: drawSingle(2), Faulty: true, File: true,
			Describe: "the single-archetype family with <=2 operations, judged on the JSON log file the context's own recorder writes under PGO_TRACE_DIR"},
		{Name: "file-ring", Draw: drawRing(ring("chan", true), 3, true), File: true,
			Describe: "the channel/shared-variable ring with <=3 operations, judged on the JSON log files"},
	}
	return fs
}

type replay struct {
	Nested  *nestedProg `json:"nested,omitempty"`
	Proc    *procCase   `json:"proc,omitempty"`
	Family  string      `json:"family"`
	Choices []int       `json:"choices"`
	Tier    string      `json:"tier"`
	Case    string      `json:"case,omitempty"`
}

type envDiscard struct{ what string }

// failSeen: every failure any execution reported (family + key -> first description).  Those that the explorer could
// not reproduce 5/5 are not violations; they are listed in the coverage as unconfirmed, so that a rare
// nondeterminism of the harness or the environment leaves a trace.
var failSeen = map[string]string{}

// fdGuard keeps the process below its descriptor limit.  Every context creates a log file under PGO_TRACE_DIR that
// only a garbage collection closes (the runtime's recorder is replaced, nothing else refers to the file), and TCP
// mailboxes are shut down in the background 500 ms after their execution: a long run under load can outpace both.
func fdGuard(we *wenv) {
	we.guard++
	if we.guard%100 != 0 {
		return
	}
	for i := 0; i < 20; i++ {
		ents, err := os.ReadDir("/proc/self/fd")
		if err != nil || len(ents) < 5000 {
			return
		}
		runtime.GC()
		time.Sleep(300 * time.Millisecond)
	}
}

func body(f family, mu *sync.Mutex, tot *runStats, discards map[string]int) func(c *explore.Ctx) {
	return func(c *explore.Ctx) {
		we := c.User.(*wenv)
		fdGuard(we)
		cs := f.Draw(c)
		var st runStats
		var r *runner
		var out string
		var fl *failure
		var disc string
		func() {
			defer func() {
				if x := recover(); x != nil {
					if ep, ok := x.(envProblem); ok {
						disc = ep.what
						return
					}
					panic(x)
				}
			}()
			r = newRunner(cs, we, f.Faulty, f.File, &st)
			r.faultMaxOps = f.FaultMaxOps
			defer r.close()
			out, fl = r.run(c, !f.Faulty)
		}()
		mu.Lock()
		tot.events += st.events
		tot.aborted += st.aborted
		tot.reads += st.reads
		tot.crossReads += st.crossReads
		tot.hints += st.hints
		tot.envAborts += st.envAborts
		if disc != "" {
			discards[disc]++
		}
		mu.Unlock()
		if disc != "" {
			c.Prune()
		}
		if fl != nil {
			if dbg := os.Getenv("VERIF_C18_DEBUG"); dbg != "" {
				if fh, err := os.OpenFile(dbg, os.O_APPEND|os.O_CREATE|os.O_WRONLY, 0o644); err == nil {
					fmt.Fprintf(fh, "%s %s :: %s\n", f.Name, fl.key, fl.what)
					fh.Close()
				}
			}
			mu.Lock()
			if _, ok := failSeen[f.Name+" "+fl.key]; !ok && len(failSeen) < 40 {
				failSeen[f.Name+" "+fl.key] = fl.what
			}
			mu.Unlock()
			c.Fail(fl.key, fl.what, cs.String())
		}
		c.Outcome(out)
	}
}

func unconfirmed(res *hres.Result, seen map[string]string) map[string]string {
	out := map[string]string{}
	for k, what := range seen {
		confirmed := false
		for _, v := range res.Violations {
			if strings.HasSuffix(k, " "+v.Key) {
				confirmed = true
			}
		}
		if !confirmed {
			if len(what) > 400 {
				what = what[:400]
			}
			out[k] = what
		}
	}
	return out
}

func TestCheck(t *testing.T) {
	if os.Getenv("VERIF_CHILD") == "" {
		hres.Main(t, parent)
		return
	}
	hres.Main(t, child)
}

// parent re-executes the test binary with PGO_TRACE_DIR set (vector clocks are only live if the variable is set
// when the process starts) and hands the child's result through.
func parent(env hres.Env) *hres.Result {
	res := &hres.Result{Property: "C18", Level: "exploration"}
	scratch := os.Getenv("VERIF_SCRATCH")
	if scratch == "" {
		scratch, _ = os.MkdirTemp("", "c18")
		defer os.RemoveAll(scratch)
	}
	// every context creates one (unused) log file under PGO_TRACE_DIR: a memory-backed directory keeps that cheap
	traces := filepath.Join(scratch, "traces")
	if st, err := os.Stat("/dev/shm"); err == nil && st.IsDir() {
		if d, err := os.MkdirTemp("/dev/shm", "verif-c18-"); err == nil {
			traces = d
		}
	}
	os.RemoveAll(traces)
	os.MkdirAll(traces, 0o755)
	defer os.RemoveAll(traces)
	out := filepath.Join(scratch, "child-result.json")
	cmd := exec.Command(os.Args[0], "-test.run", "^TestCheck$", "-test.timeout", "0", "-test.count", "1")
	cmd.Env = append(os.Environ(), "VERIF_CHILD=1", "PGO_TRACE_DIR="+traces, "VERIF_OUT="+out,
		fmt.Sprintf("VERIF_BUDGET_S=%d", int(time.Until(env.Deadline).Seconds())))
	logf, _ := os.Create(filepath.Join(scratch, "child.log"))
	cmd.Stdout, cmd.Stderr = logf, logf
	err := cmd.Start()
	if err == nil {
		done := make(chan error, 1)
		go func() { done <- cmd.Wait() }()
		select {
		case err = <-done:
		case <-time.After(time.Until(env.Deadline) + 5*time.Minute):
			cmd.Process.Kill() // the child overran its own soft deadline by far: a broken check, not a verdict
			err = <-done
		}
	}
	logf.Close()
	b, rerr := os.ReadFile(out)
	if rerr != nil {
		tail, _ := os.ReadFile(filepath.Join(scratch, "child.log"))
		if len(tail) > 4000 {
			tail = tail[len(tail)-4000:]
		}
		env.T.Fatalf("C18 child produced no result (%v): %s", err, tail)
	}
	if jerr := json.Unmarshal(b, res); jerr != nil {
		env.T.Fatalf("C18 child result unreadable: %v", jerr)
	}
	os.RemoveAll(traces)
	return res
}

func child(env hres.Env) *hres.Result {
	res := &hres.Result{Property: "C18", Level: "exploration"}
	res.Assumptions = []string{
		"the check runs in a child process started with PGO_TRACE_DIR set, so vector clocks are live; events are received through SetTraceRecorder, and in the file-* families from the JSON files the context's own recorder writes",
		"the ground truth of an attempt is what its body observed through iface.Read/iface.Write plus what Logging wrappers saw reach the resources; written values are unique tags, so a read identifies the attempt that wrote the value",
		"the Done pseudo-label is not a critical section of the program and is not expected in the log",
		"an attempt reads from a channel or mailbox only when the model says a committed message is waiting (read timeouts are 20 s), so no attempt aborts for timing reasons",
	}
	if os.Getenv("PGO_TRACE_DIR") == "" {
		env.T.Fatal("child without PGO_TRACE_DIR")
	}
	var mu sync.Mutex
	tot := &runStats{}
	discards := map[string]int{}
	setup := func(w int) any { return &wenv{w: w, portBase: 12000 + w*1000} }
	fams := families(env.Thorough())
	if env.Replay != nil {
		var rp replay
		if err := json.Unmarshal(env.Replay, &rp); err != nil {
			env.T.Fatal(err)
		}
		if rp.Family == "nested-resource" && rp.Nested != nil {
			_, _, fls := runNestedProg(*rp.Nested, 0)
			cleanTraceFiles(&wenv{w: 0})
			res.Coverage = map[string]any{"evaluations": 1, "distinct_nontrivial": 0, "rule": "replay", "samples": []any{rp.Nested}}
			for _, fl := range fls {
				if fl.key != "env" {
					res.Violations = append(res.Violations, hres.Viol{Key: fl.key, What: fl.what, Replay: rp})
				}
			}
			return res
		}
		if rp.Family == "procedures" && rp.Proc != nil {
			_, fl := runProcCase(*rp.Proc, 0)
			cleanTraceFiles(&wenv{w: 0})
			res.Coverage = map[string]any{"evaluations": 1, "distinct_nontrivial": 0, "rule": "replay", "samples": []any{rp.Proc}}
			if fl != nil {
				res.Violations = append(res.Violations, hres.Viol{Key: fl.key, What: fl.what, Replay: rp})
			}
			return res
		}
		for _, f := range families(rp.Tier == "thorough") {
			if f.Name != rp.Family {
				continue
			}
			v, outc, _ := explore.ReplayOnce(body(f, &mu, tot, discards), rp.Choices, 1, setup(0))
			res.Coverage = map[string]any{"evaluations": 1, "distinct_nontrivial": 0, "rule": "replay", "samples": []any{rp.Case, outc}}
			if v != nil {
				res.Violations = append(res.Violations, hres.Viol{Key: v.Key, What: v.What, Replay: rp})
			}
			return res
		}
		env.T.Fatalf("unknown family %q", rp.Family)
	}
	var evals int64
	distinct := 0
	exhaustive := true
	var samples []any
	per := map[string]any{}
	seen := map[string]bool{}
	var divergences int64
	procCov := map[string]any{}
	if only := os.Getenv("VERIF_C18_FAMILY"); only == "" || strings.Contains(","+only+",", ",procedures,") {
		penv := env
		if env.Thorough() {
			penv.Deadline = time.Now().Add(time.Until(env.Deadline) / 8)
		}
		runProcedures(penv, res, procCov)
		if pc, ok := procCov["procedures"].(map[string]any); ok {
			evals += int64(pc["executions"].(int))
		}
	}
	if only := os.Getenv("VERIF_C18_FAMILY"); only == "" || strings.Contains(","+only+",", ",nested-resource,") {
		runNestedCarrier(env, res, procCov)
		if nc, ok := procCov["nested_resource"].(map[string]any); ok {
			evals += int64(nc["runs"].(int))
		}
	}
	for fi, f := range fams {
		if only := os.Getenv("VERIF_C18_FAMILY"); only != "" && !strings.Contains(","+only+",", ","+f.Name+",") {
			continue
		}
		// quick: the families run one after the other against the one overall deadline; thorough: every family
		// gets an equal share of what is left (the last one all of it), so that a big one cannot starve the rest
		dl := env.Deadline
		if env.Thorough() {
			dl = time.Now().Add(time.Until(env.Deadline) / time.Duration(len(fams)-fi))
		}
		st := explore.Run(body(f, &mu, tot, discards), explore.Options{Budget: 1, Workers: env.Workers, Deadline: dl, Setup: setup, Samples: 2, MaxViol: 40})
		evals += st.Executions
		distinct += st.Outcomes
		divergences += st.Divergences
		if !st.Exhaustive {
			exhaustive = false
		}
		per[f.Name] = map[string]any{"what": f.Describe, "budget_s": time.Until(dl).Seconds() + st.WallS, "executions": st.Executions, "pruned_unschedulable": st.Pruned, "distinct_outcomes": st.Outcomes,
			"exhaustive": st.Exhaustive, "cap_hit": st.CapHit, "divergences": st.Divergences, "wall_s": st.WallS}
		for _, s := range st.Samples {
			samples = append(samples, map[string]any{"family": f.Name, "choices": s.Choices, "final_state": s.Outcome})
		}
		for _, v := range st.Violations {
			if seen[v.Key] {
				continue
			}
			seen[v.Key] = true
			cs, _ := v.Detail.(string)
			res.Violations = append(res.Violations, hres.Viol{Key: v.Key, What: v.What, Replay: replay{Family: f.Name, Choices: v.Choices, Tier: env.Tier, Case: cs}})
		}
		runtime.GC()
	}
	res.Coverage = map[string]any{
		"evaluations":                       int(evals),
		"distinct_nontrivial":               distinct,
		"rule":                              "every (system, programs, interleaving at section granularity, position of one failing attempt) of the families below; after every attempt its logged event is compared with what the attempt did; distinct = distinct final reference states per family",
		"samples":                           samples,
		"families":                          per,
		"exhaustive":                        exhaustive,
		"divergences":                       int(divergences),
		"procedures":                        procCov["procedures"],
		"nested_resource":                   procCov["nested_resource"],
		"events_judged":                     tot.events,
		"aborted_attempts_judged":           tot.aborted,
		"logged_reads_judged":               tot.reads,
		"reads_of_another_archetypes_value": tot.crossReads,
		"old_value_hints_judged":            tot.hints,
		"discarded_env":                     discards,
		"unconfirmed_failures":              unconfirmed(res, failSeen),
		"env_aborts_accepted":               tot.envAborts,
	}
	_ = strings.Join
	return res
}

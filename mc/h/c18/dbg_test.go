package c18

import (
	"fmt"
	"testing"

	"verif/mc/gate2"
)

type fixedChooser struct{ picks []int }

func (f *fixedChooser) Choose(n int, l string) int {
	if len(f.picks) == 0 {
		return 0
	}
	p := f.picks[0]
	f.picks = f.picks[1:]
	return p % n
}
func (f *fixedChooser) Deviate(n int, l string) int { return 0 }
func (f *fixedChooser) Prune()                     { panic("prune") }

func TestDbg(t *testing.T) {
	sys := ring("tcp", false)
	cs := caseSpec{Sys: sys, Progs: [][]gate2.Section{
		{{Ops: []gate2.Op{{K: "w", R: "l0", I: intp(1)}}}},
		{{Ops: []gate2.Op{{K: "r", R: "l0", I: intp(1)}}}},
		nil,
	}}
	var st runStats
	r := newRunner(cs, &wenv{w: 0, portBase: 18800}, false, false, &st)
	defer r.close()
	out, fl := r.run(&fixedChooser{}, true)
	fmt.Println(out, fl, st)
}

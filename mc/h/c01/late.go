package c01

import (
	"encoding/json"
	"errors"
	"fmt"
	"os"
	"os/exec"
	"strings"
	"sync"
	"sync/atomic"
	"time"

	"github.com/DistCompiler/pgo/distsys"
	"github.com/DistCompiler/pgo/distsys/hashmap"
	"github.com/DistCompiler/pgo/distsys/resources"
	"github.com/DistCompiler/pgo/distsys/tla"
	"verif/mc/gate2"
	"verif/mc/hres"
)

// late.go: "late completion" - schedules in which an operation of the FAILED attempt is still in flight (a slow
// sibling pre-commit, a late answer of a nested system) when the section's Abort / its retry starts.  The explorer
// families treat every resource operation as finished before the next step; here the in-flight part is explicit.
//
//  (A) maps over elements with non-trivial PreCommit (in-process, probe elements): one dirty element refuses fast,
//      another one is slow; when the map's PreCommit yields, no element PreCommit of that attempt may still run,
//      and no element operation (Abort, retry's reads/writes, Commit) may overlap one.
//  (B) nested-archetype resource (child processes, because the failures are panics in goroutines of the runtime):
//      the outer operation times out while the nested system is slow; the nested system answers late, with the
//      regular ack or with "aborted", either after Abort has started or - buffered, with the nested archetype
//      receiving again - before it starts.  The latter makes two cases of a select in Abort ready: which one Go
//      picks is a coin the harness cannot control, so that schedule is repeated (sampled, not exhaustive).

// ---------------------------------------------------------------------------------------------------
// (A) maps with slow element pre-commits

type probeStats struct {
	running atomic.Int32 // element PreCommits of the attempt that have been entered and not yet left
	mu      sync.Mutex
	bad     []string
}

func (p *probeStats) note(s string) {
	p.mu.Lock()
	p.bad = append(p.bad, s)
	p.mu.Unlock()
}

// probeElem is a map element over a local variable whose first PreCommit misbehaves as scripted.
type probeElem struct {
	distsys.ArchetypeResourceLeafMixin
	name    string
	inner   *distsys.LocalArchetypeResource
	mode    string // "" | "fail-fast" | "slow"
	used    bool
	st      *probeStats
	release chan struct{}
	once    sync.Once
}

func (e *probeElem) check(op string) {
	if n := e.st.running.Load(); n > 0 {
		e.st.note(fmt.Sprintf("%s of element %s while %d element pre-commit(s) of the failed attempt are still running", op, e.name, n))
	}
}

func (e *probeElem) Abort(iface distsys.ArchetypeInterface) chan struct{} {
	e.check("Abort")
	e.once.Do(func() { close(e.release) }) // let a still-running pre-commit end now (only reached when the map did not wait)
	return e.inner.Abort(iface)
}
func (e *probeElem) PreCommit(iface distsys.ArchetypeInterface) chan error {
	if e.used || e.mode == "" {
		e.check("PreCommit")
		return e.inner.PreCommit(iface)
	}
	e.used = true
	ch := make(chan error, 1)
	switch e.mode {
	case "fail-fast":
		ch <- distsys.ErrCriticalSectionAborted
	case "slow":
		e.st.running.Add(1)
		go func() {
			select {
			case <-e.release:
			case <-time.After(80 * time.Millisecond):
			}
			e.st.running.Add(-1)
			ch <- nil
		}()
	}
	return ch
}
func (e *probeElem) Commit(iface distsys.ArchetypeInterface) chan struct{} {
	e.check("Commit")
	return e.inner.Commit(iface)
}
func (e *probeElem) ReadValue(iface distsys.ArchetypeInterface) (tla.Value, error) {
	e.check("ReadValue")
	return e.inner.ReadValue(iface)
}
func (e *probeElem) WriteValue(iface distsys.ArchetypeInterface, v tla.Value) error {
	e.check("WriteValue")
	return e.inner.WriteValue(iface, v)
}
func (e *probeElem) Close() error { return nil }

// yieldWatch wraps the map: when the map's PreCommit channel yields, no element PreCommit may still be running.
type yieldWatch struct {
	distsys.ArchetypeResource
	st *probeStats
}

func (w yieldWatch) PreCommit(iface distsys.ArchetypeInterface) chan error {
	ch := w.ArchetypeResource.PreCommit(iface)
	if ch == nil {
		return nil
	}
	out := make(chan error, 1)
	go func() {
		err := <-ch
		if n := w.st.running.Load(); n > 0 {
			w.st.note(fmt.Sprintf("the map's PreCommit yielded (%v) while %d element pre-commit(s) were still running", err, n))
		}
		out <- err
	}()
	return out
}

type mapCase struct {
	Map   string `json:"map"`   // incmap | hashmap
	Order []int  `json:"order"` // elements written, in order (dirty-element order)
	Fail  int    `json:"fail"`  // element whose PreCommit refuses at once
	Slow  int    `json:"slow"`  // element whose PreCommit is slow
}

func (c mapCase) String() string {
	return fmt.Sprintf("%s of probe elements; s0: write m[%d]; write m[%d]; first attempt: PreCommit of m[%d] refuses at once, PreCommit of m[%d] is slow; retry", c.Map, c.Order[0], c.Order[1], c.Fail, c.Slow)
}

func runMapCase(c mapCase) *failure {
	st := &probeStats{}
	elems := map[int]*probeElem{}
	mk := func(k int) *probeElem {
		e := &probeElem{name: fmt.Sprint(k), inner: distsys.NewLocalArchetypeResource(tla.MakeString(fmt.Sprintf("m_%d_0", k))), st: st, release: make(chan struct{})}
		if k == c.Fail {
			e.mode = "fail-fast"
		} else if k == c.Slow {
			e.mode = "slow"
		}
		elems[k] = e
		return e
	}
	var m distsys.ArchetypeResource
	if c.Map == "incmap" {
		m = resources.NewIncMap(func(index tla.Value) distsys.ArchetypeResource { return mk(int(index.AsNumber())) })
	} else {
		hm := hashmap.New[distsys.ArchetypeResource]()
		for _, k := range []int{1, 2} {
			hm.Set(tla.MakeNumber(int32(k)), mk(k))
		}
		m = resources.NewHashMap(hm)
	}
	sec := gate2.Section{Next: 1}
	for i, k := range c.Order {
		sec.Ops = append(sec.Ops, gate2.Op{K: "w", R: "m", I: intp(k), V: fmt.Sprintf("t0%d", i)})
	}
	obs := gate2.Section{Next: -1, Ops: []gate2.Op{{K: "r", R: "m", I: intp(1)}, {K: "r", R: "m", I: intp(2)}}}
	script := &gate2.Script{Prog: gate2.Program{Arch: "A", Vars: []gate2.Var{{Name: "m", Ref: true}}, Sections: []gate2.Section{sec, obs}}}
	g := gate2.New(tla.MakeString("self"), script.Archetype(), gate2.Options{Timeout: 90 * time.Second}, distsys.EnsureArchetypeRefParam("m", yieldWatch{m, st}))
	defer g.Kill()
	if r := g.Start(); r.Ended || r.Hung {
		return &failure{"map-slow-precommit/start", fmt.Sprintf("Run ended before the first section: %v %v", r.Err, r.Panic)}
	}
	value := func(k int) string {
		e, ok := elems[k]
		if !ok {
			return fmt.Sprintf("m_%d_0", k)
		}
		v, _ := localValue(g, e.inner)
		return strOf(v)
	}
	bad := func(when string) *failure {
		st.mu.Lock()
		defer st.mu.Unlock()
		if len(st.bad) > 0 {
			return &failure{c.Map + "/precommit-slow-sibling/attempt-still-in-flight", fmt.Sprintf("%s: %s  | %s", when, st.bad[0], c)}
		}
		return nil
	}
	// attempt 1: must fail, and leave nothing
	sr := g.Step()
	if sr.Hung || sr.Ended || len(sr.Events) != 1 {
		return &failure{c.Map + "/precommit-slow-sibling/run", fmt.Sprintf("first attempt: hung=%v ended=%v err=%v panic=%v  | %s", sr.Hung, sr.Ended, sr.Err, sr.Panic, c)}
	}
	if !sr.Events[0].IsAbort {
		return &failure{"fault-ignored/precommit/" + c.Map + "-element", fmt.Sprintf("the section committed although the pre-commit of m[%d] refused  | %s", c.Fail, c)}
	}
	if f := bad("after the failed attempt"); f != nil {
		return f
	}
	for _, k := range []int{1, 2} {
		if got, want := value(k), fmt.Sprintf("m_%d_0", k); got != want {
			return &failure{c.Map + "/precommit-slow-sibling/state-after-abort", fmt.Sprintf("after the failed attempt m[%d] = %s, the last committed value is %s  | %s", k, got, want, c)}
		}
	}
	// retry: commits
	sr = g.Step()
	if sr.Hung || sr.Ended || len(sr.Events) != 1 || sr.Events[0].IsAbort {
		return &failure{c.Map + "/precommit-slow-sibling/retry", fmt.Sprintf("the retry did not commit: hung=%v ended=%v err=%v panic=%v  | %s", sr.Hung, sr.Ended, sr.Err, sr.Panic, c)}
	}
	if f := bad("during the retry"); f != nil {
		return f
	}
	for i, k := range c.Order {
		if got, want := value(k), fmt.Sprintf("t0%d", i); got != want {
			return &failure{c.Map + "/precommit-slow-sibling/state-after-commit", fmt.Sprintf("after the retry m[%d] = %s, the reference gives %s  | %s", k, got, want, c)}
		}
	}
	sr = g.Step() // observer section
	if sr.Hung || sr.Ended {
		return &failure{c.Map + "/precommit-slow-sibling/observer", fmt.Sprintf("observer section: %v %v  | %s", sr.Err, sr.Panic, c)}
	}
	last := g.Step()
	if !last.Ended || last.Err != nil || last.Panic != nil {
		return &failure{c.Map + "/precommit-slow-sibling/done", fmt.Sprintf("Run did not end normally: %v %v  | %s", last.Err, last.Panic, c)}
	}
	return bad("at the end")
}

func mapCases() []mapCase {
	var out []mapCase
	for _, m := range []string{"incmap", "hashmap"} {
		for _, order := range [][]int{{1, 2}, {2, 1}} {
			for _, fail := range []int{1, 2} {
				out = append(out, mapCase{Map: m, Order: order, Fail: fail, Slow: 3 - fail})
			}
		}
	}
	return out
}

// ---------------------------------------------------------------------------------------------------
// (B) nested-archetype resource with a late answer

type nestedCase struct {
	Op     string `json:"op"`     // the outer operation whose request is answered late: read | write | precommit
	Late   string `json:"late"`   // the late answer: ack | aborted
	When   string `json:"when"`   // after-abort-started | buffered-before-abort
	Rounds int    `json:"rounds"` // sections in a row with that schedule
}

func (c nestedCase) String() string {
	return fmt.Sprintf("outer section {r := t; x := r} on a nested register archetype, %d round(s): the %s request of the first attempt times out (nested system slow), the nested system then answers it with %q, %s; the retry must commit", c.Rounds, c.Op, c.Late, c.When)
}

func nestedCases(thorough bool) []nestedCase {
	var out []nestedCase
	for _, op := range []string{"read", "write", "precommit"} {
		for _, late := range []string{"ack", "aborted"} {
			out = append(out, nestedCase{Op: op, Late: late, When: "after-abort-started", Rounds: 1})
		}
	}
	rounds := 40
	if thorough {
		rounds = 120
	}
	for _, op := range []string{"read", "write"} {
		for _, late := range []string{"ack", "aborted"} {
			out = append(out, nestedCase{Op: op, Late: late, When: "buffered-before-abort", Rounds: rounds})
		}
	}
	return out
}

var (
	tpeKey   = tla.MakeString("tpe")
	valueKey = tla.MakeString("value")
)

func rec(tpe string, fields ...tla.RecordField) tla.Value {
	return tla.MakeRecord(append(fields, tla.RecordField{Key: tpeKey, Value: tla.MakeString(tpe)}))
}

// nestedHooks is the state shared by the nested register, the outer bodies and the scenario.
type nestedHooks struct {
	c          nestedCase
	mu         sync.Mutex
	value      tla.Value // committed value of the register
	pending    *tla.Value
	slowArmed  bool          // the next request of kind c.Op is answered late
	blocked    bool          // the nested body is inside its slow phase
	gate       chan struct{} // opened to let the slow phase end
	iterations int
	answeredIn int
	lateSeen   int // rounds in which the late answer was in place as scripted
	res        distsys.ArchetypeResource
}

// nestedRegister: one archetype, one label, one request per critical section (the shape of systems/nestedcrdtimpl),
// implementing a transactional register: write_req buffers, read_req returns the buffered or committed value,
// commit_req publishes, abort_req drops the buffer.
func nestedRegister(h *nestedHooks) distsys.MPCalArchetype {
	body := func(iface distsys.ArchetypeInterface) error {
		h.mu.Lock()
		h.iterations++
		mine := h.iterations
		h.mu.Unlock()
		in, err := iface.RequireArchetypeResourceRef("ANested.in")
		if err != nil {
			return err
		}
		out, err := iface.RequireArchetypeResourceRef("ANested.out")
		if err != nil {
			return err
		}
		req, err := iface.Read(in, nil)
		if err != nil {
			return err
		}
		tpe := req.ApplyFunction(tpeKey).AsString()
		kind := strings.TrimSuffix(tpe, "_req")
		h.mu.Lock()
		slow := h.slowArmed && kind == h.c.Op
		var gate chan struct{}
		if slow {
			h.slowArmed = false
			gate = make(chan struct{})
			h.gate, h.blocked = gate, true
		}
		h.mu.Unlock()
		if slow {
			// a slow nested system
			if h.c.When == "after-abort-started" {
				// the outer request times out after 100 ms and Run starts the roll-back at once; the answer comes
				// about 300 ms after that (if Run were that slow, the answer would be buffered before Abort starts:
				// the other schedule, which must work as well)
				time.Sleep(400 * time.Millisecond)
			} else {
				<-gate
			}
		}
		var resp tla.Value
		h.mu.Lock()
		if slow && h.c.Late == "aborted" {
			resp = rec("aborted") // a legal answer to read, write and precommit requests; the request has no effect
		} else {
			switch kind {
			case "read":
				v := h.value
				if h.pending != nil {
					v = *h.pending
				}
				resp = rec("read_ack", tla.RecordField{Key: valueKey, Value: v})
			case "write":
				v := req.ApplyFunction(valueKey)
				h.pending = &v
				resp = rec("write_ack")
			case "precommit":
				resp = rec("precommit_ack")
			case "commit":
				if h.pending != nil {
					h.value, h.pending = *h.pending, nil
				}
				resp = rec("commit_ack")
			case "abort":
				h.pending = nil
				resp = rec("abort_ack")
			default:
				h.mu.Unlock()
				panic("nested register: unknown request " + req.String())
			}
		}
		if slow {
			h.blocked = false
			h.answeredIn = mine
			if h.c.When == "after-abort-started" {
				h.lateSeen++
			}
		}
		h.mu.Unlock()
		if err = iface.Write(out, nil, resp); err != nil {
			return err
		}
		return iface.Goto("ANested.loop")
	}
	return distsys.MPCalArchetype{
		Name: "ANested", Label: "ANested.loop",
		RequiredRefParams: []string{"ANested.in", "ANested.out"},
		JumpTable:         distsys.MakeMPCalJumpTable(distsys.MPCalCriticalSection{Name: "ANested.loop", Body: body}),
		ProcTable:         distsys.MakeMPCalProcTable(),
		PreAmble:          func(distsys.ArchetypeInterface) {},
	}
}

// afterFailure runs in the outer body right after an operation on the nested resource failed (the section has
// failed; Run rolls it back as soon as the body returns).
func (h *nestedHooks) afterFailure() {
	h.mu.Lock()
	blocked, gate := h.blocked, h.gate
	h.mu.Unlock()
	if !blocked {
		return
	}
	if h.c.When == "after-abort-started" {
		return // the nested body answers by itself, well after Abort has started
	}
	// buffered-before-abort: let the nested system answer now and get back to waiting for its next request, and
	// only then let Run roll the section back
	close(gate)
	pend, hook := h.res.(interface{ VerifPendingAnswers() int })
	deadline := time.Now().Add(20 * time.Second)
	for time.Now().Before(deadline) {
		h.mu.Lock()
		looped := !h.blocked && h.iterations > h.answeredIn
		h.mu.Unlock()
		if looped && (!hook || pend.VerifPendingAnswers() == 1) {
			break
		}
		time.Sleep(time.Millisecond)
	}
	time.Sleep(30 * time.Millisecond) // let the nested archetype reach its receive
	h.mu.Lock()
	h.lateSeen++
	h.mu.Unlock()
}

// outer archetype:  l1: if n < rounds { t := v_n ; x := t ; out := x ; n := n+1 ; goto l1 } else goto Done
// (t is the nested resource; for Op = read the section only reads)
func nestedOuter(h *nestedHooks) distsys.MPCalArchetype {
	l1 := func(iface distsys.ArchetypeInterface) error {
		t, err := iface.RequireArchetypeResourceRef("AOuter.t")
		if err != nil {
			return err
		}
		result, err := iface.RequireArchetypeResourceRef("AOuter.result")
		if err != nil {
			return err
		}
		n := iface.RequireArchetypeResource("AOuter.n")
		nVal, err := iface.Read(n, nil)
		if err != nil {
			return err
		}
		if int(nVal.AsNumber()) >= h.c.Rounds {
			return iface.Goto("AOuter.Done")
		}
		if h.c.Op != "read" {
			if err = iface.Write(t, nil, tla.MakeString(fmt.Sprintf("v%d", nVal.AsNumber()))); err != nil {
				h.afterFailure()
				return err
			}
		}
		v, err := iface.Read(t, nil)
		if err != nil {
			h.afterFailure()
			return err
		}
		if err = iface.Write(result, nil, v); err != nil {
			return err
		}
		if err = iface.Write(n, nil, tla.MakeNumber(nVal.AsNumber()+1)); err != nil {
			return err
		}
		return iface.Goto("AOuter.l1")
	}
	return distsys.MPCalArchetype{
		Name: "AOuter", Label: "AOuter.l1",
		RequiredRefParams: []string{"AOuter.t", "AOuter.result"},
		JumpTable: distsys.MakeMPCalJumpTable(
			distsys.MPCalCriticalSection{Name: "AOuter.l1", Body: l1},
			distsys.MPCalCriticalSection{Name: "AOuter.Done", Body: func(distsys.ArchetypeInterface) error { return distsys.ErrDone }},
		),
		ProcTable: distsys.MakeMPCalProcTable(),
		PreAmble: func(iface distsys.ArchetypeInterface) {
			iface.EnsureArchetypeResourceLocal("AOuter.n", tla.MakeNumber(0))
		},
	}
}

// armingCounter arms the slow answer at the first attempt of every round (BeginCriticalSection is called once per
// attempt; the round number is the committed value of n, so the first attempt of a round is the attempt that follows
// a commit).
type armingCounter struct {
	h        *nestedHooks
	inner    distsys.FairnessCounter
	lastN    int
	readN    func() int
	attempts int
}

func (a *armingCounter) BeginCriticalSection(pc string) {
	a.attempts++
	if pc == "AOuter.l1" {
		if n := a.readN(); n != a.lastN && n < a.h.c.Rounds {
			a.lastN = n
			a.h.mu.Lock()
			a.h.slowArmed = true
			a.h.mu.Unlock()
		}
	}
	a.inner.BeginCriticalSection(pc)
}
func (a *armingCounter) NextFairnessCounter(id string, c uint) uint {
	return a.inner.NextFairnessCounter(id, c)
}

// nestedChild runs one scenario in this process and reports on stdout; a panic in a goroutine of the runtime
// kills the process, which the parent observes.
func nestedChild(c nestedCase) {
	h := &nestedHooks{c: c, value: tla.MakeString("v_init")}
	res := resources.NewNested(func(sendCh chan<- tla.Value, receiveCh <-chan tla.Value) []*distsys.MPCalContext {
		return []*distsys.MPCalContext{distsys.NewMPCalContext(tla.MakeString("nested"), nestedRegister(h),
			distsys.EnsureArchetypeRefParam("in", resources.NewInputChan(receiveCh)),
			distsys.EnsureArchetypeRefParam("out", resources.NewOutputChan(sendCh)))}
	})
	h.res = res
	resultCh := make(chan tla.Value, c.Rounds+4)
	ac := &armingCounter{h: h, inner: distsys.MakeRoundRobinFairnessCounter(), lastN: -1}
	var outer *distsys.MPCalContext
	ac.readN = func() int { return int(outer.IFace().ReadArchetypeResourceLocal("AOuter.n").AsNumber()) }
	outer = distsys.NewMPCalContext(tla.MakeString("outer"), nestedOuter(h),
		distsys.EnsureArchetypeRefParam("t", res),
		distsys.EnsureArchetypeRefParam("result", resources.NewOutputChan(resultCh)),
		distsys.SetFairnessCounter(ac))
	done := make(chan error, 1)
	go func() { done <- outer.Run() }()
	var err error
	select {
	case err = <-done:
	case <-time.After(time.Duration(60+2*c.Rounds) * time.Second):
		fmt.Println("CHILD-HANG the outer archetype did not finish")
		os.Exit(4)
	}
	if err != nil {
		fmt.Println("CHILD-ERR Run returned", err)
		os.Exit(3)
	}
	// the register semantics: round k wrote v<k> (Op != read) and read it back; a pure read sees the initial value
	for k := 0; k < c.Rounds; k++ {
		want := fmt.Sprintf("v%d", k)
		if c.Op == "read" {
			want = "v_init"
		}
		select {
		case v := <-resultCh:
			if got := strOf(v); got != want {
				fmt.Printf("CHILD-ERR round %d read %s from the nested register, the reference gives %s\n", k, got, want)
				os.Exit(3)
			}
		default:
			fmt.Printf("CHILD-ERR only %d of %d rounds produced a result\n", k, c.Rounds)
			os.Exit(3)
		}
	}
	h.mu.Lock()
	final, pending, late := strOf(h.value), h.pending != nil, h.lateSeen
	h.mu.Unlock()
	wantFinal := fmt.Sprintf("v%d", c.Rounds-1)
	if c.Op == "read" {
		wantFinal = "v_init"
	}
	if final != wantFinal || pending {
		fmt.Printf("CHILD-ERR the nested register ends with committed value %s (uncommitted write pending: %v), the reference gives %s\n", final, pending, wantFinal)
		os.Exit(3)
	}
	fmt.Printf("CHILD-OK rounds=%d attempts=%d late_answers=%d\n", c.Rounds, ac.attempts, late)
}

type nestedOutcome struct {
	ok       bool
	attempts int
	late     int
	what     string
}

func runNestedChild(c nestedCase) nestedOutcome {
	b, _ := json.Marshal(c)
	cmd := exec.Command(os.Args[0], "-test.run", "^TestCheck$", "-test.count", "1", "-test.timeout", "0")
	cmd.Env = append(os.Environ(), "VERIF_C01_NESTED="+string(b), "VERIF_OUT=")
	outBytes, err := cmd.CombinedOutput()
	out := string(outBytes)
	for _, line := range strings.Split(out, "\n") {
		if strings.HasPrefix(line, "CHILD-OK") && err == nil {
			o := nestedOutcome{ok: true}
			fmt.Sscanf(line, "CHILD-OK rounds=%d attempts=%d late_answers=%d", new(int), &o.attempts, &o.late)
			return o
		}
	}
	what := fmt.Sprintf("the process ended with %v", err)
	for _, line := range strings.Split(out, "\n") {
		if strings.HasPrefix(line, "panic:") || strings.HasPrefix(line, "CHILD-ERR") || strings.HasPrefix(line, "CHILD-HANG") || strings.HasPrefix(line, "fatal error:") {
			what += ": " + line
			break
		}
	}
	return nestedOutcome{what: what}
}

type lateReplay struct {
	Map    *mapCase    `json:"map,omitempty"`
	Nested *nestedCase `json:"nested,omitempty"`
}

// runLate runs (A) and (B) and adds to res / cov.
func runLate(env hres.Env, res *hres.Result, cov map[string]any) {
	lc := map[string]any{}
	// (A)
	mapRuns := 0
	for _, c := range mapCases() {
		c := c
		f := runMapCase(c)
		mapRuns++
		if f != nil {
			ok := true
			for i := 0; i < 4; i++ { // reproduce 5/5
				if f2 := runMapCase(c); f2 == nil || f2.key != f.key {
					ok = false
				}
			}
			if ok && !hasKey(res, f.key) {
				res.Violations = append(res.Violations, hres.Viol{Key: f.key, What: f.what, Replay: replay{Family: "late", Late: &lateReplay{Map: &c}}})
			} else if !ok {
				lc["map_unconfirmed"] = f.what
			}
		}
	}
	lc["map_slow_precommit_cases"] = mapRuns
	// (B)
	cases := nestedCases(env.Thorough())
	type result struct {
		c nestedCase
		o nestedOutcome
	}
	results := make([]result, len(cases))
	var wg sync.WaitGroup
	sem := make(chan struct{}, max(1, min(env.Workers, 6)))
	for i, c := range cases {
		wg.Add(1)
		go func(i int, c nestedCase) {
			defer wg.Done()
			sem <- struct{}{}
			defer func() { <-sem }()
			results[i] = result{c, runNestedChild(c)}
		}(i, c)
	}
	wg.Wait()
	rounds, late, attempts, sampled := 0, 0, 0, 0
	var samples []string
	for _, r := range results {
		c := r.c
		if r.o.ok {
			rounds += c.Rounds
			late += r.o.late
			attempts += r.o.attempts
			if c.When == "buffered-before-abort" {
				sampled += r.o.late
			}
			if len(samples) < 2 {
				samples = append(samples, c.String())
			}
			continue
		}
		key := fmt.Sprintf("nested/%s-timeout/late-%s/%s", c.Op, c.Late, c.When)
		// reproduce: the deterministic schedules must fail again twice; the sampled one again at least once in two
		again := 0
		for i := 0; i < 2; i++ {
			if o := runNestedChild(c); !o.ok {
				again++
			}
		}
		need := 2
		if c.When == "buffered-before-abort" {
			need = 1
		}
		if again >= need {
			res.Violations = append(res.Violations, hres.Viol{Key: key, What: r.o.what + "  | " + c.String(), Replay: replay{Family: "late", Late: &lateReplay{Nested: &c}}})
		} else {
			lc["nested_unconfirmed"] = key + ": " + r.o.what
		}
	}
	lc["nested_scenarios"] = len(cases)
	lc["nested_rounds_completed"] = rounds
	lc["nested_attempts"] = attempts
	lc["nested_rounds_with_late_answer_in_place"] = late
	lc["nested_two_ready_select_samples"] = sampled
	lc["samples"] = samples
	lc["note"] = "buffered-before-abort makes two cases of a select in nestedArchetype.Abort ready; which one the Go runtime picks cannot be controlled, so that schedule is SAMPLED (repeated nested_two_ready_select_samples times), not enumerated"
	cov["late_completion"] = lc
}

func hasKey(res *hres.Result, key string) bool {
	for _, v := range res.Violations {
		if v.Key == key {
			return true
		}
	}
	return false
}

var errNotLate = errors.New("not a late-completion replay")

func replayLate(r *lateReplay) *failure {
	if r.Map != nil {
		return runMapCase(*r.Map)
	}
	if r.Nested != nil {
		if o := runNestedChild(*r.Nested); !o.ok {
			c := *r.Nested
			return &failure{fmt.Sprintf("nested/%s-timeout/late-%s/%s", c.Op, c.Late, c.When), o.what + "  | " + c.String()}
		}
	}
	return nil
}

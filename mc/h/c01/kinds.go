// C01: critical sections are atomic across every resource they touch.
//
// kinds.go: one adapter per resource kind = how to create it, which operations a script may apply to it,
// and how to read back its *complete observable state* without going through the archetype under test.
package c01

import (
	"bytes"
	"encoding/gob"
	"fmt"
	"net"
	"net/rpc"
	"os"
	"path/filepath"
	"sort"
	"strings"
	"time"

	"github.com/DistCompiler/pgo/distsys"
	"github.com/DistCompiler/pgo/distsys/hashmap"
	"github.com/DistCompiler/pgo/distsys/resources"
	"github.com/DistCompiler/pgo/distsys/tla"
	"github.com/DistCompiler/pgo/systems/raftkvs"
	"verif/mc/gate2"
)

// mres is the reference (model) state of one resource instance.
type mres struct {
	cell string            // cat cell
	idx  map[string]string // cat map
	in   []string          // cat in: inputs still to be offered, in order
	out  []string          // cat out: messages delivered to the receiver, in order
	list []string          // cat log: entries of the persistent log
	// persistent kinds: value durably stored by the last committed section that wrote the cell ("" = never)
	persist bool
	stored  string
	// persistent function-valued kinds: has any committed section written the variable (whole or indexed) yet?
	// Once it has, the stored value must be the committed value; before, the store may be empty or hold the value
	wroteEver bool
}

func (m *mres) clone() *mres {
	c := &mres{cell: m.cell, in: append([]string(nil), m.in...), out: append([]string(nil), m.out...), persist: m.persist, stored: m.stored, wroteEver: m.wroteEver, list: append([]string(nil), m.list...)}
	if m.idx != nil {
		c.idx = map[string]string{}
		for k, v := range m.idx {
			c.idx[k] = v
		}
	}
	return c
}

func (m *mres) render(cat string) string {
	switch cat {
	case "cell":
		if m.persist {
			return m.cell + "|stored=" + m.stored
		}
		return m.cell
	case "map":
		ks := make([]string, 0, len(m.idx))
		for k := range m.idx {
			ks = append(ks, k)
		}
		sort.Strings(ks)
		var b strings.Builder
		for _, k := range ks {
			b.WriteString(k + "=" + m.idx[k] + ";")
		}
		if m.persist {
			if m.wroteEver {
				return b.String() + "|stored=" + b.String()
			}
			return b.String() + "|stored=?" // nothing need be stored yet (see acceptable)
		}
		return b.String()
	case "counter":
		return m.cell
	case "log":
		return "list[" + strings.Join(m.list, ",") + "]|stored[" + strings.Join(m.list, ",") + "]"
	case "in":
		return "pending[" + strings.Join(m.in, ",") + "]"
	case "out":
		return "delivered[" + strings.Join(m.out, ",") + "]"
	}
	return "?"
}

// acceptable tells whether an observed rendering satisfies the reference rendering want ("|stored=?" = either
// nothing stored yet, or the current value).
func acceptable(got, want string) bool {
	if strings.HasSuffix(want, "|stored=?") {
		base := strings.TrimSuffix(want, "|stored=?")
		return got == base+"|stored=" || got == base+"|stored="+base
	}
	return got == want
}

// instance is one resource bound to the scripted archetype.
type instance struct {
	kind, name string
	cat        string // cell | map | in | out
	v          gate2.Var
	bind       distsys.MPCalContextConfigFn // nil for archetype-local state variables
	plan       *gate2.FaultPlan             // nil when the resource cannot be wrapped (archetype-local)
	menu       []gate2.Op
	init       *mres
	// observe renders the complete observable state in the format of mres.render; partial=true when a part of
	// the state could not be read back (missing hook) and the rendering covers the rest.
	observe func(g *gate2.Gate) (string, error)
	// observeWant (optional) is used instead of observe when delivery is asynchronous: it polls until the
	// rendering equals want or a generous cap expires, and returns the last rendering
	observeWant func(g *gate2.Gate, want string) (string, error)
	valueOf     func(o gate2.Op) (tla.Value, bool) // non-string values written by "w" operations
	// remote (optional): what a remote party obtains from the resource right now, rendered like mres.render.  It is
	// called in the middle of attempts; the answer must never contain anything of the attempt in flight
	remote func() (string, error)
	fin    func()
}

const nInputs = 12

type wenv struct {
	w                  int
	scratch            string
	seq                int
	db                 *badgerDB
	gobs               gobCache
	portBase, portNext int
}

func strOf(v tla.Value) (s string) {
	defer func() {
		if x := recover(); x != nil {
			s = fmt.Sprintf("<%v>", v)
		}
	}()
	return v.StripVClock().AsString()
}

// localValue reads a local state variable the harness holds a pointer to, through the public ReadValue
// (no tracing clocks exist in this harness, so the read has no side effect).
func localValue(g *gate2.Gate, l *distsys.LocalArchetypeResource) (tla.Value, error) {
	return l.ReadValue(g.Ctx.IFace())
}

// gobCache memoises the decoding of GetState results (the same few byte strings recur millions of times).
type gobCache map[string]tla.Value

func (c gobCache) decode(b []byte) (tla.Value, error) {
	if v, ok := c[string(b)]; ok {
		return v, nil
	}
	var v tla.Value
	if err := gob.NewDecoder(bytes.NewBuffer(b)).Decode(&v); err != nil {
		return v, err
	}
	c[string(b)] = v
	return v, nil
}

func intp(i int) *int { return &i }

func opR(name string) gate2.Op         { return gate2.Op{K: "r", R: name} }
func opW(name string) gate2.Op         { return gate2.Op{K: "w", R: name} }
func opRI(name string, i int) gate2.Op { return gate2.Op{K: "r", R: name, I: intp(i)} }
func opWI(name string, i int) gate2.Op { return gate2.Op{K: "w", R: name, I: intp(i)} }

func idxKey(o gate2.Op) string {
	if o.I != nil {
		return fmt.Sprint(*o.I)
	}
	return o.S
}

// persistentFnKinds: Persistent over a function-valued variable (whole and indexed writes), observed in memory and
// in the database.
var persistentFnKinds = []string{"persistent-fn", "persistent-shared-fn"}

var quickKinds = []string{"local", "ilocal", "reflocal", "incmap", "hashmap", "inchan", "outchan", "shared"}
var slowKinds = []string{"file", "persistent", "persistent-shared", "custominchan", "plog", "tcpout", "twopc", "crdt"}

// build creates a fresh instance of kind under variable name.
func build(kind, name string, env *wenv) *instance {
	in := &instance{kind: kind, name: name}
	wrap := func(res distsys.ArchetypeResource) {
		in.plan = gate2.NoFault()
		in.v = gate2.Var{Name: name, Ref: true}
		in.bind = distsys.EnsureArchetypeRefParam(name, gate2.NewFaulty(res, in.plan))
	}
	switch kind {
	case "local":
		in.cat = "cell"
		in.init = &mres{cell: name + "_0"}
		in.v = gate2.Var{Name: name, Init: tla.MakeString(in.init.cell)}
		in.menu = []gate2.Op{opR(name), opW(name)}
		in.observe = func(g *gate2.Gate) (string, error) {
			v, ok := g.Local("A." + name)
			if !ok {
				return "", fmt.Errorf("no local A.%s", name)
			}
			return strOf(v), nil
		}
	case "ilocal":
		in.cat = "map"
		in.init = &mres{idx: map[string]string{"1": name + "_1_0", "2": name + "_2_0"}}
		in.v = gate2.Var{Name: name, Init: tla.MakeTuple(tla.MakeString(in.init.idx["1"]), tla.MakeString(in.init.idx["2"]))}
		in.menu = []gate2.Op{opRI(name, 1), opWI(name, 1), opWI(name, 2)}
		in.observe = func(g *gate2.Gate) (s string, err error) {
			defer func() {
				if x := recover(); x != nil {
					err = fmt.Errorf("%v", x)
				}
			}()
			v, ok := g.Local("A." + name)
			if !ok {
				return "", fmt.Errorf("no local A.%s", name)
			}
			return "1=" + strOf(v.ApplyFunction(tla.MakeNumber(1))) + ";2=" + strOf(v.ApplyFunction(tla.MakeNumber(2))) + ";", nil
		}
	case "reflocal":
		in.cat = "cell"
		in.init = &mres{cell: name + "_0"}
		l := distsys.NewLocalArchetypeResource(tla.MakeString(in.init.cell))
		wrap(l)
		in.menu = []gate2.Op{opR(name), opW(name)}
		in.observe = func(g *gate2.Gate) (string, error) {
			v, err := localValue(g, l)
			return strOf(v), err
		}
	case "incmap", "hashmap":
		in.cat = "map"
		in.init = &mres{idx: map[string]string{"1": name + "_1_0", "2": name + "_2_0"}}
		elems := map[string]*distsys.LocalArchetypeResource{}
		var res distsys.ArchetypeResource
		if kind == "incmap" {
			res = resources.NewIncMap(func(index tla.Value) distsys.ArchetypeResource {
				k := fmt.Sprint(index.AsNumber())
				l := distsys.NewLocalArchetypeResource(tla.MakeString(name + "_" + k + "_0"))
				elems[k] = l
				return l
			})
			in.menu = []gate2.Op{opRI(name, 1), opWI(name, 1), opRI(name, 2), opWI(name, 2)}
		} else {
			hm := hashmap.New[distsys.ArchetypeResource]()
			for _, k := range []int{1, 2} {
				l := distsys.NewLocalArchetypeResource(tla.MakeString(fmt.Sprintf("%s_%d_0", name, k)))
				elems[fmt.Sprint(k)] = l
				hm.Set(tla.MakeNumber(int32(k)), l)
			}
			res = resources.NewHashMap(hm)
			in.menu = []gate2.Op{opRI(name, 1), opWI(name, 1), opWI(name, 2)}
		}
		wrap(res)
		in.observe = func(g *gate2.Gate) (string, error) {
			var b strings.Builder
			for _, k := range []string{"1", "2"} {
				val := name + "_" + k + "_0" // an element that was never realised still has its fill value
				if l, ok := elems[k]; ok {
					v, err := localValue(g, l)
					if err != nil {
						return "", err
					}
					val = strOf(v)
				}
				b.WriteString(k + "=" + val + ";")
			}
			return b.String(), nil
		}
	case "inchan":
		in.cat = "in"
		in.init = &mres{}
		ch := make(chan tla.Value, nInputs+4)
		for i := 1; i <= nInputs; i++ {
			s := fmt.Sprintf("%s_in%d", name, i)
			in.init.in = append(in.init.in, s)
			ch <- tla.MakeString(s)
		}
		// the channel always holds enough inputs, so no read ever waits: the timeout is only a safety net
		ic := resources.NewInputChan(ch, resources.WithInputChanReadTimeout(20*time.Second))
		wrap(ic)
		in.menu = []gate2.Op{opR(name)}
		in.observe = func(*gate2.Gate) (string, error) {
			var pend []string
			h, ok := any(ic).(interface {
				VerifBuffered() (buffer, backlog []tla.Value)
			})
			if !ok {
				return "", errNoHook
			}
			buf, backlog := h.VerifBuffered()
			if len(backlog) != 0 {
				return "", fmt.Errorf("%d consumed inputs still held as in-flight at a label boundary", len(backlog))
			}
			for _, v := range buf {
				pend = append(pend, strOf(v))
			}
			n := len(ch)
			for i := 0; i < n; i++ {
				v := <-ch
				pend = append(pend, strOf(v))
				ch <- v
			}
			return "pending[" + strings.Join(pend, ",") + "]", nil
		}
	case "outchan":
		in.cat = "out"
		in.init = &mres{}
		ch := make(chan tla.Value, 64)
		wrap(resources.NewOutputChan(ch))
		in.menu = []gate2.Op{opW(name)}
		var delivered []string
		in.observe = func(*gate2.Gate) (string, error) {
			for len(ch) > 0 {
				delivered = append(delivered, strOf(<-ch))
			}
			return "delivered[" + strings.Join(delivered, ",") + "]", nil
		}
	case "shared", "persistent-shared":
		in.cat = "cell"
		in.init = &mres{cell: name + "_0", persist: kind == "persistent-shared"}
		mgr := resources.NewLocalSharedManager(tla.MakeString(in.init.cell), resources.WithLocalSharedResourceTimeout(20*time.Second))
		var res distsys.ArchetypeResource = mgr.MakeLocalShared()
		var db *badgerDB
		env.seq++
		pname := fmt.Sprintf("%s-%d-%d", name, env.w, env.seq)
		if kind == "persistent-shared" {
			db = openBadger(env)
			res = resources.MakePersistent(pname, db.db, mgr.MakeLocalShared())
		}
		wrap(res)
		in.menu = []gate2.Op{opR(name), opW(name)}
		obs := mgr.MakeLocalShared()
		in.observe = func(*gate2.Gate) (string, error) {
			// GetState takes the variable's lock; a section that ended (either way) must have released it.
			// With the overlay hook a leaked lock is seen at once; without it, by GetState blocking for 30 s.
			if h, ok := any(mgr).(interface{ VerifLocked() bool }); ok && h.VerifLocked() {
				return "", errLockHeld
			}
			type r struct {
				b   []byte
				err error
			}
			done := make(chan r, 1)
			go func() {
				b, err := obs.GetState()
				done <- r{b, err}
			}()
			select {
			case x := <-done:
				if x.err != nil {
					return "", x.err
				}
				v, err := env.gobs.decode(x.b)
				if err != nil {
					return "", err
				}
				s := strOf(v)
				if db != nil {
					p, err := db.read("pres-" + pname)
					if err != nil {
						return "", err
					}
					s += "|stored=" + p
				}
				return s, nil
			case <-time.After(30 * time.Second):
				return "", errLockHeld
			}
		}
	case "persistent":
		in.cat = "cell"
		in.init = &mres{cell: name + "_0", persist: true}
		l := distsys.NewLocalArchetypeResource(tla.MakeString(in.init.cell))
		db := openBadger(env)
		env.seq++
		pname := fmt.Sprintf("%s-%d-%d", name, env.w, env.seq)
		wrap(resources.MakePersistent(pname, db.db, l))
		in.menu = []gate2.Op{opR(name), opW(name)}
		in.observe = func(g *gate2.Gate) (string, error) {
			v, err := localValue(g, l)
			if err != nil {
				return "", err
			}
			p, err := db.read("pres-" + pname)
			if err != nil {
				return "", err
			}
			return strOf(v) + "|stored=" + p, nil
		}
	case "file":
		in.cat = "map"
		env.seq++
		dir := filepath.Join(env.scratch, fmt.Sprintf("fs-%d-%d", env.w, env.seq))
		os.MkdirAll(dir, 0o755)
		in.init = &mres{idx: map[string]string{"fa": name + "_fa_0", "fb": name + "_fb_0"}}
		for k, v := range in.init.idx {
			os.WriteFile(filepath.Join(dir, k), []byte(v), 0o644)
		}
		wrap(resources.NewFileSystem(dir))
		in.menu = []gate2.Op{{K: "r", R: name, S: "fa"}, {K: "w", R: name, S: "fa"}, {K: "w", R: name, S: "fb"}}
		in.observe = func(*gate2.Gate) (string, error) {
			var b strings.Builder
			for _, k := range []string{"fa", "fb"} {
				c, err := os.ReadFile(filepath.Join(dir, k))
				if err != nil {
					return "", err
				}
				b.WriteString(k + "=" + string(c) + ";")
			}
			return b.String(), nil
		}
		in.fin = func() { os.RemoveAll(dir) }
	case "persistent-fn", "persistent-shared-fn":
		in.cat = "map"
		in.init = &mres{idx: map[string]string{"1": name + "_1_0", "2": name + "_2_0"}, persist: true}
		initV := tla.MakeTuple(tla.MakeString(in.init.idx["1"]), tla.MakeString(in.init.idx["2"]))
		db := openBadger(env)
		env.seq++
		pname := fmt.Sprintf("%s-%d-%d", name, env.w, env.seq)
		var inMemory func(g *gate2.Gate) (tla.Value, error)
		if kind == "persistent-fn" {
			l := distsys.NewLocalArchetypeResource(initV)
			wrap(resources.MakePersistent(pname, db.db, l))
			inMemory = func(g *gate2.Gate) (tla.Value, error) { return localValue(g, l) }
		} else {
			mgr := resources.NewLocalSharedManager(initV, resources.WithLocalSharedResourceTimeout(20*time.Second))
			wrap(resources.MakePersistent(pname, db.db, mgr.MakeLocalShared()))
			obs := mgr.MakeLocalShared()
			inMemory = func(*gate2.Gate) (tla.Value, error) {
				if h, ok := any(mgr).(interface{ VerifLocked() bool }); ok && h.VerifLocked() {
					return tla.Value{}, errLockHeld
				}
				b, err := obs.GetState()
				if err != nil {
					return tla.Value{}, err
				}
				return env.gobs.decode(b)
			}
		}
		in.menu = []gate2.Op{opRI(name, 1), opWI(name, 1), opWI(name, 2), opW(name)}
		in.valueOf = func(o gate2.Op) (tla.Value, bool) {
			if o.I == nil && o.S == "" { // whole-variable write: a new function
				return tla.MakeTuple(tla.MakeString(o.V+"a"), tla.MakeString(o.V+"b")), true
			}
			return tla.Value{}, false
		}
		renderFn := func(v tla.Value) string {
			es := tupleStrings(v)
			if len(es) != 2 {
				return fmt.Sprintf("<%v>", v)
			}
			return "1=" + es[0] + ";2=" + es[1] + ";"
		}
		in.observe = func(g *gate2.Gate) (string, error) {
			v, err := inMemory(g)
			if err != nil {
				return "", err
			}
			// what is really in the database under the wrapper's key
			sv, found, err := db.readValue("pres-" + pname)
			if err != nil {
				return "", err
			}
			stored := ""
			if found {
				stored = renderFn(sv)
			}
			return renderFn(v) + "|stored=" + stored, nil
		}
	case "custominchan":
		in.cat = "in"
		in.init = &mres{}
		ch := make(chan tla.Value, nInputs+4)
		for i := 1; i <= nInputs; i++ {
			s := fmt.Sprintf("%s_in%d", name, i)
			in.init.in = append(in.init.in, s)
			ch <- tla.MakeString(s)
		}
		ic := raftkvs.NewCustomInChan(ch, 20*time.Second)
		wrap(ic)
		in.menu = []gate2.Op{opR(name)}
		in.observe = func(*gate2.Gate) (string, error) {
			var pend []string
			h, ok := any(ic).(interface {
				VerifBuffered() (buffer, backlog []tla.Value)
			})
			if !ok {
				return "", errNoHook
			}
			buf, backlog := h.VerifBuffered()
			if len(backlog) != 0 {
				return "", fmt.Errorf("%d consumed inputs still held as in-flight at a label boundary", len(backlog))
			}
			for _, v := range buf {
				pend = append(pend, strOf(v))
			}
			n := len(ch)
			for i := 0; i < n; i++ {
				v := <-ch
				pend = append(pend, strOf(v))
				ch <- v
			}
			return "pending[" + strings.Join(pend, ",") + "]", nil
		}
	case "plog":
		in.cat = "log"
		in.init = &mres{}
		db := openBadger(env)
		env.seq++
		pname := fmt.Sprintf("%s-%d-%d", name, env.w, env.seq)
		pl := raftkvs.NewPersistentLog(pname, db.db)
		wrap(pl)
		in.menu = []gate2.Op{opR(name), opW(name), {K: "w", R: name, V: "pop"}}
		in.valueOf = func(o gate2.Op) (tla.Value, bool) {
			if o.V == "pop" {
				return tla.MakeRecord([]tla.RecordField{{Key: tla.MakeString("cmd"), Value: tla.MakeString("log_pop")}, {Key: tla.MakeString("cnt"), Value: tla.MakeNumber(1)}}), true
			}
			return tla.MakeRecord([]tla.RecordField{{Key: tla.MakeString("cmd"), Value: tla.MakeString("log_concat")}, {Key: tla.MakeString("entries"), Value: tla.MakeTuple(tla.MakeString(o.V))}}), true
		}
		in.observe = func(g *gate2.Gate) (string, error) {
			v, err := pl.ReadValue(g.Ctx.IFace())
			if err != nil {
				return "", err
			}
			cur := tupleStrings(v)
			var stored []string
			for i := 0; ; i++ {
				s, ok, err := db.readRaw(fmt.Sprintf("raftkvs.plog.%v.%d", pname, i))
				if err != nil {
					return "", err
				}
				if !ok {
					break
				}
				stored = append(stored, s)
			}
			return "list[" + strings.Join(cur, ",") + "]|stored[" + strings.Join(stored, ",") + "]", nil
		}
	case "tcpout":
		in.cat = "out"
		in.init = &mres{}
		addr := fmt.Sprintf("127.0.0.1:%d", env.port())
		wr := resources.NewTCPMailboxes(func(tla.Value) (resources.MailboxKind, string) { return resources.MailboxesRemote, addr },
			resources.WithMailboxesDialTimeout(5*time.Second), resources.WithMailboxesWriteTimeout(5*time.Second))
		rd := resources.NewTCPMailboxes(func(tla.Value) (resources.MailboxKind, string) { return resources.MailboxesLocal, addr },
			resources.WithMailboxesReadTimeout(3*time.Millisecond))
		func() {
			defer func() {
				if x := recover(); x != nil {
					panic(envProblem{fmt.Sprint(x)})
				}
			}()
			rd.Index(distsys.ArchetypeInterface{}, tla.MakeNumber(1))
		}()
		wrap(gate2.AsyncClose{ArchetypeResource: wr})
		in.menu = []gate2.Op{opWI(name, 1)}
		var delivered []string
		drain := func(g *gate2.Gate) error {
			for {
				sub, err := rd.Index(g.Ctx.IFace(), tla.MakeNumber(1))
				if err != nil {
					return err
				}
				v, err := sub.ReadValue(g.Ctx.IFace())
				if err != nil {
					return nil // nothing (more) is waiting at the receiver
				}
				delivered = append(delivered, strOf(v))
				rd.Commit(g.Ctx.IFace())
			}
		}
		in.observeWant = func(g *gate2.Gate, want string) (string, error) {
			deadline := time.Now().Add(15 * time.Second)
			for {
				if err := drain(g); err != nil {
					return "", err
				}
				got := "delivered[" + strings.Join(delivered, ",") + "]"
				if got == want || len(got) > len(want) || time.Now().After(deadline) {
					return got, nil
				}
			}
		}
		in.fin = func() { gate2.AsyncClose{ArchetypeResource: rd}.Close() }
	case "twopc":
		in.cat = "cell"
		in.init = &mres{cell: name + "_0"}
		addr := fmt.Sprintf("127.0.0.1:%d", env.port())
		var rcvr *resources.TwoPCReceiver
		res := resources.NewTwoPC(tla.MakeString(in.init.cell), addr, nil, tla.MakeString(name), func(r *resources.TwoPCReceiver) { rcvr = r })
		wrap(res)
		in.menu = []gate2.Op{opR(name), opW(name)}
		in.observe = func(*gate2.Gate) (string, error) {
			h, ok := any(rcvr).(interface {
				VerifC01State() (value, oldValue tla.Value, inCS bool)
			})
			if !ok {
				return "", errNoHook
			}
			v, old, inCS := h.VerifC01State()
			if inCS {
				return "", fmt.Errorf("the 2PC variable still has a critical section open at a label boundary")
			}
			if !v.Equal(old) {
				return "", fmt.Errorf("current value %v differs from the committed value %v at a label boundary", v, old)
			}
			return strOf(v), nil
		}
		in.fin = func() {
			defer func() { recover() }()
			resources.CloseTwoPCReceiver(rcvr)
		}
	case "crdt":
		in.cat = "counter"
		in.init = &mres{cell: "0"}
		addr := fmt.Sprintf("127.0.0.1:%d", env.port())
		id := tla.MakeString(name)
		res := resources.NewCRDT(id, nil, func(tla.Value) string { return addr }, resources.GCounter{}, resources.WithCRDTBroadcastInterval(5*time.Millisecond))
		wrap(gate2.AsyncClose{ArchetypeResource: res})
		in.menu = []gate2.Op{opR(name), opW(name)}
		in.valueOf = func(o gate2.Op) (tla.Value, bool) { return tla.MakeNumber(int32(counterAmount(o))), true }
		in.observe = func(g *gate2.Gate) (string, error) {
			v, err := res.ReadValue(g.Ctx.IFace())
			if err != nil {
				return "", err
			}
			return fmt.Sprint(v.AsNumber()), nil
		}
		// a scripted peer: a plain net/rpc client on the resource's own listener that gossips nothing (nil state, so
		// nothing is merged into the resource) and keeps what the resource answers
		var peer *rpc.Client
		in.remote = func() (string, error) {
			if peer == nil {
				conn, err := net.DialTimeout("tcp", addr, 5*time.Second)
				if err != nil {
					return "", envError{err}
				}
				peer = rpc.NewClient(conn)
			}
			var reply resources.ReceiveValueResp
			call := peer.Go("CRDTRPCReceiver.ReceiveValue", resources.ReceiveValueArgs{}, &reply, nil)
			select {
			case <-call.Done:
				if call.Error != nil {
					return "", envError{call.Error}
				}
			case <-time.After(15 * time.Second):
				return "", envError{fmt.Errorf("gossip RPC timed out")}
			}
			if reply.Value == nil {
				return "", fmt.Errorf("gossip reply carries no state")
			}
			return fmt.Sprint(reply.Value.Read().AsNumber()), nil
		}
		in.fin = func() {
			if peer != nil {
				peer.Close()
			}
			gate2.AsyncClose{ArchetypeResource: res}.Close()
		}
	default:
		panic("c01: unknown kind " + kind)
	}
	return in
}

// counterAmount is what a "w" operation adds to a grow-only counter (derived from its unique tag "t<sec><op>").
func counterAmount(o gate2.Op) int {
	n := 0
	for _, c := range o.V {
		if c >= '0' && c <= '9' {
			n = n*10 + int(c-'0')
		}
	}
	return n + 1
}

func tupleStrings(v tla.Value) (out []string) {
	defer func() { recover() }()
	it := v.StripVClock().AsTuple().Iterator()
	for !it.Done() {
		_, e := it.Next()
		out = append(out, strOf(e))
	}
	return out
}

type envProblem struct{ what string }

// envError marks an error of the environment (dial, RPC transport): the run is discarded, never judged.
type envError struct{ error }

func (e *wenv) port() int {
	for i := 0; i < 3000; i++ {
		p := e.portBase + e.portNext%300
		e.portNext++
		l, err := net.Listen("tcp", fmt.Sprintf("127.0.0.1:%d", p))
		if err == nil {
			l.Close()
			return p
		}
	}
	panic(envProblem{"no free loopback port"})
}

var errNoHook = fmt.Errorf("overlay hook VerifBuffered not compiled in")
var errLockHeld = fmt.Errorf("the shared variable's lock is still held after the section ended")

package c01

import (
	"bytes"
	"encoding/gob"
	"fmt"
	"sync"

	"github.com/DistCompiler/pgo/distsys/tla"
	"github.com/dgraph-io/badger/v3"
)

// badgerDB is the per-worker in-memory badger instance used by the persistent kinds.
type badgerDB struct {
	db *badger.DB
}

var (
	dbMu    sync.Mutex
	openDBs []*wenv
)

// closeBadgers closes every database opened so far (called between families: an open in-memory badger keeps
// large arenas and background goroutines alive and slows everything that runs after it).
func closeBadgers() {
	dbMu.Lock()
	defer dbMu.Unlock()
	for _, env := range openDBs {
		if env.db != nil {
			env.db.db.Close()
			env.db = nil
		}
	}
	openDBs = nil
}

func openBadger(env *wenv) *badgerDB {
	if env.db != nil {
		return env.db
	}
	opt := badger.DefaultOptions("").WithInMemory(true).WithLogger(nil).WithNumGoroutines(1).WithNumCompactors(2)
	db, err := badger.Open(opt)
	if err != nil {
		panic(fmt.Errorf("c01: cannot open in-memory badger: %w", err))
	}
	env.db = &badgerDB{db: db}
	dbMu.Lock()
	openDBs = append(openDBs, env)
	dbMu.Unlock()
	return env.db
}

// read returns the string value stored under key ("" if the key does not exist).
func (b *badgerDB) read(key string) (string, error) {
	var out string
	err := b.db.View(func(txn *badger.Txn) error {
		item, err := txn.Get([]byte(key))
		if err == badger.ErrKeyNotFound {
			return nil
		}
		if err != nil {
			return err
		}
		return item.Value(func(val []byte) error {
			var v tla.Value
			if err := gob.NewDecoder(bytes.NewBuffer(val)).Decode(&v); err != nil {
				return err
			}
			out = strOf(v)
			return nil
		})
	})
	return out, err
}

// readRaw returns the string entry stored under key and whether the key exists.
func (b *badgerDB) readRaw(key string) (string, bool, error) {
	var out string
	found := false
	err := b.db.View(func(txn *badger.Txn) error {
		item, err := txn.Get([]byte(key))
		if err == badger.ErrKeyNotFound {
			return nil
		}
		if err != nil {
			return err
		}
		found = true
		return item.Value(func(val []byte) error {
			var v tla.Value
			if err := gob.NewDecoder(bytes.NewBuffer(val)).Decode(&v); err != nil {
				return err
			}
			out = strOf(v)
			return nil
		})
	})
	return out, found, err
}

// readValue returns the value stored under key and whether the key exists.
func (b *badgerDB) readValue(key string) (tla.Value, bool, error) {
	var out tla.Value
	found := false
	err := b.db.View(func(txn *badger.Txn) error {
		item, err := txn.Get([]byte(key))
		if err == badger.ErrKeyNotFound {
			return nil
		}
		if err != nil {
			return err
		}
		found = true
		return item.Value(func(val []byte) error {
			return gob.NewDecoder(bytes.NewBuffer(val)).Decode(&out)
		})
	})
	return out, found, err
}

func (b *badgerDB) close() {}

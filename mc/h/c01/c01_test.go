package c01

import (
	"encoding/json"
	"errors"
	"fmt"
	"os"
	"path/filepath"
	"runtime/debug"
	"sort"
	"strings"
	"sync"
	"testing"
	"time"

	"github.com/DistCompiler/pgo/distsys"
	"github.com/DistCompiler/pgo/distsys/tla"
	"verif/mc/explore"
	"verif/mc/gate2"
	"verif/mc/hres"
)

// fault is where the first attempt of one section fails.
type fault struct {
	Kind string `json:"kind"`        // none | body | op | precommit
	Sec  int    `json:"sec"`         // section whose first attempt fails
	K    int    `json:"k,omitempty"` // body: before op K (K = len(ops): after the last one); op: the K-th refusable operation of R in the section
	R    string `json:"r,omitempty"` // resource (op / precommit)
}

func (f fault) String() string {
	switch f.Kind {
	case "none":
		return "none"
	case "body":
		return fmt.Sprintf("s%d: await false before op %d", f.Sec, f.K)
	case "op":
		return fmt.Sprintf("s%d: %s refuses its operation #%d", f.Sec, f.R, f.K)
	case "precommit":
		return fmt.Sprintf("s%d: %s refuses PreCommit", f.Sec, f.R)
	}
	return "?"
}

// bounds of one exploration family.
type bounds struct {
	Name        string
	Kinds       []string
	MinKinds    int
	MaxKinds    int
	MaxSec      int
	MaxOps      int      // per section
	MaxTotal    int      // operations in the whole program
	MustHave    []string // every configuration contains at least one of these kinds (nil: no constraint)
	MustHaveToo []string // ... and at least one of these (nil: no constraint)
	DoubleFault bool     // also enumerate a second failing attempt (await false at every position) before the successful retry
}

func combos(kinds []string, k int) [][]string {
	var out [][]string
	var rec func(start int, acc []string)
	rec = func(start int, acc []string) {
		if len(acc) == k {
			out = append(out, append([]string{}, acc...))
			return
		}
		for i := start; i < len(kinds); i++ {
			rec(i+1, append(acc, kinds[i]))
		}
	}
	rec(0, nil)
	return out
}

func configs(b bounds) [][]string {
	var out [][]string
	for k := b.MinKinds; k <= b.MaxKinds; k++ {
		for _, c := range combos(b.Kinds, k) {
			ok := len(b.MustHave) == 0
			for _, m := range b.MustHave {
				for _, x := range c {
					if x == m {
						ok = true
					}
				}
			}
			ok2 := len(b.MustHaveToo) == 0
			for _, m := range b.MustHaveToo {
				for _, x := range c {
					if x == m {
						ok2 = true
					}
				}
			}
			if ok && ok2 {
				out = append(out, c)
			}
		}
	}
	return out
}

// refusable counts the operations of o that reach instance `in` through the ArchetypeResource interface.
func refusable(o gate2.Op) int {
	if o.I != nil || o.S != "" {
		return 2 // Index, then ReadValue/WriteValue on the sub-resource
	}
	return 1
}

func faultMenu(secs []gate2.Section, insts []*instance) []fault {
	out := []fault{{Kind: "none"}}
	for s, sec := range secs {
		for k := 0; k <= len(sec.Ops); k++ {
			out = append(out, fault{Kind: "body", Sec: s, K: k})
		}
		for _, in := range insts {
			if in.plan == nil {
				continue
			}
			n := 0
			for _, o := range sec.Ops {
				if o.R == in.name {
					n += refusable(o)
				}
			}
			for k := 0; k < n; k++ {
				out = append(out, fault{Kind: "op", Sec: s, K: k, R: in.name})
			}
			if n > 0 {
				out = append(out, fault{Kind: "precommit", Sec: s, R: in.name})
			}
		}
	}
	return out
}

type failure struct {
	key, what string
}

type caseSpec struct {
	Config []string        `json:"config"`
	Secs   []gate2.Section `json:"sections"`
	Fault  fault           `json:"fault"`
	// Fault2 (optional, Kind body): the retry of the same section fails too, before its operation K; the third attempt succeeds
	Fault2 *fault `json:"fault2,omitempty"`
}

func (c caseSpec) String() string {
	var b strings.Builder
	fmt.Fprintf(&b, "resources %v;", c.Config)
	for i, s := range c.Secs {
		fmt.Fprintf(&b, " s%d:", i)
		for _, o := range s.Ops {
			b.WriteString(" " + o.String() + ";")
		}
	}
	b.WriteString(" fault: " + c.Fault.String())
	if c.Fault2 != nil {
		b.WriteString("; then the retry: " + c.Fault2.String())
	}
	return b.String()
}

// tx is one attempt evaluated on the reference store.
type tx struct {
	m     map[string]*mres
	wrote map[string]bool
	pend  map[string][]string // messages written to an output in this attempt
}

func newTx(m map[string]*mres) *tx {
	t := &tx{m: map[string]*mres{}, wrote: map[string]bool{}, pend: map[string][]string{}}
	for k, v := range m {
		t.m[k] = v.clone()
	}
	return t
}

// read returns the value the reference predicts for a read.
func (t *tx) read(in *instance, o gate2.Op) (string, error) {
	r := t.m[in.name]
	switch in.cat {
	case "cell":
		return r.cell, nil
	case "map":
		return r.idx[idxKey(o)], nil
	case "counter":
		return r.cell, nil
	case "log":
		return strings.Join(r.list, ","), nil
	case "in":
		if len(r.in) == 0 {
			return "", errors.New("reference: read from an empty input")
		}
		v := r.in[0]
		r.in = r.in[1:]
		return v, nil
	}
	return "", errors.New("reference: read from a write-only resource")
}

func (t *tx) write(in *instance, o gate2.Op, v string) error {
	r := t.m[in.name]
	t.wrote[in.name] = true
	switch in.cat {
	case "counter":
		var n int
		fmt.Sscan(r.cell, &n)
		r.cell = fmt.Sprint(n + counterAmount(o))
	case "log":
		if o.V == "pop" {
			if len(r.list) == 0 {
				return errors.New("reference: pop from an empty log")
			}
			r.list = r.list[:len(r.list)-1]
		} else {
			r.list = append(r.list, o.V)
		}
	case "cell":
		r.cell = v
	case "map":
		if idxKey(o) == "" { // whole-variable write of a function-valued variable: two fresh tags
			r.idx["1"], r.idx["2"] = o.V+"a", o.V+"b"
		} else {
			r.idx[idxKey(o)] = v
		}
	case "out":
		t.pend[in.name] = append(t.pend[in.name], v)
	}
	return nil
}

// renderVal renders a value the body read in the reference's format for the instance's category.
func renderVal(in *instance, v tla.Value) string {
	switch in.cat {
	case "log":
		return strings.Join(tupleStrings(v), ",")
	case "counter":
		s := "?"
		func() {
			defer func() { recover() }()
			s = fmt.Sprint(v.StripVClock().AsNumber())
		}()
		return s
	}
	return strOf(v)
}

func (t *tx) commit() map[string]*mres {
	for name, msgs := range t.pend {
		t.m[name].out = append(t.m[name].out, msgs...)
	}
	for name := range t.wrote {
		if t.m[name].persist {
			t.m[name].stored = t.m[name].cell
			t.m[name].wroteEver = true
		}
	}
	return t.m
}

func renderAll(insts []*instance, m map[string]*mres) string {
	var b strings.Builder
	for _, in := range insts {
		b.WriteString(in.name + ":" + m[in.name].render(in.cat) + " ")
	}
	return b.String()
}

type runStats struct {
	noHook       bool
	timingAbort  int
	remoteProbes int
}

// runCase executes one case on a real context and judges it.  discarded != "" means an environment problem.
func runCase(cs caseSpec, env *wenv, st *runStats) (outcome string, fail *failure, discarded string) {
	var insts []*instance
	byName := map[string]*instance{}
	for i, k := range cs.Config {
		in := build(k, fmt.Sprintf("v%d", i), env)
		insts = append(insts, in)
		byName[in.name] = in
	}
	defer func() {
		for _, in := range insts {
			if in.fin != nil {
				in.fin()
			}
		}
	}()
	model := map[string]*mres{}
	for _, in := range insts {
		model[in.name] = in.init.clone()
	}

	// program = the case's sections, then observer sections (one per readable instance): a fresh committed
	// section that reads every cell / every map element / the next two inputs through the archetype itself
	secs := append([]gate2.Section{}, cs.Secs...)
	nProg := len(secs)
	for _, in := range insts {
		var ops []gate2.Op
		switch in.cat {
		case "cell", "log", "counter":
			ops = []gate2.Op{opR(in.name)}
		case "map":
			keys := make([]string, 0, 2)
			for k := range in.init.idx {
				keys = append(keys, k)
			}
			sort.Strings(keys)
			for _, k := range keys {
				o := gate2.Op{K: "r", R: in.name}
				if k == "1" || k == "2" {
					var n int
					fmt.Sscan(k, &n)
					o.I = intp(n)
				} else {
					o.S = k
				}
				ops = append(ops, o)
			}
		case "in":
			ops = []gate2.Op{opR(in.name), opR(in.name)}
		}
		if len(ops) > 0 {
			secs = append(secs, gate2.Section{Ops: ops})
		}
	}
	for i := range secs {
		secs[i].Next = i + 1
		if i == len(secs)-1 {
			secs[i].Next = -1
		}
	}
	// unique tags
	for s := range secs {
		ops := append([]gate2.Op{}, secs[s].Ops...)
		for i := range ops {
			if ops[i].K == "w" && ops[i].V == "" {
				ops[i].V = fmt.Sprintf("t%d%d", s, i)
			}
		}
		secs[s].Ops = ops
	}
	var vars []gate2.Var
	var cfg []distsys.MPCalContextConfigFn
	for _, in := range insts {
		vars = append(vars, in.v)
		if in.bind != nil {
			cfg = append(cfg, in.bind)
		}
	}
	// the fault-free program must be within every resource's contract (e.g. no pop from an empty log): judged
	// on the reference alone, before anything runs
	{
		dry := map[string]*mres{}
		for k, v := range model {
			dry[k] = v.clone()
		}
		for s := range secs {
			t := newTx(dry)
			for _, o := range secs[s].Ops {
				in := byName[o.R]
				if o.K == "r" {
					if _, err := t.read(in, o); err != nil {
						return "", nil, err.Error()
					}
				} else if err := t.write(in, o, o.V); err != nil {
					return "", nil, err.Error()
				}
			}
			dry = t.commit()
		}
	}
	script := &gate2.Script{Prog: gate2.Program{Arch: "A", Vars: vars, Sections: secs}}
	script.ValueOf = func(o gate2.Op) (tla.Value, bool) {
		if in := byName[o.R]; in != nil && in.valueOf != nil {
			return in.valueOf(o)
		}
		return tla.Value{}, false
	}

	// arm the fault: it hits the first attempt of section Fault.Sec; counters of the fault-free prefix are static
	f := cs.Fault
	firstAttemptOf := map[int]int{} // section -> attempt index of its first attempt (filled while running)
	switch f.Kind {
	case "body":
		script.AbortAt = func(sec, op, attempt int) bool {
			fa, ok := firstAttemptOf[sec]
			return sec == f.Sec && ok && fa == attempt && op == f.K
		}
	}
	if f2 := cs.Fault2; f2 != nil {
		prev := script.AbortAt
		script.AbortAt = func(sec, op, attempt int) bool {
			if prev != nil && prev(sec, op, attempt) {
				return true
			}
			fa, ok := firstAttemptOf[sec]
			return sec == f.Sec && ok && fa+1 == attempt && op == f2.K
		}
	}
	switch f.Kind {
	case "op", "precommit":
		in := byName[f.R]
		base, pcs := 0, 0
		for s := 0; s < f.Sec; s++ {
			touched := false
			for _, o := range secs[s].Ops {
				if o.R == f.R {
					base += refusable(o)
					touched = true
				}
			}
			if touched {
				pcs++
			}
		}
		if f.Kind == "op" {
			in.plan.RefuseOp = base + f.K
		} else {
			in.plan.RefusePreCommit = pcs
		}
	}

	// remote observers look at the resources from inside every attempt (before each operation and right before
	// the abort/commit decision); the driver is blocked in Step meanwhile, so the slice needs no lock
	type probeRec struct {
		in      *instance
		sec, op int
		got     string
		err     error
	}
	var probes []probeRec
	maxRemote := map[string]int{} // grow-only counters: the largest state any remote peer ever received
	script.Probe = func(sec, op, attempt int) {
		for _, in := range insts {
			if in.remote != nil {
				got, err := in.remote()
				probes = append(probes, probeRec{in, sec, op, got, err})
			}
		}
	}
	g := gate2.New(tla.MakeString("self"), script.Archetype(), gate2.Options{Timeout: 90 * time.Second}, cfg...)
	defer g.Kill()
	if r := g.Start(); r.Ended || r.Hung {
		return "", &failure{"start/failed", fmt.Sprintf("Run ended before the first section: err=%v panic=%v", r.Err, r.Panic)}, ""
	}

	checkState := func(when, sub string, kindOfFault string) *failure {
		for name, n := range maxRemote {
			var committed int
			fmt.Sscan(model[name].cell, &committed)
			if n > committed {
				return &failure{byName[name].kind + "/" + kindOfFault + "/remote-keeps-uncommitted", fmt.Sprintf("%s: a remote peer of %s holds state %d, more than was ever committed (%d)  | %s", when, name, n, committed, cs)}
			}
		}
		for _, in := range insts {
			want := model[in.name].render(in.cat)
			var got string
			var err error
			if in.observeWant != nil {
				got, err = in.observeWant(g, want)
			} else {
				got, err = in.observe(g)
			}
			if err == errNoHook {
				st.noHook = true
				continue
			}
			if err == errLockHeld {
				return &failure{in.kind + "/" + kindOfFault + "/lock-held-" + sub, fmt.Sprintf("%s: %s (%s): %v  | %s", when, in.name, in.kind, err, cs)}
			}
			if err != nil {
				return &failure{in.kind + "/" + kindOfFault + "/unreadable-" + sub, fmt.Sprintf("%s: cannot read back %s (%s): %v  | %s", when, in.name, in.kind, err, cs)}
			}
			if !acceptable(got, want) {
				return &failure{in.kind + "/" + kindOfFault + "/state-" + sub, fmt.Sprintf("%s: observable state of %s (%s) is %s, the transactional reference gives %s  | %s", when, in.name, in.kind, got, want, cs)}
			}
		}
		return nil
	}
	if fl := checkState("before the first section", "initial", "none"); fl != nil {
		return "", fl, ""
	}

	faultDone := false
	for s := 0; s < len(secs); s++ {
		label := fmt.Sprintf("A.s%d", s)
		for try := 0; ; try++ {
			if try > 3 {
				return "", &failure{"retry/never-succeeds", fmt.Sprintf("section s%d still failing after %d attempts  | %s", s, try, cs)}, ""
			}
			if g.Parked() != label {
				return "", &failure{"pc/wrong-label", fmt.Sprintf("context parked at %s, expected %s  | %s", g.Parked(), label, cs)}, ""
			}
			if _, ok := firstAttemptOf[s]; !ok {
				firstAttemptOf[s] = script.Attempt
			}
			planned := s < nProg && s == f.Sec && f.Kind != "none" && !faultDone
			planned2 := s < nProg && s == f.Sec && cs.Fault2 != nil && faultDone && try == 1
			mark := len(script.Obs)
			sr := g.Step()
			if sr.Hung {
				return "", &failure{"hang/" + strings.Join(cs.Config, "+"), fmt.Sprintf("no progress for 90 s in section s%d  | %s", s, cs)}, ""
			}
			if sr.Ended {
				return "", &failure{"run-ended/" + strings.Join(cs.Config, "+"), fmt.Sprintf("Run ended in section s%d: err=%v panic=%v  | %s", s, sr.Err, sr.Panic, cs)}, ""
			}
			if len(sr.Events) != 1 {
				return "", &failure{"events/count", fmt.Sprintf("section s%d attempt produced %d trace events  | %s", s, len(sr.Events), cs)}, ""
			}
			aborted := sr.Events[0].IsAbort
			fk := "none"
			if planned {
				fk = f.Kind
			}
			if planned2 {
				fk = "body"
			}
			// what remote parties saw while the attempt was in flight: only state committed before it
			for _, p := range probes {
				var ee envError
				if errors.As(p.err, &ee) {
					return "", nil, "env: " + ee.Error()
				}
				want := model[p.in.name].render(p.in.cat)
				if p.err != nil {
					return "", &failure{p.in.kind + "/" + fk + "/remote-unreadable", fmt.Sprintf("s%d before op %d: remote observer of %s: %v  | %s", p.sec, p.op, p.in.name, p.err, cs)}, ""
				}
				if p.got != want {
					return "", &failure{p.in.kind + "/" + fk + "/remote-sees-uncommitted", fmt.Sprintf("during an attempt of s%d (before operation %d of %d) a remote peer of %s (%s) received state %s; the state committed at the last label boundary is %s  | %s", p.sec, p.op, len(secs[s].Ops), p.in.name, p.in.kind, p.got, want, cs)}, ""
				}
				st.remoteProbes++
				if p.in.cat == "counter" {
					var n int
					fmt.Sscan(p.got, &n)
					if n > maxRemote[p.in.name] {
						maxRemote[p.in.name] = n
					}
				}
			}
			probes = probes[:0]
			// replay what the body saw on the reference transaction
			t := newTx(model)
			obs := script.Obs[mark:]
			timing := false
			for _, o := range obs {
				op := secs[s].Ops[o.Op]
				in := byName[op.R]
				if o.Err != nil {
					if planned && f.Kind == "op" && op.R == f.R && errors.Is(o.Err, distsys.ErrCriticalSectionAborted) {
						continue // the refusal we injected
					}
					if (in.cat == "in" || in.kind == "shared" || in.kind == "persistent-shared") && errors.Is(o.Err, distsys.ErrCriticalSectionAborted) {
						timing = true // a resource timed out under load: an allowed answer (DESIGN 2.7-2)
						continue
					}
					return "", &failure{in.kind + "/" + fk + "/unexpected-error", fmt.Sprintf("s%d op %d (%s) returned %v  | %s", s, o.Op, op, o.Err, cs)}, ""
				}
				if o.K == "r" {
					want, err := t.read(in, op)
					if err != nil {
						return "", nil, err.Error()
					}
					if got := renderVal(in, o.Val); got != want {
						sub := "read"
						if try > 0 {
							sub = "retry-read"
						}
						return "", &failure{in.kind + "/" + fk + "/" + sub, fmt.Sprintf("s%d attempt %d op %d (%s) read %s, the transactional reference gives %s  | %s", s, try, o.Op, op, got, want, cs)}, ""
					}
				} else if err := t.write(in, op, strOf(o.Val)); err != nil {
					return "", nil, err.Error()
				}
			}
			if planned2 {
				if !aborted {
					return "", &failure{"fault-ignored/body/second", fmt.Sprintf("the retry of s%d committed although %s  | %s", s, cs.Fault2, cs)}, ""
				}
				if fl := checkState(fmt.Sprintf("after the second failed attempt of s%d", s), "after-second-abort", "body"); fl != nil {
					return "", fl, ""
				}
				continue
			}
			if planned {
				faultDone = true
				if !aborted {
					return "", &failure{"fault-ignored/" + f.Kind + "/" + kindOf(byName, f.R), fmt.Sprintf("section s%d committed although %s  | %s", s, f, cs)}, ""
				}
				if fl := checkState(fmt.Sprintf("after the failed attempt of s%d", s), "after-abort", fk); fl != nil {
					return "", fl, ""
				}
				continue
			}
			if aborted {
				if timing {
					st.timingAbort++
					if fl := checkState(fmt.Sprintf("after a timed-out attempt of s%d", s), "after-abort", "timeout"); fl != nil {
						return "", fl, ""
					}
					continue
				}
				return "", &failure{"spurious-abort/" + strings.Join(cs.Config, "+"), fmt.Sprintf("section s%d aborted without any fault  | %s", s, cs)}, ""
			}
			if len(obs) != len(secs[s].Ops) {
				return "", &failure{"commit/partial-body", fmt.Sprintf("section s%d committed after %d of %d operations  | %s", s, len(obs), len(secs[s].Ops), cs)}, ""
			}
			model = t.commit()
			sub := "after-commit"
			if s >= nProg {
				sub = "after-observer"
			}
			if fl := checkState(fmt.Sprintf("after the commit of s%d", s), sub, fk); fl != nil {
				return "", fl, ""
			}
			break
		}
	}
	last := g.Step()
	if !last.Ended || last.Err != nil || last.Panic != nil {
		return "", &failure{"done/not-ended", fmt.Sprintf("Run did not end normally at Done: %+v  | %s", last.Err, cs)}, ""
	}
	fk2 := ""
	if cs.Fault2 != nil {
		fk2 = "+body"
	}
	return f.Kind + fk2 + " " + renderAll(insts, model), nil, ""
}

func kindOf(by map[string]*instance, r string) string {
	if in, ok := by[r]; ok {
		return in.kind
	}
	return "body"
}

// chooseCase draws one case from the explorer.
func chooseCase(c *explore.Ctx, b bounds, cfgs [][]string, env *wenv) caseSpec {
	cfg := cfgs[c.Choose(len(cfgs), "config")]
	// menu (instances are built only to learn their menus and wrappability)
	var menu []gate2.Op
	var protos []*instance
	for i, k := range cfg {
		in := protoOf(k, fmt.Sprintf("v%d", i))
		protos = append(protos, in)
		menu = append(menu, in.menu...)
	}
	nsec := 1 + c.Choose(b.MaxSec, "sections")
	var secs []gate2.Section
	left := b.MaxTotal
	for s := 0; s < nsec; s++ {
		maxHere := b.MaxOps
		if m := left - (nsec - s - 1); m < maxHere {
			maxHere = m
		}
		if maxHere < 1 {
			c.Prune()
		}
		n := 1 + c.Choose(maxHere, "ops")
		left -= n
		var ops []gate2.Op
		for i := 0; i < n; i++ {
			ops = append(ops, menu[c.Choose(len(menu), "op")])
		}
		secs = append(secs, gate2.Section{Ops: ops})
	}
	fm := faultMenu(secs, protos)
	cs := caseSpec{Config: cfg, Secs: secs, Fault: fm[c.Choose(len(fm), "fault")]}
	if b.DoubleFault && cs.Fault.Kind != "none" {
		n := len(secs[cs.Fault.Sec].Ops) + 1
		if k := c.Choose(n+1, "fault2"); k > 0 {
			cs.Fault2 = &fault{Kind: "body", Sec: cs.Fault.Sec, K: k - 1}
		}
	}
	return cs
}

var protoMu sync.Mutex
var protoCache = map[string]*instance{}

// protoOf returns menu/wrappability of a kind without creating real resources more than once.
func protoOf(kind, name string) *instance {
	protoMu.Lock()
	defer protoMu.Unlock()
	key := kind + "/" + name
	if p, ok := protoCache[key]; ok {
		return p
	}
	dir, _ := os.MkdirTemp(os.Getenv("VERIF_SCRATCH"), "proto")
	env := &wenv{w: 999, scratch: dir, gobs: gobCache{}, portBase: 33000}
	in := build(kind, name, env)
	if in.fin != nil {
		in.fin()
	}
	os.RemoveAll(dir)
	p := &instance{kind: kind, name: name, menu: in.menu, plan: in.plan, cat: in.cat}
	protoCache[key] = p
	return p
}

type replay struct {
	Late    *lateReplay `json:"late,omitempty"`
	Family  string      `json:"family"`
	Choices []int       `json:"choices"`
	Case    caseSpec    `json:"case"`
}

func families(thorough bool) []bounds {
	// quick: the 2-kind configurations are enumerated (with and without a second fault) by in-memory-two-faults;
	// this family adds the 3-kind configurations with one section of <=3 operations (thorough: 2-3 kinds, 3 sections)
	q := bounds{Name: "in-memory", Kinds: quickKinds, MinKinds: 3, MaxKinds: 3, MaxSec: 1, MaxOps: 3, MaxTotal: 3}
	d := bounds{Name: "in-memory-two-faults", Kinds: quickKinds, MinKinds: 2, MaxKinds: 2, MaxSec: 2, MaxOps: 3, MaxTotal: 3, DoubleFault: true}
	// a TCP mailbox pair on loopback next to a local / a ref-bound (refusable) local: the sender section sends and
	// then fails (false await, or the sibling refuses an operation or its pre-commit after the send) on a connection
	// that stays open, the retry commits, a second section sends again; the receiving end is drained and compared
	tcp := bounds{Name: "tcp-pair", Kinds: []string{"tcpout", "reflocal", "local"}, MinKinds: 2, MaxKinds: 2, MaxSec: 2, MaxOps: 2, MaxTotal: 3, MustHave: []string{"tcpout"}}
	// a single-node CRDT (grow-only counter) with a scripted remote peer that asks for the resource's state over its
	// RPC listener in the middle of every attempt
	// Persistent over a function-valued variable: indexed and whole writes, the database content is part of the state
	// (quick: each next to a local, <=2 operations; thorough: also both together, <=3 operations)
	pfn := bounds{Name: "persistent-indexed", Kinds: []string{"persistent-fn", "persistent-shared-fn", "local"}, MinKinds: 2, MaxKinds: 2, MaxSec: 2, MaxOps: 2, MaxTotal: 2, MustHave: persistentFnKinds, MustHaveToo: []string{"local"}}
	if thorough {
		pfn.MaxTotal, pfn.MustHaveToo = 3, nil
	}
	crdt := bounds{Name: "crdt-remote", Kinds: []string{"crdt", "reflocal", "local"}, MinKinds: 2, MaxKinds: 2, MaxSec: 2, MaxOps: 2, MaxTotal: 3, MustHave: []string{"crdt"}}
	if !thorough {
		return []bounds{tcp, crdt, pfn, q, d}
	}
	d.MaxKinds = 3
	q.MinKinds, q.MaxSec, q.MaxTotal = 2, 3, 4
	slow := bounds{Name: "disk", Kinds: append(append([]string{}, slowKinds...), "local", "incmap", "inchan", "outchan"), MinKinds: 2, MaxKinds: 2, MaxSec: 2, MaxOps: 2, MaxTotal: 3, MustHave: slowKinds}
	return []bounds{tcp, crdt, pfn, slow, d, q}
}

func TestCheck(t *testing.T) {
	if s := os.Getenv("VERIF_C01_NESTED"); s != "" {
		// child process of the late-completion scenarios (late.go)
		var c nestedCase
		if err := json.Unmarshal([]byte(s), &c); err != nil {
			t.Fatal(err)
		}
		nestedChild(c)
		return
	}
	hres.Main(t, func(env hres.Env) *hres.Result {
		debug.SetGCPercent(600) // executions are allocation-heavy and short-lived
		res := &hres.Result{Property: "C01", Level: "fault_enumeration"}
		res.Assumptions = []string{
			"a Faulty wrapper (public ArchetypeResource interface) refusing an operation or a pre-commit with ErrCriticalSectionAborted stands for any resource that refuses or times out; the wrapped resource never sees a refused operation and does see PreCommit before a refused pre-commit",
			"observable state is read back outside the archetype: ReadArchetypeResourceLocal / GetState for variables and map elements, the Go channels themselves, file bytes, badger keys, plus (overlay hook) the InputChan's private re-delivery buffer; and by observer sections run by the archetype after the program",
			"one fault per execution, followed by a retry that succeeds",
		}
		scratch := os.Getenv("VERIF_SCRATCH")
		if scratch == "" {
			scratch, _ = os.MkdirTemp("", "c01")
			defer os.RemoveAll(scratch)
		}
		setup := func(w int) any {
			d := filepath.Join(scratch, fmt.Sprintf("w%d", w))
			os.MkdirAll(d, 0o755)
			return &wenv{w: w, scratch: d, gobs: gobCache{}, portBase: 28000 + w*300}
		}
		var statsMu sync.Mutex
		total := runStats{}
		discards := map[string]int{}
		mkBody := func(b bounds, cfgs [][]string) func(c *explore.Ctx) {
			return func(c *explore.Ctx) {
				we := c.User.(*wenv)
				cs := chooseCase(c, b, cfgs, we)
				var st runStats
				var out, disc string
				var fl *failure
				func() {
					defer func() {
						if x := recover(); x != nil {
							if ep, ok := x.(envProblem); ok {
								disc = "env: " + ep.what
								return
							}
							panic(x)
						}
					}()
					out, fl, disc = runCase(cs, we, &st)
				}()
				statsMu.Lock()
				total.timingAbort += st.timingAbort
				total.remoteProbes += st.remoteProbes
				total.noHook = total.noHook || st.noHook
				if disc != "" {
					discards[disc]++
				}
				statsMu.Unlock()
				if disc != "" {
					c.Prune()
				}
				if fl != nil {
					c.Fail(fl.key, fl.what, cs)
				}
				c.Outcome(out)
			}
		}
		if env.Replay != nil {
			var r replay
			if err := json.Unmarshal(env.Replay, &r); err != nil {
				t.Fatal(err)
			}
			if r.Family == "late" && r.Late != nil {
				res.Coverage = map[string]any{"evaluations": 1, "distinct_nontrivial": 0, "rule": "replay", "samples": []any{r.Late}}
				if fl := replayLate(r.Late); fl != nil {
					res.Violations = append(res.Violations, hres.Viol{Key: fl.key, What: fl.what, Replay: r})
				}
				return res
			}
			var st runStats
			_, fl, disc := runCase(r.Case, setup(0).(*wenv), &st)
			res.Coverage = map[string]any{"evaluations": 1, "distinct_nontrivial": 0, "rule": "replay", "samples": []any{r.Case.String()}, "discarded": disc}
			if fl != nil {
				res.Violations = append(res.Violations, hres.Viol{Key: fl.key, What: fl.what, Replay: r})
			}
			return res
		}
		cov := map[string]any{}
		var evals int64
		distinct := 0
		exhaustive := true
		var samples []any
		perFamily := map[string]any{}
		seenKeys := map[string]bool{}
		// the late-completion scenarios (late.go) mostly wait for timeouts of the code under test: they run next to
		// the explorer families and are joined at the end
		lateRes := &hres.Result{}
		lateCov := map[string]any{}
		lateDone := make(chan struct{})
		go func() {
			defer close(lateDone)
			if only := os.Getenv("VERIF_C01_FAMILY"); only == "" || strings.Contains(","+only+",", ",late,") {
				runLate(env, lateRes, lateCov)
			}
		}()
		fams := families(env.Thorough())
		for fi, b := range fams {
			if only := os.Getenv("VERIF_C01_FAMILY"); only != "" && !strings.Contains(","+only+",", ","+b.Name+",") {
				continue
			}
			cfgs := configs(b)
			// every family gets an equal share of what is left; the last one gets all of it
			dl := env.Deadline
			if env.Thorough() {
				dl = time.Now().Add(time.Until(env.Deadline) / time.Duration(len(fams)-fi))
			}
			stt := explore.Run(mkBody(b, cfgs), explore.Options{Workers: env.Workers, Deadline: dl, Setup: setup, Samples: 2, MaxViol: 40})
			closeBadgers()
			debug.FreeOSMemory() // a collection now: the next family's heap target must not inherit this family's databases
			evals += stt.Executions
			distinct += stt.Outcomes
			if !stt.Exhaustive {
				exhaustive = false
			}
			perFamily[b.Name] = map[string]any{
				"configurations": len(cfgs), "kinds": b.Kinds, "max_sections": b.MaxSec, "max_ops_per_section": b.MaxOps, "max_ops_total": b.MaxTotal,
				"executions": stt.Executions, "distinct_outcomes": stt.Outcomes, "exhaustive": stt.Exhaustive, "cap_hit": stt.CapHit,
				"divergences": stt.Divergences, "pruned": stt.Pruned, "wall_s": stt.WallS,
			}
			for _, s := range stt.Samples {
				samples = append(samples, map[string]any{"family": b.Name, "choices": s.Choices, "final_state": s.Outcome})
			}
			for _, v := range stt.Violations {
				if seenKeys[v.Key] {
					continue
				}
				seenKeys[v.Key] = true
				cs, _ := v.Detail.(caseSpec)
				res.Violations = append(res.Violations, hres.Viol{Key: v.Key, What: v.What, Replay: replay{Family: b.Name, Choices: v.Choices, Case: cs}})
			}
		}
		<-lateDone
		res.Violations = append(res.Violations, lateRes.Violations...)
		for k, v := range lateCov {
			cov[k] = v
		}
		if lc, ok := lateCov["late_completion"].(map[string]any); ok {
			evals += int64(lc["map_slow_precommit_cases"].(int) + lc["nested_rounds_completed"].(int))
		}
		cov["evaluations"] = int(evals)
		cov["distinct_nontrivial"] = distinct
		cov["rule"] = "every (configuration of 2-3 resource kinds) x (program of <= max_sections sections, <= max_ops_per_section operations each, <= max_ops_total in all, operations drawn from the kinds' menus read/write/indexed read/indexed write) x (fault: none | await false before operation k | k-th operation reaching a wrapped resource refused | a dirty wrapped resource refuses PreCommit; hitting the first attempt of one section, then a retry); distinct = distinct (fault kind, final reference state) pairs"
		cov["samples"] = samples
		cov["families"] = perFamily
		cov["exhaustive"] = exhaustive
		cov["timing_aborts_accepted"] = total.timingAbort
		cov["remote_mid_attempt_observations_judged"] = total.remoteProbes
		cov["discarded"] = discards
		cov["inputchan_private_buffer_checked"] = !total.noHook
		res.Coverage = cov
		return res
	})
}

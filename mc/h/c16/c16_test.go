// C16: the other generated systems (dqueue, loadbalancer, proxy, shcounter, gcounter, shopcart,
// nestedcrdtimpl) keep their specs' safety invariants: explicit-state BFS over the real generated
// critical sections (engine E4) with the spec's mapping macros; on every reachable state / edge:
// no assertion or panic, the invariants of the property ported from each spec; every BFS-tree leaf
// path replayed on long-lived contexts.
package c16

import (
	"encoding/json"
	"fmt"
	"os"
	"sort"
	"strings"
	"testing"
	"time"

	"github.com/DistCompiler/pgo/distsys/trace"
	"verif/mc/hres"
	ss "verif/mc/specstep"
	"verif/mc/sys/dqueue"
	"verif/mc/sys/gcounter"
	"verif/mc/sys/loadbalancer"
	"verif/mc/sys/nestedcrdtimpl"
	"verif/mc/sys/proxy"
	"verif/mc/sys/shcounter"
	"verif/mc/sys/shopcart"
)

type stateInv = func(*ss.State) (string, string)
type edgeInv = func(*ss.State, int, *ss.Attempt) (string, string)

// run is one bounded instance of one system.
type run struct {
	Name       string
	System     string
	Quick      bool
	Cfg        any
	New        func() *ss.System
	Constraint func(*ss.State) bool
	Observe    func(pre *ss.State, p int, ev *trace.Event, post *ss.State) string
	Invs       []stateInv
	EdgeInvs   []edgeInv
	// Terminal, when set, is evaluated on every state without outgoing transition ("" = fine).
	Terminal func(*ss.State) (string, string)
	// Seed, when set, is a scripted real execution from the initial state; the search starts at
	// its end (paths reported/replayed are prefix+suffix from the true initial state).
	Seed func() []ss.SeedStep
	// First: instances that reproduce a recorded finding run before all others, so that the finding
	// shows on every run whatever the machine leaves of the budget.
	First bool
	// ConfCap overrides the number of leaf paths replayed live (large systems with long prefixes).
	ConfCap int
}

func runs() []*run {
	var out []*run
	for _, c := range []struct {
		cfg   dqueue.Config
		quick bool
	}{{dqueue.Config{NumConsumers: 1, BufferSize: 1}, true}, {dqueue.Config{NumConsumers: 2, BufferSize: 1}, true}, {dqueue.Config{NumConsumers: 2, BufferSize: 2}, true},
		{dqueue.Config{NumConsumers: 3, BufferSize: 2}, true}, {dqueue.Config{NumConsumers: 3, BufferSize: 3}, true}, {dqueue.Config{NumConsumers: 4, BufferSize: 2}, false},
		{dqueue.Config{NumConsumers: 4, BufferSize: 4}, false}, {dqueue.Config{NumConsumers: 5, BufferSize: 1}, false}} {
		cfg := c.cfg
		out = append(out, &run{Name: fmt.Sprintf("dqueue-C%d-B%d", cfg.NumConsumers, cfg.BufferSize), System: "dqueue", Quick: c.quick, Cfg: cfg,
			New: func() *ss.System { return dqueue.New(cfg) }, Observe: cfg.Observe,
			Invs: []stateInv{cfg.BufferBound, cfg.OneItemPerRequest}, EdgeInvs: []edgeInv{cfg.Order}})
	}
	for _, c := range []struct {
		cfg   loadbalancer.Config
		quick bool
	}{{loadbalancer.Config{NumServers: 1, NumClients: 1, BufferSize: 1}, true}, {loadbalancer.Config{NumServers: 1, NumClients: 2, BufferSize: 1}, true}, {loadbalancer.Config{NumServers: 2, NumClients: 2, BufferSize: 1}, true},
		{loadbalancer.Config{NumServers: 2, NumClients: 2, BufferSize: 2}, true}, {loadbalancer.Config{NumServers: 2, NumClients: 3, BufferSize: 2}, false},
		{loadbalancer.Config{NumServers: 3, NumClients: 3, BufferSize: 1}, false}, {loadbalancer.Config{NumServers: 3, NumClients: 2, BufferSize: 3}, false}} {
		cfg := c.cfg
		out = append(out, &run{Name: fmt.Sprintf("loadbalancer-S%d-C%d-B%d", cfg.NumServers, cfg.NumClients, cfg.BufferSize), System: "loadbalancer", Quick: c.quick, Cfg: cfg,
			New:  func() *ss.System { return loadbalancer.New(cfg) },
			Invs: []stateInv{cfg.BuffersOk, cfg.OneAnswerPerRequest}, EdgeInvs: []edgeInv{cfg.AnswerIsPage}})
	}
	for _, c := range []struct {
		cfg   proxy.Config
		quick bool
	}{{proxy.Config{NumServers: 1, NumClients: 1, ExploreFail: true, ClientRun: true, PerfectFD: true}, true},
		{proxy.Config{NumServers: 2, NumClients: 1, ExploreFail: true, ClientRun: true, PerfectFD: true}, true},
		{proxy.Config{NumServers: 2, NumClients: 1, ExploreFail: true, ClientRun: true, PerfectFD: true, Requests: true, MaxInput: 2}, true},
		{proxy.Config{NumServers: 2, NumClients: 2, ExploreFail: true, ClientRun: true, PerfectFD: true}, false},
		{proxy.Config{NumServers: 3, NumClients: 1, ExploreFail: true, ClientRun: true, PerfectFD: true}, false}} {
		cfg := c.cfg
		name := fmt.Sprintf("proxy-S%d-C%d-perfectFD", cfg.NumServers, cfg.NumClients)
		if cfg.Requests {
			name += fmt.Sprintf("-requests%d", cfg.MaxInput)
		}
		out = append(out, &run{Name: name, System: "proxy", Quick: c.quick, Cfg: cfg,
			New: func() *ss.System { return proxy.New(cfg) }, Constraint: cfg.Constraint,
			Invs: []stateInv{cfg.ProxyOK}, EdgeInvs: []edgeInv{cfg.FailOnlyWhenAllFailed}})
	}
	for n := 1; n <= 7; n++ {
		cfg := shcounter.Config{NumNodes: n}
		out = append(out, &run{Name: fmt.Sprintf("shcounter-N%d", n), System: "shcounter", Quick: n <= 6, Cfg: cfg,
			New: func() *ss.System { return shcounter.New(cfg) }, Invs: []stateInv{cfg.EndsAtNumNodes},
			Terminal: func(s *ss.State) (string, string) {
				if !cfg.AllDone(s) {
					return "shcounter/stuck-before-done", fmt.Sprintf("no node can move but not all are Done (cntr = %s)", ss.Canon(s.Globals["cntr"]))
				}
				return cfg.EndsAtNumNodes(s)
			}})
	}
	for n := 1; n <= 4; n++ {
		cfg := gcounter.Config{NumNodes: n}
		out = append(out, &run{Name: fmt.Sprintf("gcounter-N%d", n), System: "gcounter", Quick: n <= 3, Cfg: cfg,
			New:  func() *ss.System { return gcounter.New(cfg) },
			Invs: []stateInv{cfg.StrongConvergence, cfg.EqualKnowledgeEqualValue}, EdgeInvs: []edgeInv{cfg.NeverDecreases}})
	}
	for _, c := range []struct {
		cfg   shopcart.Config
		quick bool
	}{{shopcart.Config{NumNodes: 2, BenchNumRounds: 1}, true}, {shopcart.Config{NumNodes: 2, BenchNumRounds: 2}, true}, {shopcart.Config{NumNodes: 3, BenchNumRounds: 1}, true},
		{shopcart.Config{NumNodes: 2, BenchNumRounds: 3}, false}, {shopcart.Config{NumNodes: 3, BenchNumRounds: 2}, true}} {
		cfg := c.cfg
		out = append(out, &run{Name: fmt.Sprintf("shopcart-N%d-R%d", cfg.NumNodes, cfg.BenchNumRounds), System: "shopcart", Quick: c.quick, Cfg: cfg,
			New: func() *ss.System { return shopcart.New(cfg) }, Invs: []stateInv{cfg.QueryOK, cfg.StrongConvergence}})
	}
	// the spec's other instantiation (ANode: add and remove commands from `in`); equal knowledge =
	// equal set of commands received directly or through merges (c).  Known finding on >= 3 nodes.
	addRemove := []shopcart.Op{{Elem: "1"}, {Remove: true, Elem: "1"}}
	for _, c := range []struct {
		cfg   shopcart.Config
		name  string
		quick bool
	}{{shopcart.Config{NumNodes: 2, NodeOps: addRemove}, "add-remove", true}, {shopcart.Config{NumNodes: 3, NodeOps: addRemove}, "add-remove", true},
		{shopcart.Config{NumNodes: 2, NodeOps: shopcart.SpecOps}, "spec-in", true}, {shopcart.Config{NumNodes: 3, NodeOps: shopcart.SpecOps}, "spec-in", false},
		{shopcart.Config{NumNodes: 4, NodeOps: addRemove}, "add-remove", false},
		{shopcart.Config{NumNodes: 3, NodeOps: []shopcart.Op{{Elem: "1"}, {Elem: "1"}, {Remove: true, Elem: "1"}, {Remove: true, Elem: "1"}}}, "add-add-remove-remove", false}} {
		cfg := c.cfg
		out = append(out, &run{Name: fmt.Sprintf("shopcart-ANode-N%d-%s", cfg.NumNodes, c.name), System: "shopcart", Quick: c.quick, Cfg: cfg,
			New: func() *ss.System { return shopcart.New(cfg) }, Invs: []stateInv{cfg.QueryOK, cfg.EqualKnowledgeEqualReads}, First: cfg.NumNodes == 3 && c.name == "add-remove"})
	}
	// "every instance size": NUM_SERVERS = FAIL = 100.  Plain BFS cannot get past the 2^99 crash
	// orders, so the search starts after a scripted crash history (servers 1..99 crashed).
	{
		cfg := proxy.Config{NumServers: proxy.Fail, NumClients: 1, ExploreFail: true, ClientRun: true, PerfectFD: true}
		out = append(out, &run{Name: "proxy-S100-C1-perfectFD-seeded-99-crashed", System: "proxy", Quick: true, Cfg: cfg,
			New: func() *ss.System { return proxy.New(cfg) }, Seed: func() []ss.SeedStep { return cfg.SeedCrashAllBut(proxy.Fail) },
			Invs: []stateInv{cfg.ProxyOK}, EdgeInvs: []edgeInv{cfg.FailOnlyWhenAllFailed}, ConfCap: 12, First: true})
	}
	for _, c := range []struct {
		cfg   nestedcrdtimpl.Config
		quick bool
	}{{nestedcrdtimpl.Config{NumNodes: 1, NumOps: 3, BufferSize: 1}, true}, {nestedcrdtimpl.Config{NumNodes: 2, NumOps: 1, BufferSize: 1}, true},
		{nestedcrdtimpl.Config{NumNodes: 2, NumOps: 2, BufferSize: 1}, true}, {nestedcrdtimpl.Config{NumNodes: 2, NumOps: 2, BufferSize: 2}, false}} {
		cfg := c.cfg
		out = append(out, &run{Name: fmt.Sprintf("nestedcrdtimpl-N%d-O%d-B%d", cfg.NumNodes, cfg.NumOps, cfg.BufferSize), System: "nestedcrdtimpl", Quick: c.quick, Cfg: cfg,
			New: func() *ss.System { return nestedcrdtimpl.New(cfg) }, Invs: []stateInv{cfg.ViewBoundedByWrites}, EdgeInvs: []edgeInv{cfg.MonotonicState}})
	}
	return out
}

type replay struct {
	Run  string    `json:"run"`
	Path []ss.Move `json:"path"`
}

func (r *run) system() *ss.System {
	sys := r.New()
	sys.Observe = r.Observe
	if r.Seed != nil {
		if err := sys.Seed(r.Seed()); err != nil {
			panic(fmt.Sprintf("%s: seeding script does not apply: %v", r.Name, err))
		}
	}
	return sys
}

// judgePath re-evaluates everything on one path (replay mode).
func (r *run) judgePath(path []ss.Move) (viol []hres.Viol, states int, trace []string) {
	sys := r.system()
	sts, last, ok := sys.Replay(path)
	add := func(k, w string) { viol = append(viol, hres.Viol{Key: k, What: w, Replay: replay{r.Name, path}}) }
	for i, s := range sts {
		for _, inv := range r.Invs {
			if k, w := inv(s); k != "" {
				add(k, w)
				return viol, len(sts), sys.Render(path)
			}
		}
		if i+1 < len(sts) {
			a := sys.Try(s, path[i].P, intsOf(path[i]))
			for _, ei := range r.EdgeInvs {
				if k, w := ei(s, path[i].P, &a); k != "" {
					add(k, w)
					return viol, len(sts), sys.Render(path)
				}
			}
		}
	}
	if !ok && last != nil && last.Kind == ss.Failed {
		add("error-edge", last.Err)
	}
	return viol, len(sts), sys.Render(path)
}

func intsOf(m ss.Move) []int {
	r := make([]int, len(m.Picks))
	for i, x := range m.Picks {
		r[i] = int(x)
	}
	return r
}

func TestCheck(t *testing.T) {
	if spec := os.Getenv("VERIF_CHILD"); strings.HasPrefix(spec, "rkv:") {
		rkvChild(spec) // one scripted execution of the replicatedkv runtime family; exits
	}
	hres.Main(t, func(env hres.Env) *hres.Result {
		res := &hres.Result{Property: "C16", Level: "model_checking"}
		all := runs()
		if env.Replay != nil {
			var rr rkvReplay
			if json.Unmarshal(env.Replay, &rr) == nil && rr.RKV {
				res.Violations = rkvReplayOnce(rr)
				res.Coverage = map[string]any{"states": 1, "transitions": 1, "traces_validated_against_impl": 1, "samples": []any{rr}}
				return res
			}
			var rp replay
			if err := json.Unmarshal(env.Replay, &rp); err != nil {
				t.Fatal(err)
			}
			for _, r := range all {
				if r.Name == rp.Run {
					v, n, tr := r.judgePath(rp.Path)
					res.Violations = v
					res.Coverage = map[string]any{"states": n, "transitions": len(rp.Path), "traces_validated_against_impl": 0, "samples": tr}
					return res
				}
			}
			t.Fatalf("replay: unknown run %q", rp.Run)
		}
		only := os.Getenv("VERIF_C16_ONLY") // a run name or a system name (development aid)
		var sel []*run
		var notRun []string
		for _, r := range all {
			if only != "" {
				if r.Name == only || r.System == only {
					sel = append(sel, r)
				}
				continue
			}
			if env.Thorough() || r.Quick {
				sel = append(sel, r)
			} else {
				notRun = append(notRun, r.Name+" (thorough tier only)")
			}
		}
		sort.SliceStable(sel, func(i, j int) bool { return sel[i].First && !sel[j].First })
		// replicatedkv: scripted family on the real runtime (see rkv_runtime_test.go), first so that it
		// never depends on what the searches leave of the budget
		var rkvEvidence map[string]any
		if only == "" || only == "replicatedkv" {
			var v []hres.Viol
			v, rkvEvidence = rkvCheck(env)
			res.Violations = append(res.Violations, v...)
		}
		confCap := 500
		if env.Thorough() {
			confCap = 30000
		}
		var states, trans, validated int64
		exhaustive := true
		perRun := []any{}
		perSystem := map[string]map[string]int64{}
		seen := map[string]bool{}
		var samples []any
		for i, r := range sel {
			sys := r.system()
			// time: a search may use up to a third of what is left (at least 5 s); the live replay of
			// its leaf paths gets an equal share of the rest
			left := time.Until(env.Deadline)
			share := left / 3
			if share < 5*time.Second {
				share = 5 * time.Second
			}
			opt := ss.BFSOptions{Workers: env.Workers, Deadline: time.Now().Add(share), Constraint: r.Constraint,
				Invariants: r.Invs, EdgeInvs: r.EdgeInvs, FailedIsViolation: true, MaxViol: 6, KeepGraph: r.Terminal != nil}
			b := sys.BFS(opt)
			if b.MemoMismatch > 0 {
				t.Fatalf("%s: transition memo disagrees with the real code: %s", r.Name, b.MemoFirstMismatch)
			}
			states += b.States
			trans += b.Transitions
			exhaustive = exhaustive && b.Exhaustive
			add := func(key, what string, path []ss.Move) {
				if seen[key] {
					return
				}
				seen[key] = true
				res.Violations = append(res.Violations, hres.Viol{Key: key, What: r.Name + ": " + what, Replay: replay{r.Name, path}})
			}
			for _, v := range b.Violations {
				k := v.Key
				if strings.HasPrefix(k, "error-edge/") {
					k = r.System + "/" + k
				}
				tr := v.Trace
				if len(tr) > 14 {
					tr = append([]string{fmt.Sprintf("... %d earlier steps (see the replay file) ...", len(tr)-14)}, tr[len(tr)-14:]...)
				}
				add(k, v.What+" | "+strings.Join(tr, " ; "), v.Path)
			}
			terminals := 0
			if r.Terminal != nil && b.Exhaustive {
				hasOut := make([]bool, len(b.GraphStates))
				for _, e := range b.GraphEdges {
					hasOut[e.From] = true
				}
				for id, s := range b.GraphStates {
					if hasOut[id] {
						continue
					}
					terminals++
					if k, w := r.Terminal(s); k != "" {
						add(k, w, b.PathTo(int32(id)))
					}
				}
			}
			// conformance: BFS-tree leaf paths on long-lived contexts (real first label, real PreAmble)
			nConf := 0
			confStart := time.Now()
			confShare := time.Until(env.Deadline) / time.Duration(len(sel)-i+1)
			if confShare < 3*time.Second {
				confShare = 3 * time.Second
			}
			leaves := append([]int32{}, b.Leaves...)
			sort.Slice(leaves, func(i, j int) bool { return leaves[i] < leaves[j] })
			confCap := confCap
			if r.ConfCap > 0 {
				confCap = r.ConfCap
			}
			step := 1
			if len(leaves) > confCap {
				step = len(leaves)/confCap + 1 // spread the cap over the whole tree, deepest leaves included
			}
			for li := len(leaves) - 1; li >= 0; li -= step {
				path := b.PathTo(leaves[li])
				if d := sys.Conform(path); d != "" {
					add(r.System+"/conformance/injected-vs-live", d, path)
					break
				}
				nConf++
				if time.Since(confStart) > confShare {
					break
				}
			}
			validated += int64(nConf)
			ps := perSystem[r.System]
			if ps == nil {
				ps = map[string]int64{}
				perSystem[r.System] = ps
			}
			ps["states"] += b.States
			ps["transitions"] += b.Transitions
			ps["instances"]++
			ps["leaf_paths_replayed_live"] += int64(nConf)
			if int64(b.Depth) > ps["max_depth"] {
				ps["max_depth"] = int64(b.Depth)
			}
			perRun = append(perRun, map[string]any{"run": r.Name, "system": r.System, "config": r.Cfg, "states": b.States, "transitions": b.Transitions, "depth": b.Depth,
				"disabled_attempts": b.Disabled, "error_edges": b.ErrorEdges, "states_outside_constraint": b.NotExpanded, "terminal_states_checked": terminals,
				"tree_leaves": len(b.Leaves), "leaf_paths_replayed_live": nConf, "all_leaf_paths_replayed": nConf == len(b.Leaves), "exhaustive": b.Exhaustive, "cap": b.Cap, "wall_s": b.WallS, "conformance_wall_s": time.Since(confStart).Seconds(),
				"memo_hits": b.MemoHits, "memo_misses_executed_on_real_code": b.MemoMisses, "memo_hits_rechecked_on_real_code": b.MemoChecks, "violations_not_reproduced": b.Unconfirmed})
			if len(b.Leaves) > 0 && (i == 0 || sel[i-1].System != r.System) {
				samples = append(samples, map[string]any{"run": r.Name, "trace": sys.Render(b.PathTo(b.Leaves[len(b.Leaves)/2]))})
			}
		}
		notCovered := append([]string{"replicatedkv: no E4 model (no instance wiring, test or model-checking configuration in the tree); only the scripted runtime family under coverage.replicatedkv_runtime"}, notRun...)
		res.Coverage = map[string]any{
			"states": states, "transitions": trans, "traces_validated_against_impl": validated, "samples": samples,
			"per_system": perSystem, "runs": perRun, "replicatedkv_runtime": rkvEvidence, "not_covered": notCovered, "exhaustive": exhaustive, "conformance_paths_cap_per_run": confCap,
			"explanation": "per instance: explicit-state BFS over the real generated critical sections (state injected into a fresh MPCalContext, one attempt per transition, every resolution of either/with and of the mapping macros' choices); error/assertion/panic edges are violations; state and edge invariants of the property ported from each spec; BFS-tree leaf paths replayed on long-lived contexts and compared state by state",
		}
		res.Assumptions = []string{
			"environment = the specs' mapping macros and plain PlusCal processes written in Go (each validated against TLC's complete state graph by C02)",
			"gcounter/shopcart/shcounter/nestedcrdtimpl are checked against the spec's abstraction of the CRDT / 2PC / nested resources; the real resources are the subject of C11-C13",
			"NestedCRDTImpl's StateSanity is checked in its set-free form (the literal formula is refuted by TLC on the spec itself)",
			"128-bit state hashing (collision probability negligible)"}
		return res
	})
}

package c16

// replicatedkv sub-check of C16 - NOT engine E4.  "No assertion written in the specification fails"
// is also a statement about the running system, and one way it fails is invisible to E4 by
// construction (there a label is one atomic transition): MPCalContext.commit() commits a critical
// section resource by resource, so a section that touches a variable shared between archetypes
// (resources.LocalSharedManager: Commit releases the lock at once) and a TCP mailbox (Commit waits
// for the commit record to reach the receiver) is, for a while, half committed.
//
// This file is a small *scripted family on the real runtime*, enumerated with engine E1 (explore):
// real generated AReplica, Get, Disconnect (NUM_REPLICAS = NUM_CLIENTS = 1), real
// LocalSharedManager for `clock`, real TCP mailboxes on loopback; one device: a byte relay between
// the Get client and the replica that can hold back what the client sends after the replica's
// pre-commit acknowledgement (= the commit record) until the script opens a gate.  Moves:
// {commit record delivered at once | held back} x {Disconnect runs after the GET has reached the
// replica | while the record is held / before Get starts}.  Oracle: the replica's Run must not end
// with ErrAssertionFailed.  Nothing depends on time being short: every wait is for an observable
// event with a generous cap; a cap that is hit discards the execution (env_timeout).
// Each execution runs in a child process (sockets, goroutines that never end), which exits right
// after printing its outcome.

import (
	"bufio"
	"bytes"
	"encoding/json"
	"errors"
	"fmt"
	"net"
	"os"
	"os/exec"
	"strings"
	"sync"
	"time"

	"github.com/DistCompiler/pgo/distsys"
	"github.com/DistCompiler/pgo/distsys/resources"
	"github.com/DistCompiler/pgo/distsys/tla"
	rkv "github.com/DistCompiler/pgo/systems/replicatedkv"
	"verif/mc/explore"
	"verif/mc/hres"
)

const rkvKey = "replicatedkv/assertion/get-overtaken-by-disconnect"

type rkvOutcome struct {
	Outcome string   `json:"outcome"` // assertion-failed | get-handled | get-not-sent | env_timeout | env_error | replica-error
	Detail  string   `json:"detail,omitempty"`
	Events  []string `json:"events,omitempty"`
}

// ---- devices ---------------------------------------------------------------------------------

// spy wraps the replica's own mailbox; it records every read attempt and, after each commit,
// the messages read in that critical section.  It changes nothing.
type spyLog struct {
	mu     sync.Mutex
	events []string
}

func (l *spyLog) add(e string) {
	l.mu.Lock()
	l.events = append(l.events, e)
	l.mu.Unlock()
}

func (l *spyLog) snapshot() []string {
	l.mu.Lock()
	defer l.mu.Unlock()
	return append([]string{}, l.events...)
}

// waitFor polls until pred(events) holds (index of interest returned) or the cap is hit.
func (l *spyLog) waitFor(cap time.Duration, stop <-chan error, pred func([]string) bool) (ok bool, stopped error, wasStopped bool) {
	deadline := time.Now().Add(cap)
	for time.Now().Before(deadline) {
		if pred(l.snapshot()) {
			return true, nil, false
		}
		select {
		case err := <-stop:
			return false, err, true
		case <-time.After(2 * time.Millisecond):
		}
	}
	return false, nil, false
}

type spyMap struct {
	inner   distsys.ArchetypeResource
	pending []string
	log     *spyLog
}
type spyLeaf struct {
	distsys.ArchetypeResourceLeafMixin
	parent *spyMap
	inner  distsys.ArchetypeResource
}

func (s *spyMap) Index(iface distsys.ArchetypeInterface, index tla.Value) (distsys.ArchetypeResource, error) {
	sub, err := s.inner.Index(iface, index)
	if err != nil {
		return nil, err
	}
	return &spyLeaf{parent: s, inner: sub}, nil
}
func (s *spyMap) ReadValue(iface distsys.ArchetypeInterface) (tla.Value, error) {
	return s.inner.ReadValue(iface)
}
func (s *spyMap) WriteValue(iface distsys.ArchetypeInterface, v tla.Value) error {
	return s.inner.WriteValue(iface, v)
}
func (s *spyMap) PreCommit(iface distsys.ArchetypeInterface) chan error {
	return s.inner.PreCommit(iface)
}
func (s *spyMap) Abort(iface distsys.ArchetypeInterface) chan struct{} {
	s.pending = nil
	return s.inner.Abort(iface)
}
func (s *spyMap) Commit(iface distsys.ArchetypeInterface) chan struct{} {
	if ch := s.inner.Commit(iface); ch != nil {
		<-ch
	}
	for _, v := range s.pending {
		s.log.add("commit:" + v)
	}
	s.pending = nil
	return nil
}
func (s *spyMap) Close() error { return s.inner.Close() }

func (l *spyLeaf) ReadValue(iface distsys.ArchetypeInterface) (tla.Value, error) {
	l.parent.log.add("attempt")
	v, err := l.inner.ReadValue(iface)
	if err == nil {
		l.parent.pending = append(l.parent.pending, v.StripVClock().ApplyFunction(tla.MakeString("op")).AsString())
	}
	return v, err
}
func (l *spyLeaf) WriteValue(iface distsys.ArchetypeInterface, v tla.Value) error {
	return l.inner.WriteValue(iface, v)
}
func (l *spyLeaf) PreCommit(iface distsys.ArchetypeInterface) chan error {
	return l.inner.PreCommit(iface)
}
func (l *spyLeaf) Commit(iface distsys.ArchetypeInterface) chan struct{} {
	return l.inner.Commit(iface)
}
func (l *spyLeaf) Abort(iface distsys.ArchetypeInterface) chan struct{} { return l.inner.Abort(iface) }
func (l *spyLeaf) Close() error                                         { return l.inner.Close() }

// slowLink forwards bytes between the Get client and the replica.  If holding, then once the
// replica has answered anything (before the commit its only answer is the pre-commit
// acknowledgement) whatever the client sends next (the commit record) waits for the gate.
type slowLink struct {
	ln       net.Listener
	hold     bool
	ackOnce  sync.Once
	ackSeen  chan struct{}
	gateOnce sync.Once
	gate     chan struct{}
}

func newSlowLink(target string, hold bool) (*slowLink, error) {
	ln, err := net.Listen("tcp", "127.0.0.1:0")
	if err != nil {
		return nil, err
	}
	l := &slowLink{ln: ln, hold: hold, ackSeen: make(chan struct{}), gate: make(chan struct{})}
	go func() {
		for {
			c, err := ln.Accept()
			if err != nil {
				return
			}
			s, err := net.Dial("tcp", target)
			if err != nil {
				c.Close()
				continue
			}
			go func() { // replica -> client
				buf := make([]byte, 4096)
				for {
					n, err := s.Read(buf)
					if n > 0 {
						l.ackOnce.Do(func() { close(l.ackSeen) }) // before the client can see the ack
						c.Write(buf[:n])
					}
					if err != nil {
						c.Close()
						return
					}
				}
			}()
			go func() { // client -> replica
				buf := make([]byte, 4096)
				for {
					n, err := c.Read(buf)
					if n > 0 {
						if l.hold {
							select {
							case <-l.ackSeen:
								<-l.gate // the commit record crawls along the wire
							default:
							}
						}
						s.Write(buf[:n])
					}
					if err != nil {
						s.Close()
						return
					}
				}
			}()
		}
	}()
	return l, nil
}
func (l *slowLink) open() { l.gateOnce.Do(func() { close(l.gate) }) }

func freeAddr() (string, error) {
	ln, err := net.Listen("tcp", "127.0.0.1:0")
	if err != nil {
		return "", err
	}
	defer ln.Close()
	return ln.Addr().String(), nil
}

// ---- one scripted execution (child process) -------------------------------------------------------

const rkvCap = 45 * time.Second // cap of every wait for an observable event; hitting it discards the run

// rkvScenario: hold = the Get's commit record is held back on the link; early = Disconnect runs
// while the record is held (hold) resp. before Get starts (!hold); !early = Disconnect runs after
// the GET has been read and committed by the replica.
func rkvScenario(hold, early bool) (out rkvOutcome) {
	defer func() {
		if x := recover(); x != nil {
			out = rkvOutcome{Outcome: "env_error", Detail: fmt.Sprint(x)}
		}
	}()
	s := tla.MakeString
	consts := []distsys.MPCalContextConfigFn{
		distsys.DefineConstantValue("BUFFER_SIZE", tla.MakeNumber(10)),
		distsys.DefineConstantValue("NUM_REPLICAS", tla.MakeNumber(1)),
		distsys.DefineConstantValue("NUM_CLIENTS", tla.MakeNumber(1)),
		distsys.DefineConstantValue("DISCONNECT_MSG", s("disconnect")),
		distsys.DefineConstantValue("GET_MSG", s("get")),
		distsys.DefineConstantValue("PUT_MSG", s("put")),
		distsys.DefineConstantValue("NULL_MSG", s("clock_update")),
		distsys.DefineConstantValue("GET_RESPONSE", s("get_response")),
		distsys.DefineConstantValue("PUT_RESPONSE", s("put_response")),
		distsys.DefineConstantValue("NULL", s("null")),
		distsys.DefineConstantValue("GET_KEY", s("k1")),
		distsys.DefineConstantValue("PUT_KEY", s("k2")),
		distsys.DefineConstantValue("PUT_VALUE", s("v")),
	}
	with := func(fns ...distsys.MPCalContextConfigFn) []distsys.MPCalContextConfigFn {
		return append(append([]distsys.MPCalContextConfigFn{}, consts...), fns...)
	}
	iface := distsys.NewMPCalContextWithoutArchetype(consts...).IFace()
	// replica 0; client 1 with its Get process (self 1) and its Disconnect process (self 3), clientId 1
	replicaSelf, getSelf, disconnectSelf, clientID := tla.MakeNumber(0), tla.MakeNumber(1), tla.MakeNumber(3), tla.MakeNumber(1)
	replicaAddr, err := freeAddr()
	if err != nil {
		return rkvOutcome{Outcome: "env_error", Detail: err.Error()}
	}
	getMailboxAddr, err := freeAddr()
	if err != nil {
		return rkvOutcome{Outcome: "env_error", Detail: err.Error()}
	}
	link, err := newSlowLink(replicaAddr, hold)
	if err != nil {
		return rkvOutcome{Outcome: "env_error", Detail: err.Error()}
	}
	clocks := resources.NewLocalSharedManager(tla.MakeFunction([]tla.Value{rkv.ClientSet(iface)}, func([]tla.Value) tla.Value { return tla.MakeNumber(0) }))
	mailboxes := func(self tla.Value, replicaVia string, opts ...resources.MailboxesOption) *resources.Mailboxes {
		return resources.NewTCPMailboxes(func(idx tla.Value) (resources.MailboxKind, string) {
			kind := resources.MailboxesRemote
			if idx.Equal(self) {
				kind = resources.MailboxesLocal
			}
			switch {
			case idx.Equal(replicaSelf):
				if kind == resources.MailboxesLocal {
					return kind, replicaAddr
				}
				return kind, replicaVia
			case idx.Equal(getSelf):
				return kind, getMailboxAddr
			}
			panic("unexpected mailbox " + idx.String())
		}, opts...)
	}
	log := &spyLog{}
	spy := &spyMap{inner: mailboxes(replicaSelf, replicaAddr), log: log}
	replicaCtx := distsys.NewMPCalContext(replicaSelf, rkv.AReplica, with(
		distsys.EnsureArchetypeRefParam("clients", mailboxes(tla.MakeNumber(-1), replicaAddr)),
		distsys.EnsureArchetypeRefParam("replicas", spy),
		distsys.EnsureArchetypeRefParam("kv", distsys.NewLocalArchetypeResource(
			tla.MakeFunction([]tla.Value{rkv.KeySpace(iface)}, func([]tla.Value) tla.Value { return iface.GetConstant("NULL")() }))),
	)...)
	getOut := make(chan tla.Value, 4)
	getCtx := distsys.NewMPCalContext(getSelf, rkv.Get, with(
		distsys.EnsureArchetypeRefParam("clientId", distsys.NewLocalArchetypeResource(clientID)),
		distsys.EnsureArchetypeRefParam("replicas", mailboxes(tla.MakeNumber(-1), link.ln.Addr().String(), resources.WithMailboxesWriteTimeout(time.Hour))),
		distsys.EnsureArchetypeRefParam("clients", mailboxes(getSelf, replicaAddr)),
		distsys.EnsureArchetypeValueParam("key", iface.GetConstant("GET_KEY")()),
		distsys.EnsureArchetypeRefParam("clock", clocks.MakeLocalShared()),
		distsys.EnsureArchetypeValueParam("spin", tla.ModuleFALSE),
		distsys.EnsureArchetypeRefParam("outside", resources.NewOutputChan(getOut)),
	)...)
	disconnectCtx := distsys.NewMPCalContext(disconnectSelf, rkv.Disconnect, with(
		distsys.EnsureArchetypeRefParam("clientId", distsys.NewLocalArchetypeResource(clientID)),
		distsys.EnsureArchetypeRefParam("replicas", mailboxes(tla.MakeNumber(-1), replicaAddr)),
		distsys.EnsureArchetypeRefParam("clock", clocks.MakeLocalShared()),
	)...)
	replicaDone, getDone, disconnectDone := make(chan error, 1), make(chan error, 1), make(chan error, 1)
	go func() { replicaDone <- replicaCtx.Run() }()
	committed := func(op string) func([]string) bool {
		return func(ev []string) bool {
			for _, e := range ev {
				if e == "commit:"+op {
					return true
				}
			}
			return false
		}
	}
	timeout := func(where string) rkvOutcome {
		return rkvOutcome{Outcome: "env_timeout", Detail: where, Events: log.snapshot()}
	}
	replicaEnded := func(err error) rkvOutcome {
		if errors.Is(err, distsys.ErrAssertionFailed) {
			return rkvOutcome{Outcome: "assertion-failed", Detail: err.Error(), Events: log.snapshot()}
		}
		return rkvOutcome{Outcome: "replica-error", Detail: fmt.Sprint(err), Events: log.snapshot()}
	}
	runDisconnect := func(wait time.Duration) (finished bool, o *rkvOutcome) {
		go func() { disconnectDone <- disconnectCtx.Run() }()
		select {
		case err := <-disconnectDone:
			if err != nil {
				return true, &rkvOutcome{Outcome: "env_error", Detail: "Disconnect: " + err.Error()}
			}
			return true, nil
		case <-time.After(wait):
			return false, nil
		}
	}
	if !hold && early {
		// Disconnect wholly before Get: Get finds clock[clientId] = -1 and must not send anything
		if fin, o := runDisconnect(rkvCap); o != nil {
			return *o
		} else if !fin {
			return timeout("Disconnect did not finish")
		}
		if ok, err, stopped := log.waitFor(rkvCap, replicaDone, committed("disconnect")); stopped {
			return replicaEnded(err)
		} else if !ok {
			return timeout("replica never read the DISCONNECT")
		}
		go func() { getDone <- getCtx.Run() }()
		select {
		case err := <-getDone:
			if err != nil {
				return rkvOutcome{Outcome: "env_error", Detail: "Get: " + err.Error()}
			}
			return rkvOutcome{Outcome: "get-not-sent", Events: log.snapshot()}
		case err := <-replicaDone:
			return replicaEnded(err)
		case <-time.After(rkvCap):
			return timeout("Get did not stop after the disconnect")
		}
	}
	// the client issues a Get
	go func() { getDone <- getCtx.Run() }()
	if hold {
		select {
		case <-link.ackSeen: // Get.getRequest has pre-committed; its commit record is on the slow link
		case err := <-getDone:
			return rkvOutcome{Outcome: "env_error", Detail: fmt.Sprintf("Get stopped early: %v", err)}
		case <-time.After(rkvCap):
			return timeout("Get.getRequest never reached its commit")
		}
		if early {
			// the same client disconnects while the Get section is half committed.  A runtime that held
			// the clock until the whole section is committed would make Disconnect wait here.
			fin, o := runDisconnect(20 * time.Second)
			if o != nil {
				return *o
			}
			if fin {
				if ok, err, stopped := log.waitFor(rkvCap, replicaDone, committed("disconnect")); stopped {
					return replicaEnded(err)
				} else if !ok {
					return timeout("replica never read the DISCONNECT")
				}
			}
		}
		link.open()
	}
	if ok, err, stopped := log.waitFor(rkvCap, replicaDone, committed("get")); stopped {
		return replicaEnded(err)
	} else if !ok {
		return timeout("replica never read the GET")
	}
	if !early {
		if fin, o := runDisconnect(rkvCap); o != nil {
			return *o
		} else if !fin {
			return timeout("Disconnect did not finish")
		}
	}
	// the replica handles the GET (clientDisconnected, replicaGetRequest: assert msg.client \in liveClients, ...);
	// having survived it, it comes back to receiveClientRequest and tries to read its mailbox again
	afterGet := func(ev []string) bool {
		seen := false
		for _, e := range ev {
			if e == "commit:get" {
				seen = true
			} else if seen && e == "attempt" {
				return true
			}
		}
		return false
	}
	if ok, err, stopped := log.waitFor(rkvCap, replicaDone, afterGet); stopped {
		return replicaEnded(err)
	} else if !ok {
		return timeout("replica neither failed nor came back to its mailbox after the GET")
	}
	return rkvOutcome{Outcome: "get-handled", Events: log.snapshot()}
}

// rkvChild is the child-process entry (VERIF_CHILD=rkv:<hold>:<early>).
func rkvChild(spec string) {
	f := strings.Split(spec, ":")
	o := rkvScenario(f[1] == "1", f[2] == "1")
	if len(o.Events) > 12 {
		o.Events = o.Events[len(o.Events)-12:]
	}
	b, _ := json.Marshal(o)
	fmt.Printf("\nRKV_RESULT %s\n", b)
	os.Stdout.Sync()
	os.Exit(0) // sockets and parked goroutines are abandoned on purpose
}

func rkvRunChild(hold, early bool) rkvOutcome {
	self := os.Getenv("VERIF_SELF")
	if self == "" {
		self = os.Args[0]
	}
	b2i := map[bool]int{false: 0, true: 1}
	cmd := exec.Command(self, "-test.run", "^TestCheck$", "-test.count", "1", "-test.timeout", "0")
	cmd.Env = append(os.Environ(), fmt.Sprintf("VERIF_CHILD=rkv:%d:%d", b2i[hold], b2i[early]))
	var buf bytes.Buffer
	cmd.Stdout = &buf
	cmd.Stderr = nil
	if err := cmd.Start(); err != nil {
		return rkvOutcome{Outcome: "env_error", Detail: err.Error()}
	}
	done := make(chan error, 1)
	go func() { done <- cmd.Wait() }()
	select {
	case <-done:
	case <-time.After(5 * time.Minute): // watchdog: a stuck child is killed and the run discarded
		cmd.Process.Kill()
		<-done
		return rkvOutcome{Outcome: "env_timeout", Detail: "child process did not finish"}
	}
	sc := bufio.NewScanner(&buf)
	sc.Buffer(make([]byte, 1<<20), 1<<24)
	for sc.Scan() {
		if l := sc.Text(); strings.HasPrefix(l, "RKV_RESULT ") {
			var o rkvOutcome
			if json.Unmarshal([]byte(strings.TrimPrefix(l, "RKV_RESULT ")), &o) == nil {
				return o
			}
		}
	}
	return rkvOutcome{Outcome: "env_error", Detail: "child produced no result"}
}

type rkvReplay struct {
	RKV     bool  `json:"replicatedkv_runtime"`
	Choices []int `json:"choices"`
}

// rkvBody is the E1 body: two choice points, one child process per execution.
func rkvBody(discarded *int64, mu *sync.Mutex) func(c *explore.Ctx) {
	return func(c *explore.Ctx) {
		hold := c.Choose(2, "Get's commit record: 0 = delivered at once, 1 = held back on the link") == 1
		var early bool
		if hold {
			early = c.Choose(2, "Disconnect: 0 = after the GET reached the replica, 1 = while the commit record is held") == 1
		} else {
			early = c.Choose(2, "Disconnect: 0 = after the GET reached the replica, 1 = before Get starts") == 1
		}
		var o rkvOutcome
		for try := 0; try < 3; try++ { // environment trouble (busy port, starved machine) = retry, then discard
			o = rkvRunChild(hold, early)
			if o.Outcome != "env_timeout" && o.Outcome != "env_error" {
				break
			}
		}
		switch o.Outcome {
		case "env_timeout", "env_error":
			mu.Lock()
			*discarded++
			mu.Unlock()
			c.Outcome("discarded")
		case "assertion-failed":
			c.Outcome(o.Outcome)
			c.Fail(rkvKey, fmt.Sprintf("real runtime, NUM_REPLICAS = NUM_CLIENTS = 1: AReplica.Run ended with %q: Get.getRequest's commit released the shared clock while its GET's commit record was still on the way; Disconnect took the clock (-1) and its DISCONNECT reached the replica first (replica's mailbox: %s)",
				o.Detail, strings.Join(o.Events, " ")), o)
		case "replica-error":
			c.Outcome(o.Outcome)
			c.Fail("replicatedkv/replica-stopped", "AReplica.Run ended with "+o.Detail, o)
		default:
			c.Outcome(o.Outcome)
		}
	}
}

// rkvCheck runs the family and returns its violations and evidence.
func rkvCheck(env hres.Env) ([]hres.Viol, map[string]any) {
	var discarded int64
	var mu sync.Mutex
	st := explore.Run(rkvBody(&discarded, &mu), explore.Options{Workers: 1, Deadline: env.Deadline})
	var viol []hres.Viol
	for _, v := range st.Violations {
		viol = append(viol, hres.Viol{Key: v.Key, What: v.What, Replay: rkvReplay{true, v.Choices}})
	}
	outcomes := map[string]int{}
	for k, n := range st.OutcomeHist {
		outcomes[k] = n
	}
	return viol, map[string]any{
		"kind":       "bounded scripted exploration on the REAL runtime (engine E1 explore, one child process per execution) - not E4: generated AReplica/Get/Disconnect, resources.LocalSharedManager, TCP mailboxes on loopback, a byte relay that can hold back Get's commit record",
		"executions": st.Executions, "distinct_outcomes": st.Outcomes, "outcomes": outcomes, "exhaustive": st.Exhaustive, "discarded_env_timeout_or_error": discarded,
		"choice_points": []string{"commit record delivered at once | held back", "Disconnect after the GET reached the replica | while the record is held (resp. before Get starts)"},
		"oracle":        "AReplica.Run must not end with ErrAssertionFailed (assert(msg.client \\in liveClients) of replicated_kv.tla)", "wall_s": st.WallS, "samples": st.Samples,
	}
}

func rkvReplayOnce(r rkvReplay) []hres.Viol {
	var discarded int64
	var mu sync.Mutex
	v, _, _ := explore.ReplayOnce(rkvBody(&discarded, &mu), r.Choices, 0, nil)
	if v == nil {
		return nil
	}
	return []hres.Viol{{Key: v.Key, What: v.What, Replay: r}}
}

// Package c03: every exported operator of distsys/tla evaluates as TLC does, or fails loudly (property C03).
//
// ops.go: the value universe and the operator table.  Each operator has a TLA+ template (what TLC evaluates),
// the Go call the compiler emits for it, its well-kinded argument domains (enumerated completely) and, for the
// ill-kinded part, one representative per kind per argument position.
package c03

import (
	"fmt"
	"strings"

	"github.com/DistCompiler/pgo/distsys/tla"
	"verif/mc/tlabridge"
)

// ---- universe (texts are TLA+ and are parsed into Go values by tlabridge, tuples and functions kept apart) ------

const maxI, minI = "2147483647", "(-2147483647 - 1)"

var dom = map[string][]string{
	"BOOL": {"TRUE", "FALSE"},
	"INT":  {"(-2)", "(-1)", "0", "1", "2", "3", maxI, minI},
	"SINT": {"(-1)", "0", "1", "2", "3", maxI},
	"STR":  {`""`, `"a"`},

	// sets by element kind (TLC refuses to build or compare sets whose members are of different kinds)
	"SET_INT":  {"{}", "{0}", "{1}", "{2}", "{(-1)}", "{0, 1}", "{1, 2}", "{0, 2}", "{(-1), 1}", "{" + maxI + "}"},
	"EL_INT":   {"(-1)", "0", "1", "2", maxI},
	"SET_BOOL": {"{}", "{TRUE}", "{TRUE, FALSE}"},
	"EL_BOOL":  {"TRUE", "FALSE"},
	"SET_STR":  {"{}", `{"a"}`, `{"", "a"}`},
	"EL_STR":   {`""`, `"a"`, `"b"`},
	"SET_SET":  {"{}", "{{}}", "{{1}}", "{{}, {1}}", "{{1}, {2}}", "{{1, 2}}", "{{1}, {1, 2}}"},
	"EL_SET":   {"{}", "{1}", "{2}", "{1, 2}"},
	"SET_TUP":  {"{}", "{<<>>}", "{<<1>>}", "{<<1>>, <<2>>}", "{<<1, 2>>}", "{<<>>, <<1>>}"},
	"EL_TUP":   {"<<>>", "<<1>>", "<<2>>", "<<1, 2>>", "<<2, 1>>"},
	"SET_REC":  {"{}", "{[a |-> 1]}", "{[a |-> 1], [a |-> 2]}"},
	"EL_REC":   {"[a |-> 1]", "[a |-> 2]", "[a |-> 1, b |-> 2]"},
	"SET_SS":   {"{}", "{{}}", "{{{}}}", "{{{1}}}", "{{{1}}, {{2}, {1}}}", "{{}, {{1, 2}}}"}, // sets of sets of sets, for UNION results that are sets of sets

	"TUP": {"<<>>", "<<1>>", "<<2>>", "<<1, 2>>", "<<2, 1>>", "<<1, 1>>", `<<"a">>`, "<<TRUE>>", "<<{}>>", "<<<<1>>>>", `<<1, "a">>`, "<<{1}, {}>>"},
	// functions that are not sequences
	"FN": {"[a |-> 1]", "[a |-> 1, b |-> 2]", "(0 :> 1)", "(0 :> 1 @@ 1 :> 2)", "(2 :> 1)", "(TRUE :> 1 @@ FALSE :> 0)", `("a" :> <<1>>)`, "({} :> 1)", "(<<1>> :> 2)"},
	// functions whose domain is 1..n (or empty): the same TLA+ values as tuples, another Go representation
	"SEQFN": {`[x \in {} |-> x]`, "(1 :> 1)", "(1 :> 1 @@ 2 :> 2)", "(1 :> 2 @@ 2 :> 1)"},
	"KEY":   {"0", "1", "2", "3", "(-1)", `"a"`, `"b"`, "TRUE", "{}", "<<1>>"},
	// one representative per kind (ill-kinded patterns) — and ANY for operators that accept everything
	"REP": {"TRUE", "1", `"a"`, "{1}", "<<1>>", "[a |-> 1]", "(1 :> 1)"},
	"ANY": {"TRUE", "FALSE", "0", "1", "(-1)", `""`, `"a"`, "{}", "{1}", "<<>>", "<<1>>", "<<1, 2>>", "[a |-> 1]", "(0 :> 1)", "(1 :> 1)"},
}

func init() {
	dom["SET_ANY"] = uniq(dom["SET_INT"], dom["SET_BOOL"], dom["SET_STR"], dom["SET_SET"], dom["SET_TUP"], dom["SET_REC"], []string{"{(0 :> 1)}", "{(1 :> 1)}", "{0, 1, 2}"})
	dom["SEQ"] = uniq(dom["TUP"], dom["SEQFN"])
	dom["FUN"] = uniq(dom["FN"], dom["SEQFN"], dom["TUP"])
	dom["SETSET"] = uniq(dom["SET_SET"], dom["SET_SS"], []string{"{{<<1>>}, {<<2>>, <<1>>}}", `{{"a"}, {}}`, "{{TRUE}, {FALSE}}"})
}

func uniq(ls ...[]string) []string {
	seen := map[string]bool{}
	var out []string
	for _, l := range ls {
		for _, x := range l {
			if !seen[x] {
				seen[x] = true
				out = append(out, x)
			}
		}
	}
	return out
}

// element-kind groups for the binary set operators
var setGroups = []string{"INT", "BOOL", "STR", "SET", "TUP", "REC"}

func val(text string) tla.Value { return tlabridge.MustParse(text, false) }

// ---- operator table -----------------------------------------------------------------------------------------------

type goFn func(a []tla.Value) tla.Value

type opDef struct {
	Name   string     // unique name; also selects the child process
	Key    string     // operator name used in violation keys
	Tmpl   string     // TLA+ expression with one %s per argument
	Sigs   [][]string // well-kinded signatures: one domain name per argument; all combinations are enumerated
	Filter func(args []string) bool
	Ill    []int    // argument positions that also get the ill-kinded representatives (cross product over these positions)
	IllFix []string // texts for the positions not in Ill when generating ill-kinded cases
	Need   []string // kind required per argument: bool int string set tuple function any
	Go     goFn
	// special oracles
	ToStr      bool   // ToString: TLC.tla leaves the string unspecified; see classify
	Choose     string // CHOOSE: TLA+ predicate text with x free; Go result must satisfy it and be construction-order independent
	ExceptKeys []int  // EXCEPT: argument positions of the path keys (argument 0 is the function)
	Refine     func(args []tla.Value) string
}

var ops []*opDef

func add(o *opDef) *opDef {
	if o.Key == "" {
		o.Key = o.Name
	}
	if opByName(o.Name) != nil {
		panic("c03: duplicate operator name " + o.Name)
	}
	ops = append(ops, o)
	return o
}

func b(v bool) tla.Value { return tla.MakeBool(v) }

func negOperand(a []tla.Value) string {
	for _, x := range a {
		if x.IsNumber() && x.AsNumber() < 0 {
			return "negative-operand"
		}
	}
	return ""
}

// hasSeqFn: does v (deeply) contain a function whose domain is 1..n or empty — a tuple in TLA+?
func hasSeqFn(v tla.Value) bool {
	switch {
	case v.IsFunction():
		if tlabridge.Normalize(v).IsTuple() {
			return true
		}
		it := v.AsFunction().Iterator()
		for !it.Done() {
			k, x, _ := it.Next()
			if hasSeqFn(k) || hasSeqFn(x) {
				return true
			}
		}
	case v.IsSet():
		it := v.AsSet().Iterator()
		for !it.Done() {
			k, _, _ := it.Next()
			if hasSeqFn(k) {
				return true
			}
		}
	case v.IsTuple():
		it := v.AsTuple().Iterator()
		for !it.Done() {
			_, x := it.Next()
			if hasSeqFn(x) {
				return true
			}
		}
	}
	return false
}

func seqFnRefine(a []tla.Value) string {
	for _, x := range a {
		if hasSeqFn(x) {
			return "tuple-vs-function"
		}
	}
	return ""
}

// predicate / body families: TLA+ text with x (and y) free, and the Go closure the compiler would generate
type lam struct {
	tla string
	f   func(x []tla.Value) tla.Value
}

var one, zero, seven = tla.MakeNumber(1), tla.MakeNumber(0), tla.MakeNumber(7)

var intPreds = []lam{
	{"x > 0", func(x []tla.Value) tla.Value { return tla.ModuleGreaterThanSymbol(x[0], zero) }},
	{"x = 1", func(x []tla.Value) tla.Value { return tla.ModuleEqualsSymbol(x[0], one) }},
	{`x \in {0, 2}`, func(x []tla.Value) tla.Value {
		return tla.ModuleInSymbol(x[0], tla.MakeSet(zero, tla.MakeNumber(2)))
	}},
	{"TRUE", func(x []tla.Value) tla.Value { return tla.ModuleTRUE }},
	{"FALSE", func(x []tla.Value) tla.Value { return tla.ModuleFALSE }},
	{"x", func(x []tla.Value) tla.Value { return x[0] }}, // not a boolean
}
var anyPreds = []lam{
	{"TRUE", func(x []tla.Value) tla.Value { return tla.ModuleTRUE }},
	{"FALSE", func(x []tla.Value) tla.Value { return tla.ModuleFALSE }},
	{"x = <<1>>", func(x []tla.Value) tla.Value { return tla.ModuleEqualsSymbol(x[0], tla.MakeTuple(one)) }},
	{"x # <<1>>", func(x []tla.Value) tla.Value { return tla.ModuleNotEqualsSymbol(x[0], tla.MakeTuple(one)) }},
}
var bodies = []lam{
	{"x", func(x []tla.Value) tla.Value { return x[0] }},
	{"<<x>>", func(x []tla.Value) tla.Value { return tla.MakeTuple(x[0]) }},
	{"7", func(x []tla.Value) tla.Value { return seven }},
	{"{x}", func(x []tla.Value) tla.Value { return tla.MakeSet(x[0]) }},
}
var intBodies = []lam{
	{"x + 1", func(x []tla.Value) tla.Value { return tla.ModulePlusSymbol(x[0], one) }},
	{"x * 0", func(x []tla.Value) tla.Value { return tla.ModuleAsteriskSymbol(x[0], zero) }},
}

// asBool is what generated code does with a predicate body: `.AsBool()`
func pred1(l lam) func(tla.Value) bool {
	return func(x tla.Value) bool { return l.f([]tla.Value{x}).AsBool() }
}
func predN(l lam) func([]tla.Value) bool {
	return func(x []tla.Value) bool { return l.f(x).AsBool() }
}

func init() {
	un := func(name, tmpl, d, need string, f func(x tla.Value) tla.Value) *opDef {
		return add(&opDef{Name: name, Tmpl: tmpl, Sigs: [][]string{{d}}, Ill: []int{0}, Need: []string{need},
			Go: func(a []tla.Value) tla.Value { return f(a[0]) }})
	}
	bin := func(name, tmpl string, sigs [][]string, need [2]string, f func(x, y tla.Value) tla.Value) *opDef {
		return add(&opDef{Name: name, Tmpl: tmpl, Sigs: sigs, Ill: []int{0, 1}, Need: need[:],
			Go: func(a []tla.Value) tla.Value { return f(a[0], a[1]) }})
	}
	ii := [][]string{{"INT", "INT"}}
	nn := [2]string{"int", "int"}

	// --- logic
	un("~", "~%s", "BOOL", "bool", tla.ModuleLogicalNotSymbol)
	bin("<=>", "%s <=> %s", [][]string{{"BOOL", "BOOL"}}, [2]string{"bool", "bool"}, tla.ModuleEquivSymbol)
	eqSigs := [][]string{{"INT", "INT"}, {"BOOL", "BOOL"}, {"STR", "STR"}, {"FUN", "FUN"}}
	for _, g := range setGroups {
		eqSigs = append(eqSigs, []string{"SET_" + g, "SET_" + g})
	}
	bin("=", "%s = %s", eqSigs, [2]string{"any", "any"}, tla.ModuleEqualsSymbol).Refine = seqFnRefine
	bin("#", "%s # %s", eqSigs, [2]string{"any", "any"}, tla.ModuleNotEqualsSymbol).Refine = seqFnRefine
	add(&opDef{Name: "Assert", Tmpl: `Assert(%s, "m")`, Sigs: [][]string{{"BOOL"}}, Ill: []int{0}, Need: []string{"bool"},
		Go: func(a []tla.Value) tla.Value { return tla.ModuleAssert(a[0], tla.MakeString("m")) }})
	// nested collections of up to 3 members: their printed form must not depend on the insertion order at any level
	dom["TOSTR_NESTED"] = []string{"{1, 2}", "{1, 2, 3}", "{{1, 3}, {2}}", "{{1, 2, 3}, {2}, {1, 3}}", "[a |-> 1, b |-> 2]",
		"[a |-> {1, 2}, b |-> <<{2, 3}>>]", "(0 :> 1 @@ 1 :> 2 @@ 2 :> 3)", "<<{1, 2}, {2, 3}>>", "{[a |-> 1, b |-> 2], [a |-> 2, b |-> 1]}",
		"{<<1, 2>>, <<2, 1>>, <<>>}", "({1, 2} :> {3, 4})", `{"b", "a", "c"}`,
		// members whose printed forms order differently from their values (digit count, sign)
		"{2, 10}", "{9, 10, 11}", "{(-1), (-2)}", "{(-2), 3, 10}", "{{2}, {10}}", "{{1, 10}, {2}}", "<<10, 2>>", "{<<2>>, <<10>>}",
		"{(1 :> 5 @@ 3 :> 0), (1 :> 4 @@ 4 :> 0)}", "{(0 :> 9 @@ 3 :> 0), (0 :> 1 @@ 5 :> 0), (3 :> 0)}",
		"{<<10, 1>>, <<2, 3>>, <<9>>}", "(10 :> 0 @@ 2 :> 1)", "[a |-> {10, 2}]", "{{(-1)}, {(-2)}, {}}", "{TRUE, FALSE}"}
	add(&opDef{Name: "ToString", Tmpl: "ToString(%s)", Sigs: [][]string{{"ANY"}, {"TOSTR_NESTED"}}, Need: []string{"any"}, ToStr: true,
		Go: func(a []tla.Value) tla.Value { return tla.ModuleToString(a[0]) }})

	// --- arithmetic
	bin("+", "%s + %s", ii, nn, tla.ModulePlusSymbol)
	bin("-", "%s - %s", ii, nn, tla.ModuleMinusSymbol)
	bin("*", "%s * %s", ii, nn, tla.ModuleAsteriskSymbol)
	bin("^", "%s ^ %s", ii, nn, tla.ModuleSuperscriptSymbol)
	bin("<=", "%s <= %s", ii, nn, tla.ModuleLessThanOrEqualSymbol)
	bin(">=", "%s >= %s", ii, nn, tla.ModuleGreaterThanOrEqualSymbol)
	bin("<", "%s < %s", ii, nn, tla.ModuleLessThanSymbol)
	bin(">", "%s > %s", ii, nn, tla.ModuleGreaterThanSymbol)
	bin(`\div`, `%s \div %s`, ii, nn, tla.ModuleDivSymbol).Refine = negOperand
	bin("%", "%s %% %s", ii, nn, tla.ModulePercentSymbol).Refine = negOperand
	dd := bin("..", "%s..%s", ii, nn, tla.ModuleDotDotSymbol)
	dd.Filter = func(a []string) bool { // only intervals of at most 7 elements (2^32-element sets cannot be built by anyone)
		x, y := int64(val(a[0]).AsNumber()), int64(val(a[1]).AsNumber())
		return y-x <= 6
	}
	un("-.", "-%s", "INT", "int", tla.ModuleNegationSymbol)

	// --- sets
	var inSigs, setSigs [][]string
	for _, g := range setGroups {
		inSigs = append(inSigs, []string{"EL_" + g, "SET_" + g})
		setSigs = append(setSigs, []string{"SET_" + g, "SET_" + g})
	}
	// a tuple is the same TLA+ value as the function over 1..n: membership must not tell them apart
	inSigs = append(inSigs, []string{"SEQFN", "SET_TUP"}, []string{"EL_TUP", "SET_SEQFN"})
	dom["SET_SEQFN"] = []string{"{(1 :> 1)}", "{(1 :> 1 @@ 2 :> 2)}", `{[x \in {} |-> x]}`}
	bin(`\in`, `%s \in %s`, inSigs, [2]string{"any", "set"}, tla.ModuleInSymbol).Refine = seqFnRefine
	bin(`\notin`, `%s \notin %s`, inSigs, [2]string{"any", "set"}, tla.ModuleNotInSymbol).Refine = seqFnRefine
	ss := [2]string{"set", "set"}
	bin(`\cap`, `%s \cap %s`, setSigs, ss, tla.ModuleIntersectSymbol)
	bin(`\cup`, `%s \cup %s`, setSigs, ss, tla.ModuleUnionSymbol)
	bin(`\subseteq`, `%s \subseteq %s`, setSigs, ss, tla.ModuleSubsetOrEqualSymbol)
	bin(`\`, `%s \ %s`, setSigs, ss, tla.ModuleBackslashSymbol)
	un("SUBSET", "SUBSET %s", "SET_ANY", "set", tla.ModulePrefixSubsetSymbol)
	un("UNION", "UNION %s", "SETSET", "set", tla.ModulePrefixUnionSymbol)
	un("Cardinality", "Cardinality(%s)", "SET_ANY", "set", tla.ModuleCardinality)
	un("IsFiniteSet", "IsFiniteSet(%s)", "SET_ANY", "set", tla.ModuleIsFiniteSet)
	add(&opDef{Name: "{,}", Tmpl: "{%s, %s}", Sigs: [][]string{{"EL_INT", "EL_INT"}, {"EL_STR", "EL_STR"}, {"EL_SET", "EL_SET"}, {"EL_TUP", "EL_TUP"}, {"EL_BOOL", "EL_BOOL"}, {"SEQFN", "EL_TUP"}},
		Ill: []int{0, 1}, Need: []string{"any", "any"}, Refine: seqFnRefine,
		Go: func(a []tla.Value) tla.Value { return tla.MakeSet(a[0], a[1]) }})

	// --- sequences
	un("Len", "Len(%s)", "SEQ", "tuple", tla.ModuleLen)
	un("Head", "Head(%s)", "SEQ", "tuple", tla.ModuleHead)
	un("Tail", "Tail(%s)", "SEQ", "tuple", tla.ModuleTail)
	bin(`\o`, `%s \o %s`, [][]string{{"SEQ", "SEQ"}}, [2]string{"tuple", "tuple"}, tla.ModuleOSymbol)
	ap := bin("Append", "Append(%s, %s)", [][]string{{"SEQ", "REP"}}, [2]string{"tuple", "any"}, tla.ModuleAppend)
	ap.Ill, ap.IllFix = []int{0}, []string{"", "7"}
	add(&opDef{Name: "SubSeq", Tmpl: "SubSeq(%s, %s, %s)", Sigs: [][]string{{"SUBSEQ_S", "SINT", "SINT"}}, Ill: []int{0, 1, 2}, IllFix: []string{"<<1, 2>>", "1", "2"},
		Need: []string{"tuple", "int", "int"}, Go: func(a []tla.Value) tla.Value { return tla.ModuleSubSeq(a[0], a[1], a[2]) }})
	dom["SUBSEQ_S"] = []string{"<<>>", "<<1>>", "<<1, 2>>", `<<"a", {}, 3>>`, "(1 :> 1 @@ 2 :> 2)"}
	add(&opDef{Name: "Seq", Tmpl: `%s \in Seq(%s)`, Sigs: [][]string{{"EL_TUP", "SET_INT"}, {"SEQ_EL2", "SET_INT"}}, Need: []string{"any", "set"},
		Go: func(a []tla.Value) tla.Value { return tla.ModuleInSymbol(a[0], tla.ModuleSeq(a[1])) }})
	dom["SEQ_EL2"] = []string{"<<1, 1>>", "<<0, 1, 0>>", "<<1, 2, 1>>", "<<0>>", "<<0, 1>>", "<<1, 0>>"}
	add(&opDef{Name: "SelectSeq", Tmpl: "SelectSeq(%s, LAMBDA x : x > 1)", Sigs: [][]string{{"SELSEQ_S"}}, Need: []string{"tuple"},
		Go: func(a []tla.Value) tla.Value { return tla.ModuleSelectSeq(a[0], tla.Value{}) }})
	dom["SELSEQ_S"] = []string{"<<>>", "<<1, 2>>", "<<2, 3>>"}

	// --- functions and records
	bin(":>", "%s :> %s", [][]string{{"REP", "REP"}, {"EL_INT", "REP"}}, [2]string{"any", "any"}, tla.ModuleColonGreaterThanSymbol).Ill = nil
	bin("@@", "%s @@ %s", [][]string{{"FUN", "FUN"}}, [2]string{"function", "function"}, tla.ModuleDoubleAtSignSymbol)
	un("DOMAIN", "DOMAIN %s", "FUN", "function", tla.ModuleDomainSymbol)
	apply := bin("apply", "%s[%s]", [][]string{{"FUN", "KEY"}}, [2]string{"any", "any"}, func(f, x tla.Value) tla.Value { return f.ApplyFunction(x) })
	apply.Key, apply.Ill, apply.IllFix = "f[x]", []int{0}, []string{"", "1"}
	add(&opDef{Name: "record.a", Key: "r.a", Tmpl: "%s.a", Sigs: [][]string{{"FN"}, {"EL_REC"}}, Ill: []int{0}, Need: []string{"any"},
		Go: func(a []tla.Value) tla.Value { return a[0].ApplyFunction(tla.MakeString("a")) }})
	add(&opDef{Name: "EXCEPT", Tmpl: "[%s EXCEPT ![%s] = 7]", Sigs: [][]string{{"FUN", "KEY"}}, Ill: []int{0}, IllFix: []string{"", "1"}, Need: []string{"any", "any"}, ExceptKeys: []int{1},
		Go: func(a []tla.Value) tla.Value {
			return tla.FunctionSubstitution(a[0], []tla.FunctionSubstitutionRecord{{Keys: []tla.Value{a[1]}, Value: func(tla.Value) tla.Value { return seven }}})
		}})
	add(&opDef{Name: "EXCEPT@", Key: "EXCEPT", Tmpl: "[%s EXCEPT ![%s] = <<@>>]", Sigs: [][]string{{"FUN", "KEY"}}, Need: []string{"any", "any"}, ExceptKeys: []int{1},
		Go: func(a []tla.Value) tla.Value {
			return tla.FunctionSubstitution(a[0], []tla.FunctionSubstitutionRecord{{Keys: []tla.Value{a[1]}, Value: func(anchor tla.Value) tla.Value { return tla.MakeTuple(anchor) }}})
		}})
	dom["FUN2"] = []string{"<<<<1>>>>", "<<<<1, 2>>, <<3>>>>", `("a" :> <<1>>)`, "[a |-> [a |-> 1]]", "(0 :> (0 :> 1))", "[a |-> 1]", "<<1>>"}
	dom["KEY2"] = []string{"0", "1", "2", `"a"`}
	add(&opDef{Name: "EXCEPT2", Key: "EXCEPT", Tmpl: "[%s EXCEPT ![%s][%s] = 7]", Sigs: [][]string{{"FUN2", "KEY2", "KEY2"}}, Need: []string{"any", "any", "any"}, ExceptKeys: []int{1, 2},
		Go: func(a []tla.Value) tla.Value {
			return tla.FunctionSubstitution(a[0], []tla.FunctionSubstitutionRecord{{Keys: []tla.Value{a[1], a[2]}, Value: func(tla.Value) tla.Value { return seven }}})
		}})
	add(&opDef{Name: "EXCEPT,", Key: "EXCEPT", Tmpl: "[%s EXCEPT ![%s] = 7, ![%s] = <<@>>]", Sigs: [][]string{{"EXC_F", "KEY2", "KEY2"}}, Need: []string{"any", "any", "any"}, ExceptKeys: []int{1, 2},
		Go: func(a []tla.Value) tla.Value {
			return tla.FunctionSubstitution(a[0], []tla.FunctionSubstitutionRecord{
				{Keys: []tla.Value{a[1]}, Value: func(tla.Value) tla.Value { return seven }},
				{Keys: []tla.Value{a[2]}, Value: func(anchor tla.Value) tla.Value { return tla.MakeTuple(anchor) }}})
		}})
	dom["EXC_F"] = []string{"<<1, 2>>", "(0 :> 1 @@ 1 :> 2)", `[a |-> 1]`, "(0 :> 1 @@ 2 :> 3)"}
	dom["SET_INT_SMALL"] = []string{"{}", "{0}", "{1}", "{(-1)}", "{0, 1}", "{1, 2}", "{(-1), 1}", "{0, 1, 2}"}
	dom["SMALLSET"] = []string{"{}", "{1}", "{1, 2}", `{"a"}`, "{{}}", "{<<1>>}", "{2, 3}", "{0, 1}", "{TRUE, FALSE}"}
	for _, l := range append(append([]lam{}, bodies...), intBodies...) {
		l := l
		sig := "SMALLSET"
		if strings.Contains(l.tla, "+") || strings.Contains(l.tla, "*") {
			sig = "SET_INT_SMALL" // no MaxInt32: the overflow of + is judged at +, not here
		}
		add(&opDef{Name: "[x \\in S |-> " + l.tla + "]", Key: `[x \in S |-> e]`, Tmpl: `[x \in %s |-> ` + l.tla + "]", Sigs: [][]string{{sig}}, Ill: []int{0}, Need: []string{"set"},
			Go: func(a []tla.Value) tla.Value { return tla.MakeFunction([]tla.Value{a[0]}, l.f) }})
		add(&opDef{Name: "{" + l.tla + " : x \\in S}", Key: `{e : x \in S}`, Tmpl: "{" + l.tla + ` : x \in %s}`, Sigs: [][]string{{sig}}, Ill: []int{0}, Need: []string{"set"},
			Go: func(a []tla.Value) tla.Value { return tla.SetComprehension([]tla.Value{a[0]}, l.f) }})
	}
	pair := func(x []tla.Value) tla.Value { return tla.MakeTuple(x[0], x[1]) }
	add(&opDef{Name: "[x \\in S, y \\in T |-> <<x, y>>]", Key: `[x \in S |-> e]`, Tmpl: `[x \in %s, y \in %s |-> <<x, y>>]`, Sigs: [][]string{{"SMALLSET", "SMALLSET"}}, Need: []string{"set", "set"},
		Go: func(a []tla.Value) tla.Value { return tla.MakeFunction([]tla.Value{a[0], a[1]}, pair) }})
	add(&opDef{Name: "{<<x, y>> : x \\in S, y \\in T}", Key: `{e : x \in S}`, Tmpl: `{<<x, y>> : x \in %s, y \in %s}`, Sigs: [][]string{{"SMALLSET", "SMALLSET"}}, Need: []string{"set", "set"},
		Go: func(a []tla.Value) tla.Value { return tla.SetComprehension([]tla.Value{a[0], a[1]}, pair) }})
	bin(`\X`, `%s \X %s`, [][]string{{"SMALLSET", "SMALLSET"}}, ss, func(x, y tla.Value) tla.Value { return tla.CrossProduct(x, y) })
	add(&opDef{Name: `\X3`, Key: `\X`, Tmpl: `%s \X %s \X %s`, Sigs: [][]string{{"XSET", "XSET", "XSET"}}, Need: []string{"set", "set", "set"},
		Go: func(a []tla.Value) tla.Value { return tla.CrossProduct(a[0], a[1], a[2]) }})
	dom["XSET"] = []string{"{}", "{1}", "{1, 2}", `{"a"}`}
	bin("[S -> T]", "[%s -> %s]", [][]string{{"SMALLSET", "SMALLSET"}}, ss, tla.MakeFunctionSet)
	bin("[a: S, b: T]", "[a: %s, b: %s]", [][]string{{"SMALLSET", "SMALLSET"}}, ss, func(x, y tla.Value) tla.Value {
		return tla.MakeRecordSet([]tla.RecordField{{Key: tla.MakeString("a"), Value: x}, {Key: tla.MakeString("b"), Value: y}})
	})
	bin("<<,>>", "<<%s, %s>>", [][]string{{"REP", "REP"}}, [2]string{"any", "any"}, func(x, y tla.Value) tla.Value { return tla.MakeTuple(x, y) }).Ill = nil
	bin("[a |-> , b |-> ]", "[a |-> %s, b |-> %s]", [][]string{{"REP", "REP"}}, [2]string{"any", "any"}, func(x, y tla.Value) tla.Value {
		return tla.MakeRecord([]tla.RecordField{{Key: tla.MakeString("a"), Value: x}, {Key: tla.MakeString("b"), Value: y}})
	}).Ill = nil

	// --- quantifiers, CHOOSE, refinement
	quant := func(l lam, sig, S string) {
		add(&opDef{Name: `\A x \in ` + S + ` : ` + l.tla, Key: `\A`, Tmpl: `\A x \in %s : ` + l.tla, Sigs: [][]string{{sig}}, Ill: []int{0}, Need: []string{"set"},
			Go: func(a []tla.Value) tla.Value { return tla.QuantifiedUniversal([]tla.Value{a[0]}, predN(l)) }})
		add(&opDef{Name: `\E x \in ` + S + ` : ` + l.tla, Key: `\E`, Tmpl: `\E x \in %s : ` + l.tla, Sigs: [][]string{{sig}}, Ill: []int{0}, Need: []string{"set"},
			Go: func(a []tla.Value) tla.Value { return tla.QuantifiedExistential([]tla.Value{a[0]}, predN(l)) }})
		add(&opDef{Name: `{x \in ` + S + ` : ` + l.tla + "}", Key: `{x \in S : P}`, Tmpl: `{x \in %s : ` + l.tla + "}", Sigs: [][]string{{sig}}, Ill: []int{0}, Need: []string{"set"},
			Go: func(a []tla.Value) tla.Value { return tla.SetRefinement(a[0], pred1(l)) }})
		add(&opDef{Name: `CHOOSE x \in ` + S + ` : ` + l.tla, Key: "CHOOSE", Tmpl: `CHOOSE x \in %s : ` + l.tla, Sigs: [][]string{{sig}}, Ill: []int{0}, Need: []string{"set"}, Choose: l.tla,
			Go: func(a []tla.Value) tla.Value { return tla.Choose(a[0], pred1(l)) }})
	}
	for _, l := range intPreds {
		quant(l, "QSET_INT", "S")
	}
	dom["QSET_INT"] = append(append([]string{}, dom["SET_INT"]...), "{0, 1, 2}", "{(-1), 0}", "{2, 3}")
	for _, l := range anyPreds {
		quant(l, "SET_TUP", "Q")
		if strings.Contains(l.tla, "<<1>>") {
			// no ill-kinded sets here: x = <<1>> on a set of integers is the defect of =, judged at =
			for _, o := range ops[len(ops)-4:] {
				o.Ill = nil
			}
		}
	}
	// sets whose members are themselves sets / records / functions of up to 3 members: the candidates of CHOOSE
	// (and what \A, \E, refinement iterate over) then have a construction order of their own
	dom["QSET_SET"] = []string{"{}", "{{}}", "{{1, 3}, {2}}", "{{1, 2, 3}, {2}, {1, 3}}", "{{2}, {1, 3}, {1, 2}}", "{{}, {1}, {1, 2}}"}
	dom["QSET_REC"] = []string{"{}", "{[a |-> 1, b |-> 2], [a |-> 2, b |-> 1]}", "{[a |-> 1, b |-> 2], [a |-> 1, b |-> 1], [a |-> 0, b |-> 3]}"}
	dom["QSET_FN"] = []string{"{(0 :> {1, 2} @@ 1 :> {3}), (0 :> {2} @@ 1 :> {3, 4})}", "{<<{1, 2}, {3}>>, <<{2}, {1, 3}>>, <<{3, 1}>>}",
		"{[a |-> {1, 2}, b |-> 0], [a |-> {2}, b |-> 0], [a |-> {}, b |-> 1]}"}
	two := tla.MakeNumber(2)
	nested := func(l lam, sig, S string) {
		quant(l, sig, S)
		for _, o := range ops[len(ops)-4:] {
			o.Ill = nil
		}
	}
	for _, l := range []lam{
		{"TRUE", func(x []tla.Value) tla.Value { return tla.ModuleTRUE }},
		{"x # {}", func(x []tla.Value) tla.Value { return tla.ModuleNotEqualsSymbol(x[0], tla.MakeSet()) }},
		{`2 \in x`, func(x []tla.Value) tla.Value { return tla.ModuleInSymbol(two, x[0]) }},
		{"Cardinality(x) = 2", func(x []tla.Value) tla.Value { return tla.ModuleEqualsSymbol(tla.ModuleCardinality(x[0]), two) }},
	} {
		nested(l, "QSET_SET", "N")
	}
	for _, l := range []lam{
		{"TRUE", func(x []tla.Value) tla.Value { return tla.ModuleTRUE }},
		{"x.a = 1", func(x []tla.Value) tla.Value {
			return tla.ModuleEqualsSymbol(x[0].ApplyFunction(tla.MakeString("a")), one)
		}},
	} {
		nested(l, "QSET_REC", "R")
	}
	nested(lam{"TRUE", func(x []tla.Value) tla.Value { return tla.ModuleTRUE }}, "QSET_FN", "F")
	// candidates whose printed forms order differently from the values themselves ("10" < "2", "-1" < "-2"):
	// CHOOSE is TLC's least element in the order of VALUES
	dom["QSET_NUM"] = []string{"{2, 10}", "{9, 10, 11}", "{(-1), (-2)}", "{(-2), 3, 10}", "{10, 100, 9}"}
	dom["QSET_NUMSET"] = []string{"{{2}, {10}}", "{{1, 10}, {2}}", "{{10}, {2, 3}, {9}}", "{{(-1)}, {(-2)}}", "{{2, 10}, {9, 10}}"}
	dom["QSET_NUMTUP"] = []string{"{<<2>>, <<10>>}", "{<<10, 1>>, <<2, 3>>, <<9>>}", "{<<(-1)>>, <<(-2)>>}", "{<<1, 10>>, <<1, 2>>}"}
	dom["QSET_NUMFN"] = []string{"{(0 :> 10), (0 :> 2)}", "{(10 :> 0), (2 :> 0)}", "{(0 :> 10 @@ 1 :> 1), (0 :> 9 @@ 1 :> 2), (0 :> 10 @@ 1 :> 0)}"}
	dom["QSET_NUMREC"] = []string{"{[a |-> 10], [a |-> 2], [a |-> 9]}", "{[a |-> 1, b |-> 10], [a |-> 1, b |-> 2]}"}
	ten := tla.MakeNumber(10)
	tt := lam{"TRUE", func(x []tla.Value) tla.Value { return tla.ModuleTRUE }}
	for _, l := range []lam{tt,
		{"x > 2", func(x []tla.Value) tla.Value { return tla.ModuleGreaterThanSymbol(x[0], two) }},
		{"x < 10", func(x []tla.Value) tla.Value { return tla.ModuleLessThanSymbol(x[0], ten) }},
		{"x # 10", func(x []tla.Value) tla.Value { return tla.ModuleNotEqualsSymbol(x[0], ten) }},
	} {
		nested(l, "QSET_NUM", "D")
	}
	for _, l := range []lam{tt,
		{"Cardinality(x) = 1", func(x []tla.Value) tla.Value { return tla.ModuleEqualsSymbol(tla.ModuleCardinality(x[0]), one) }},
		{`10 \in x`, func(x []tla.Value) tla.Value { return tla.ModuleInSymbol(ten, x[0]) }},
	} {
		nested(l, "QSET_NUMSET", "DS")
	}
	for _, l := range []lam{tt,
		{"Len(x) = 1", func(x []tla.Value) tla.Value { return tla.ModuleEqualsSymbol(tla.ModuleLen(x[0]), one) }},
		{"x[1] > 2", func(x []tla.Value) tla.Value { return tla.ModuleGreaterThanSymbol(x[0].ApplyFunction(one), two) }},
	} {
		nested(l, "QSET_NUMTUP", "DT")
	}
	nested(tt, "QSET_NUMFN", "DF")
	for _, l := range []lam{tt,
		{"x.a > 2", func(x []tla.Value) tla.Value { return tla.ModuleGreaterThanSymbol(x[0].ApplyFunction(tla.MakeString("a")), two) }},
	} {
		nested(l, "QSET_NUMREC", "DR")
	}
	// predicates that RAISE on some elements: whether the quantifier / CHOOSE fails or answers depends on which elements
	// are reached before the answer is known; TLC visits the elements in the order of values.  The failing element
	// (0 for 10 \div x, an index outside 1..3 for s[x]) is first / in the middle / last in value order.
	dom["QSET_DIV"] = []string{"{0}", "{0, 1}", "{(-1), 0}", "{(-1), 0, 1}", "{(-2), (-1), 0}", "{0, 1, 2}", "{1, 2}", "{(-1), 1}", "{0, 10}", "{(-10), 0}"}
	dom["QSET_IDX"] = []string{"{1, 2, 3, 4}", "{2, 3, 4}", "{0, 2}", "{2, 4}", "{3, 4}", "{4, 5}", "{0, 1}", "{1, 3}", "{0, 2, 4}"}
	hundred := tla.MakeNumber(100)
	div10 := func(x tla.Value) tla.Value { return tla.ModuleDivSymbol(ten, x) }
	for _, l := range []lam{
		{`10 \div x > 100`, func(x []tla.Value) tla.Value { return tla.ModuleGreaterThanSymbol(div10(x[0]), hundred) }},
		{`10 \div x < 0`, func(x []tla.Value) tla.Value { return tla.ModuleLessThanSymbol(div10(x[0]), zero) }},
		{`10 \div x = 10`, func(x []tla.Value) tla.Value { return tla.ModuleEqualsSymbol(div10(x[0]), ten) }},
		{`10 \div x > 0`, func(x []tla.Value) tla.Value { return tla.ModuleGreaterThanSymbol(div10(x[0]), zero) }},
	} {
		nested(l, "QSET_DIV", "V")
	}
	seqAXB := tla.MakeTuple(tla.MakeString("a"), tla.MakeString("x"), tla.MakeString("b"))
	for _, l := range []lam{
		{`<<"a", "x", "b">>[x] = "x"`, func(x []tla.Value) tla.Value { return tla.ModuleEqualsSymbol(seqAXB.ApplyFunction(x[0]), tla.MakeString("x")) }},
		{`<<"a", "x", "b">>[x] # "x"`, func(x []tla.Value) tla.Value { return tla.ModuleNotEqualsSymbol(seqAXB.ApplyFunction(x[0]), tla.MakeString("x")) }},
	} {
		nested(l, "QSET_IDX", "I")
	}
	// Assert looks at its message only when the condition is FALSE, and the message need not be a string
	dom["ASSERT_MSG"] = []string{`"m"`, `<<"x must be positive", 1>>`, "1", "{}", "[a |-> 1]", "TRUE"}
	add(&opDef{Name: "Assert(c, m)", Key: "Assert", Tmpl: "Assert(%s, %s)", Sigs: [][]string{{"BOOL", "ASSERT_MSG"}}, Need: []string{"bool", "any"},
		Go: func(a []tla.Value) tla.Value { return tla.ModuleAssert(a[0], a[1]) }})
	// several bounds of ONE quantifier (the compiler passes them to one call): TLC varies the FIRST bound fastest, and
	// with a predicate that raises on some combinations the order decides between an error and an answer
	dom["BSET"] = []string{"{0, 1}", "{1}", "{0}", "{1, 2}", "{0, 1, 2}", "{0, 2}"}
	raiseOn := func(r, other int) func(x []tla.Value) bool { // (10 \div (1 - x_r)) = 10 /\ x_other = 1, /\ as Go &&
		return func(x []tla.Value) bool {
			return tla.ModuleEqualsSymbol(tla.ModuleDivSymbol(ten, tla.ModuleMinusSymbol(one, x[r])), ten).AsBool() &&
				tla.ModuleEqualsSymbol(x[other], one).AsBool()
		}
	}
	for _, m := range []struct {
		tla string
		f   func(x []tla.Value) bool
	}{
		{`(10 \div (1 - y)) = 10 /\ x = 1`, raiseOn(1, 0)},
		{`(10 \div (1 - x)) = 10 /\ y = 1`, raiseOn(0, 1)},
	} {
		m := m
		add(&opDef{Name: `\E x \in S, y \in T : ` + m.tla, Key: `\E`, Tmpl: `\E x \in %s, y \in %s : ` + m.tla, Sigs: [][]string{{"BSET", "BSET"}}, Need: []string{"set", "set"},
			Go: func(a []tla.Value) tla.Value { return tla.QuantifiedExistential([]tla.Value{a[0], a[1]}, m.f) }})
		add(&opDef{Name: `\A x \in S, y \in T : ` + m.tla, Key: `\A`, Tmpl: `\A x \in %s, y \in %s : ` + m.tla, Sigs: [][]string{{"BSET", "BSET"}}, Need: []string{"set", "set"},
			Go: func(a []tla.Value) tla.Value { return tla.QuantifiedUniversal([]tla.Value{a[0], a[1]}, m.f) }})
	}
	// sets of functions whose DOMAINS differ: TLC orders functions by size, then the whole domain, then the values
	dom["QSET_FNDOM"] = []string{"{(1 :> 5 @@ 3 :> 0), (1 :> 4 @@ 4 :> 0)}", "{(0 :> 1), (1 :> 0)}", "{(2 :> 0 @@ 3 :> 0), (1 :> 9 @@ 4 :> 9), (1 :> 0 @@ 2 :> 9)}",
		"{(0 :> 9 @@ 3 :> 0), (0 :> 1 @@ 5 :> 0), (3 :> 0)}", "{(3 :> 0 @@ 4 :> 1), (3 :> 1 @@ 5 :> 0)}"}
	three := tla.MakeNumber(3)
	for _, l := range []lam{tt,
		{"x[3] = 0", func(x []tla.Value) tla.Value { return tla.ModuleEqualsSymbol(x[0].ApplyFunction(three), zero) }},
		{"x[3] # 0", func(x []tla.Value) tla.Value { return tla.ModuleNotEqualsSymbol(x[0].ApplyFunction(three), zero) }},
	} {
		nested(l, "QSET_FNDOM", "FD")
	}
	dom["QSET_RECDOM"] = []string{"{[a |-> 5, c |-> 0], [a |-> 4, d |-> 0]}", "{[b |-> 0], [a |-> 1]}"}
	nested(tt, "QSET_RECDOM", "RD")
	// cost: a wide nested set (n sets of n sets of n three-element sets).  Visiting it in the order of values must not
	// re-sort the nested sets on every comparison; the watchdog of the child process declares a hang on CPU burnt
	wide := func(n int32) tla.Value {
		var top []tla.Value
		for a := int32(1); a <= n; a++ {
			var mid []tla.Value
			for b := int32(1); b <= n; b++ {
				var low []tla.Value
				for c := int32(1); c <= n; c++ {
					v := a*10000 + b*100 + c*3
					low = append(low, tla.MakeSet(tla.MakeNumber(v+2), tla.MakeNumber(v), tla.MakeNumber(v+1)))
				}
				mid = append(mid, tla.MakeSet(low...))
			}
			top = append(top, tla.MakeSet(mid...))
		}
		return tla.MakeSet(top...)
	}
	dom["WIDE_N"] = []string{"2", "30"}
	wideTLA := `{{{{a * 10000 + b * 100 + c * 3, a * 10000 + b * 100 + c * 3 + 1, a * 10000 + b * 100 + c * 3 + 2} : c \in 1..%[1]s} : b \in 1..%[1]s} : a \in 1..%[1]s}`
	add(&opDef{Name: `\A over wide nested set`, Key: `\A`, Tmpl: `\A x \in ` + wideTLA + ` : TRUE`, Sigs: [][]string{{"WIDE_N"}}, Need: []string{"int"},
		Go: func(a []tla.Value) tla.Value {
			return tla.QuantifiedUniversal([]tla.Value{wide(a[0].AsNumber())}, func([]tla.Value) bool { return true })
		}})
	add(&opDef{Name: `\E over wide nested set`, Key: `\E`, Tmpl: `\E x \in ` + wideTLA + ` : FALSE`, Sigs: [][]string{{"WIDE_N"}}, Need: []string{"int"},
		Go: func(a []tla.Value) tla.Value {
			return tla.QuantifiedExistential([]tla.Value{wide(a[0].AsNumber())}, func([]tla.Value) bool { return false })
		}})
	add(&opDef{Name: `CHOOSE over wide nested set`, Key: `CHOOSE`, Tmpl: `Cardinality(CHOOSE x \in ` + wideTLA + ` : TRUE)`, Sigs: [][]string{{"WIDE_N"}}, Need: []string{"int"},
		Go: func(a []tla.Value) tla.Value {
			return tla.ModuleCardinality(tla.Choose(wide(a[0].AsNumber()), func(tla.Value) bool { return true }))
		}})
	le := func(x []tla.Value) bool { return tla.ModuleLessThanOrEqualSymbol(x[0], x[1]).AsBool() }
	add(&opDef{Name: `\A x \in S, y \in T : x <= y`, Key: `\A`, Tmpl: `\A x \in %s, y \in %s : x <= y`, Sigs: [][]string{{"SET_INT", "SET_INT"}}, Need: []string{"set", "set"},
		Go: func(a []tla.Value) tla.Value { return tla.QuantifiedUniversal([]tla.Value{a[0], a[1]}, le) }})
	add(&opDef{Name: `\E x \in S, y \in T : x <= y`, Key: `\E`, Tmpl: `\E x \in %s, y \in %s : x <= y`, Sigs: [][]string{{"SET_INT", "SET_INT"}}, Need: []string{"set", "set"},
		Go: func(a []tla.Value) tla.Value { return tla.QuantifiedExistential([]tla.Value{a[0], a[1]}, le) }})
}

// ---- case generation -----------------------------------------------------------------------------------------------

type tcase struct {
	Op   *opDef
	Args []string // TLA+ texts
	Expr string   // the expression TLC evaluates (also the identity of the case in the oracle table)
	Ill  bool     // generated as an ill-kinded representative
}

func (o *opDef) expr(args []string) string {
	a := make([]any, len(args))
	for i, x := range args {
		a[i] = x
	}
	return fmt.Sprintf(o.Tmpl, a...)
}

func product(lists [][]string, f func([]string)) {
	cur := make([]string, len(lists))
	var rec func(i int)
	rec = func(i int) {
		if i == len(lists) {
			f(append([]string{}, cur...))
			return
		}
		for _, x := range lists[i] {
			cur[i] = x
			rec(i + 1)
		}
	}
	rec(0)
}

// cases enumerates, per operator, every well-kinded argument tuple and the ill-kinded representatives.
func (o *opDef) cases() []tcase {
	var out []tcase
	seen := map[string]bool{}
	emit := func(args []string, ill bool) {
		if o.Filter != nil && !ill && !o.Filter(args) {
			return
		}
		e := o.expr(args)
		if seen[e] {
			return
		}
		seen[e] = true
		out = append(out, tcase{Op: o, Args: args, Expr: e, Ill: ill})
	}
	for _, sig := range o.Sigs {
		var lists [][]string
		for _, d := range sig {
			l, ok := dom[d]
			if !ok {
				panic("c03: unknown domain " + d)
			}
			lists = append(lists, l)
		}
		product(lists, func(a []string) { emit(a, false) })
	}
	if len(o.Ill) > 0 {
		n := len(o.Sigs[0])
		lists := make([][]string, n)
		for i := 0; i < n; i++ {
			lists[i] = []string{""}
			if o.IllFix != nil {
				lists[i] = []string{o.IllFix[i]}
			}
		}
		if len(o.Ill) <= 2 {
			for _, p := range o.Ill {
				lists[p] = dom["REP"]
			}
			product(lists, func(a []string) { emit(a, true) })
		} else {
			// three or more positions: vary one at a time around the well-kinded base
			for _, p := range o.Ill {
				l2 := append([][]string{}, lists...)
				l2[p] = dom["REP"]
				product(l2, func(a []string) { emit(a, true) })
			}
		}
	}
	return out
}

func allCases() []tcase {
	var out []tcase
	for _, o := range ops {
		out = append(out, o.cases()...)
	}
	return out
}

func opByName(name string) *opDef {
	for _, o := range ops {
		if o.Name == name {
			return o
		}
	}
	return nil
}

package c03

import (
	"bufio"
	"context"
	"encoding/json"
	"errors"
	"fmt"
	"io"
	"os"
	"os/exec"
	"path/filepath"
	"runtime"
	"runtime/debug"
	"sort"
	"strconv"
	"strings"
	"sync"
	"testing"
	"time"

	"github.com/DistCompiler/pgo/distsys/tla"
	"verif/mc/hres"
	"verif/mc/tlabridge"
)

// ---- oracle table ------------------------------------------------------------------------------------------------------

type oracleEntry struct {
	Expr     string `json:"expr"`
	OK       bool   `json:"ok"`
	Value    string `json:"value,omitempty"`
	ErrClass string `json:"err_class,omitempty"`
	ErrMsg   string `json:"err_msg,omitempty"`
}

func oraclePath() string {
	d := os.Getenv("VERIF_DIR")
	if d == "" {
		d = "/verif"
	}
	return filepath.Join(d, "oracle", "c03.jsonl")
}

func loadOracle(path string) (map[string]oracleEntry, error) {
	f, err := os.Open(path)
	if err != nil {
		return nil, err
	}
	defer f.Close()
	m := map[string]oracleEntry{}
	sc := bufio.NewScanner(f)
	sc.Buffer(make([]byte, 1<<20), 1<<26)
	for sc.Scan() {
		if strings.TrimSpace(sc.Text()) == "" {
			continue
		}
		var e oracleEntry
		if err := json.Unmarshal(sc.Bytes(), &e); err != nil {
			return nil, err
		}
		if !e.OK && e.ErrClass != "parse" && e.ErrClass != "timeout" {
			e.ErrClass = tlabridge.ClassifyError(e.ErrMsg) // the class is derived from TLC's message
		}
		m[e.Expr] = e
	}
	return m, sc.Err()
}

func writeOracle(path string, exprs []string, m map[string]oracleEntry) error {
	os.MkdirAll(filepath.Dir(path), 0o755)
	var sb strings.Builder
	for _, e := range exprs {
		b, _ := json.Marshal(m[e])
		sb.Write(b)
		sb.WriteByte('\n')
	}
	return os.WriteFile(path, []byte(sb.String()), 0o644)
}

// tlcEvaluate asks TLC for every expression (the argument texts themselves are included, so the table also shows
// that TLC can build every universe value).
func tlcEvaluate(ctx context.Context, exprs []string, workers int) (map[string]oracleEntry, int64, error) {
	// REPL mode: thousands of these expressions fail to evaluate by design, and the read-eval-print loop of TLC
	// survives an evaluation error (the batch mode would need one JVM start per failing expression)
	r := &tlabridge.Runner{Parallel: workers, Timeout: 90 * time.Second}
	res, err := r.EvalREPL(ctx, exprs)
	if err != nil {
		return nil, r.JVMRuns.Load(), err
	}
	m := map[string]oracleEntry{}
	for _, x := range res {
		m[x.Expr] = oracleEntry{Expr: x.Expr, OK: x.OK, Value: x.Value, ErrClass: x.ErrClass, ErrMsg: x.ErrMsg}
	}
	return m, r.JVMRuns.Load(), nil
}

// ---- Go side: child process protocol ---------------------------------------------------------------------------------

type goRes struct {
	Kind  string `json:"kind"` // value | tlatype | panic | hang | memory | env_timeout | skipped
	Canon string `json:"canon,omitempty"`
	Raw   string `json:"raw,omitempty"`
	Msg   string `json:"msg,omitempty"`
	Order string `json:"order_dependent,omitempty"` // outcome on the same argument values built in another insertion order, if different
	// number of construction-order variants of the arguments that were evaluated besides the base case, and
	// whether the enumeration of variants was cut (more than maxVariantCombos combinations)
	Variants int  `json:"variants,omitempty"`
	VarCut   bool `json:"variants_cut,omitempty"`
}

func evalGo(o *opDef, args []tla.Value) (r goRes) {
	defer func() {
		if x := recover(); x != nil {
			if e, ok := x.(error); ok && errors.Is(e, tla.ErrTLAType) {
				r = goRes{Kind: "tlatype", Msg: firstLine(e.Error())}
				return
			}
			r = goRes{Kind: "panic", Msg: firstLine(fmt.Sprint(x))}
		}
	}()
	v := o.Go(args)
	raw := v.String()
	if len(raw) > 300 {
		raw = raw[:300] + "..."
	}
	canon, err := tlabridge.ToTLA(tlabridge.Normalize(v))
	if err != nil {
		canon = "<not a TLA+ value: " + raw + ">" // e.g. the nil Value (defaultInitValue)
	}
	return goRes{Kind: "value", Canon: canon, Raw: raw}
}

func firstLine(s string) string {
	if i := strings.IndexByte(s, '\n'); i >= 0 {
		s = s[:i]
	}
	if len(s) > 200 {
		s = s[:200] + "..."
	}
	return s
}

const (
	maxVariantsPerValue = 64  // {{a,b},{c,d},{e,f}} has 3!*2^3 = 48
	maxVariantCombos    = 256 // over all arguments of one case
)

func permutations(n int) [][]int {
	if n == 0 {
		return [][]int{{}}
	}
	var out [][]int
	for _, p := range permutations(n - 1) {
		for pos := 0; pos <= len(p); pos++ {
			q := append(append(append([]int{}, p[:pos]...), n-1), p[pos:]...)
			out = append(out, q)
		}
	}
	// identity first
	for i, p := range out {
		id := true
		for j, x := range p {
			if x != j {
				id = false
			}
		}
		if id {
			out[0], out[i] = out[i], out[0]
		}
	}
	return out
}

// cartesian calls f with every choice of one element per list (first choice = first elements), until f returns false.
func cartesian(lists [][]tla.Value, f func([]tla.Value) bool) {
	cur := make([]tla.Value, len(lists))
	var rec func(i int) bool
	rec = func(i int) bool {
		if i == len(lists) {
			return f(append([]tla.Value{}, cur...))
		}
		for _, x := range lists[i] {
			cur[i] = x
			if !rec(i + 1) {
				return false
			}
		}
		return true
	}
	rec(0)
}

// orderVariants returns the same TLA+ value built in every insertion order of its set members and function
// pairs, at every nesting level (immutable maps of <= 8 entries iterate in insertion order, so the order is
// observable by anything that iterates).  The first variant is the value as given.  cut reports truncation.
func orderVariants(v tla.Value) (out []tla.Value, cut bool) {
	add := func(x tla.Value) bool {
		if len(out) >= maxVariantsPerValue {
			cut = true
			return false
		}
		out = append(out, x)
		return true
	}
	sub := func(x tla.Value) []tla.Value {
		vs, c := orderVariants(x)
		cut = cut || c
		return vs
	}
	switch {
	case v.IsSet():
		var members [][]tla.Value
		it := v.AsSet().Iterator()
		for !it.Done() {
			k, _, _ := it.Next()
			members = append(members, sub(k))
		}
		if len(members) > 4 {
			cut = true
			return []tla.Value{v}, cut
		}
		for _, p := range permutations(len(members)) {
			lists := make([][]tla.Value, len(p))
			for i, j := range p {
				lists[i] = members[j]
			}
			ok := true
			cartesian(lists, func(el []tla.Value) bool { ok = add(tla.MakeSet(el...)); return ok })
			if !ok {
				break
			}
		}
	case v.IsTuple():
		var lists [][]tla.Value
		it := v.AsTuple().Iterator()
		for !it.Done() {
			_, e := it.Next()
			lists = append(lists, sub(e))
		}
		cartesian(lists, func(el []tla.Value) bool { return add(tla.MakeTuple(el...)) })
	case v.IsFunction():
		var keys, vals [][]tla.Value
		it := v.AsFunction().Iterator()
		for !it.Done() {
			k, x, _ := it.Next()
			keys, vals = append(keys, sub(k)), append(vals, sub(x))
		}
		if len(keys) > 4 {
			cut = true
			return []tla.Value{v}, cut
		}
		for _, p := range permutations(len(keys)) {
			var lists [][]tla.Value
			for _, j := range p {
				lists = append(lists, keys[j], vals[j])
			}
			ok := true
			cartesian(lists, func(el []tla.Value) bool {
				var f []tla.RecordField
				for i := 0; i < len(el); i += 2 {
					f = append(f, tla.RecordField{Key: el[i], Value: el[i+1]})
				}
				ok = add(tla.MakeRecord(f))
				return ok
			})
			if !ok {
				break
			}
		}
	default:
		out = []tla.Value{v}
	}
	if len(out) == 0 {
		out = []tla.Value{v}
	}
	return out, cut
}

// evalVariants evaluates the operator on every construction-order variant of its arguments (all combinations when
// there are at most maxVariantCombos, otherwise every variant of one argument at a time) and records the first
// outcome that differs from the base outcome.
func evalVariants(o *opDef, args []tla.Value, r *goRes) {
	lists := make([][]tla.Value, len(args))
	total := 1
	for i, a := range args {
		vs, cut := orderVariants(a)
		r.VarCut = r.VarCut || cut
		lists[i] = vs
		total *= len(vs)
	}
	if total == 1 {
		return
	}
	try := func(va []tla.Value) bool {
		r.Variants++
		r2 := evalGo(o, va)
		if r2.Kind != r.Kind || r2.Canon != r.Canon {
			var in []string
			for _, x := range va {
				in = append(in, x.String())
			}
			r.Order = fmt.Sprintf("%s:%s on the arguments built as %s", r2.Kind, r2.Canon, strings.Join(in, " ; "))
			return false
		}
		return true
	}
	if total <= maxVariantCombos {
		first := true
		cartesian(lists, func(va []tla.Value) bool {
			if first { // the base case itself
				first = false
				return true
			}
			return try(va)
		})
		return
	}
	r.VarCut = true
	for i := range args {
		for _, x := range lists[i][1:] {
			va := append([]tla.Value{}, args...)
			va[i] = x
			if !try(va) {
				return
			}
		}
	}
}

func childMain(t *testing.T) {
	o := opByName(os.Getenv("VERIF_C03_OP"))
	if o == nil {
		t.Fatalf("unknown operator %q", os.Getenv("VERIF_C03_OP"))
	}
	from, _ := strconv.Atoi(os.Getenv("VERIF_C03_FROM"))
	only := -1
	if s := os.Getenv("VERIF_C03_ONLY"); s != "" {
		only, _ = strconv.Atoi(s)
		from = only
	}
	debug.SetGCPercent(50)
	w := bufio.NewWriter(os.Stdout)
	cur := -1
	var mu sync.Mutex
	go func() { // memory guard: an evaluation on values of <=3 elements that needs 1.5 GB is diverging
		var ms runtime.MemStats
		for {
			time.Sleep(20 * time.Millisecond)
			runtime.ReadMemStats(&ms)
			if ms.HeapAlloc > 1500<<20 {
				mu.Lock()
				fmt.Fprintf(w, "M %d\n", cur)
				w.Flush()
				os.Exit(3)
			}
		}
	}()
	cs := o.cases()
	for k := from; k < len(cs); k++ {
		c := cs[k]
		args := make([]tla.Value, len(c.Args))
		for i, a := range c.Args {
			args[i] = val(a)
		}
		mu.Lock()
		cur = k
		fmt.Fprintf(w, "S %d\n", k)
		w.Flush()
		mu.Unlock()
		r := evalGo(o, args)
		if r.Kind == "value" || r.Kind == "tlatype" {
			evalVariants(o, args, &r)
		}
		b, _ := json.Marshal(r)
		mu.Lock()
		fmt.Fprintf(w, "R %d %s\n", k, b)
		w.Flush()
		mu.Unlock()
		if only >= 0 {
			break
		}
	}
}

func procCPU(pid int) (time.Duration, bool) {
	b, err := os.ReadFile(fmt.Sprintf("/proc/%d/stat", pid))
	if err != nil {
		return 0, false
	}
	s := string(b)
	i := strings.LastIndexByte(s, ')')
	if i < 0 {
		return 0, false
	}
	f := strings.Fields(s[i+1:])
	if len(f) < 13 {
		return 0, false
	}
	ut, _ := strconv.ParseInt(f[11], 10, 64)
	st, _ := strconv.ParseInt(f[12], 10, 64)
	return time.Duration(ut+st) * 10 * time.Millisecond, true
}

type limits struct {
	hangCPU  time.Duration // CPU time one evaluation may burn before it is declared hanging
	envWall  time.Duration // wall time without reaching hangCPU after which the evaluation is discarded (starved machine)
	maxHangs int           // per operator: after this many hanging inputs the remaining inputs are skipped
}

// runOperator evaluates cases[from:] of one operator in child processes, observing hangs.
func runOperator(o *opDef, n int, only int, lim limits, deadline time.Time) map[int]goRes {
	res := map[int]goRes{}
	hangs := 0
	died := map[int]int{}
	from := 0
	if only >= 0 {
		from = only
	}
	for from < n {
		if hangs >= lim.maxHangs || time.Now().After(deadline) {
			kind := "skipped"
			for k := from; k < n; k++ {
				res[k] = goRes{Kind: kind, Msg: "not evaluated: operator abandoned after hangs / deadline"}
			}
			return res
		}
		cmd := exec.Command(os.Args[0], "-test.run", "^TestCheck$", "-test.timeout", "0", "-test.count", "1")
		cmd.Env = append(os.Environ(), "VERIF_CHILD=c03-eval", "VERIF_C03_OP="+o.Name, fmt.Sprintf("VERIF_C03_FROM=%d", from), "GOMAXPROCS=2")
		if only >= 0 {
			cmd.Env = append(cmd.Env, fmt.Sprintf("VERIF_C03_ONLY=%d", only))
		}
		out, err := cmd.StdoutPipe()
		if err != nil {
			panic(err)
		}
		cmd.Stderr = io.Discard
		if err := cmd.Start(); err != nil {
			panic(err)
		}
		lines := make(chan string, 1024)
		go func() {
			sc := bufio.NewScanner(out)
			sc.Buffer(make([]byte, 1<<20), 1<<26)
			for sc.Scan() {
				lines <- sc.Text()
			}
			close(lines)
		}()
		cur, curStart := -1, time.Now()
		var cpuAtStart time.Duration
		tick := time.NewTicker(250 * time.Millisecond)
		verdict := ""
	loop:
		for {
			select {
			case l, ok := <-lines:
				if !ok {
					break loop
				}
				switch {
				case strings.HasPrefix(l, "S "):
					cur, _ = strconv.Atoi(l[2:])
					curStart = time.Now()
					cpuAtStart, _ = procCPU(cmd.Process.Pid)
				case strings.HasPrefix(l, "R "):
					sp := strings.SplitN(l, " ", 3)
					k, _ := strconv.Atoi(sp[1])
					var r goRes
					json.Unmarshal([]byte(sp[2]), &r)
					res[k] = r
					cur = -1
				case strings.HasPrefix(l, "M "):
					verdict = "memory"
				}
			case <-tick.C:
				if cur < 0 {
					continue
				}
				cpu, ok := procCPU(cmd.Process.Pid)
				if ok && cpu-cpuAtStart >= lim.hangCPU {
					verdict = "hang"
					break loop
				}
				if time.Since(curStart) >= lim.envWall {
					verdict = "env_timeout"
					break loop
				}
			}
		}
		tick.Stop()
		cmd.Process.Kill()
		for range lines {
		}
		cmd.Wait()
		if only >= 0 {
			if _, ok := res[only]; !ok {
				if verdict == "" {
					verdict = "panic"
				}
				res[only] = goRes{Kind: verdict, Msg: "single evaluation did not complete: " + verdict}
			}
			return res
		}
		if cur >= 0 {
			// the child stopped while evaluating case cur
			switch verdict {
			case "hang":
				res[cur] = goRes{Kind: "hang", Msg: fmt.Sprintf("evaluation burnt %v of CPU without returning", lim.hangCPU)}
				hangs++
			case "memory":
				res[cur] = goRes{Kind: "memory", Msg: "evaluation allocated more than 1.5 GB without returning"}
				hangs++
			case "env_timeout":
				res[cur] = goRes{Kind: "env_timeout", Msg: "no verdict: machine too slow"}
			default:
				// the process died without a verdict: could be the environment (OOM killer); only a death that
				// repeats on the same input is attributed to the input
				died[cur]++
				if died[cur] < 2 {
					from = cur
					continue
				}
				res[cur] = goRes{Kind: "panic", Msg: "child process died twice on this input (fatal error outside recover)"}
			}
			from = cur + 1
			continue
		}
		// child ended normally
		last := from - 1
		for k := range res {
			if k > last {
				last = k
			}
		}
		if last+1 >= n {
			return res
		}
		// ended early without a case in progress (should not happen): mark and go on
		res[last+1] = goRes{Kind: "panic", Msg: "child ended unexpectedly"}
		from = last + 2
	}
	return res
}

// ---- verdicts -------------------------------------------------------------------------------------------------------------

// deepHas: does v or any value nested in it satisfy p?
func deepHas(v tla.Value, p func(tla.Value) bool) bool {
	if p(v) {
		return true
	}
	switch {
	case v.IsSet():
		it := v.AsSet().Iterator()
		for !it.Done() {
			k, _, _ := it.Next()
			if deepHas(k, p) {
				return true
			}
		}
	case v.IsTuple():
		it := v.AsTuple().Iterator()
		for !it.Done() {
			_, e := it.Next()
			if deepHas(e, p) {
				return true
			}
		}
	case v.IsFunction():
		it := v.AsFunction().Iterator()
		for !it.Done() {
			k, x, _ := it.Next()
			if deepHas(k, p) || deepHas(x, p) {
				return true
			}
		}
	}
	return false
}

func kindOf(v tla.Value) string {
	switch {
	case v.IsBool():
		return "bool"
	case v.IsNumber():
		return "int"
	case v.IsString():
		return "string"
	case v.IsSet():
		return "set"
	case v.IsTuple():
		return "tuple"
	case v.IsFunction():
		return "function"
	}
	return "nil"
}

// inDomain: is key in the domain of f (a tuple or function), judged on canonical normalised texts?
func inDomain(f, key tla.Value) (tla.Value, bool) {
	kc := tlabridge.Canon(key)
	switch {
	case f.IsTuple():
		if key.IsNumber() && key.AsNumber() >= 1 && int(key.AsNumber()) <= f.AsTuple().Len() {
			return f.AsTuple().Get(int(key.AsNumber()) - 1), true
		}
	case f.IsFunction():
		it := f.AsFunction().Iterator()
		for !it.Done() {
			k, v, _ := it.Next()
			if tlabridge.Canon(k) == kc {
				return v, true
			}
		}
	}
	return tla.Value{}, false
}

type verdict struct {
	Class string // agree-value | agree-error | allowed-restriction | unjudged-* | violation
	Key   string
	What  string
}

func canonOfTLC(s string) (string, error) {
	v, err := tlabridge.ParseValue(s, tlabridge.ParseOptions{Normalize: true})
	if err != nil {
		return "", err
	}
	return tlabridge.Canon(v), nil
}

func judge(c tcase, T oracleEntry, G goRes, oracle map[string]oracleEntry) verdict {
	o := c.Op
	args := make([]tla.Value, len(c.Args))
	var kinds []string
	for i, a := range c.Args {
		args[i] = val(a)
		kinds = append(kinds, kindOf(args[i]))
	}
	refine := ""
	if o.Refine != nil {
		if r := o.Refine(args); r != "" {
			refine = "/" + r
		}
	}
	tlcSays := func() string {
		if T.OK {
			return "TLC: " + T.Value
		}
		return "TLC: error (" + T.ErrClass + ") " + strings.ReplaceAll(T.ErrMsg, "\n", " ")
	}
	viol := func(key, what string) verdict {
		return verdict{"violation", o.Key + "/" + key, fmt.Sprintf("%s  -- Go: %s; %s", c.Expr, what, tlcSays())}
	}
	switch G.Kind {
	case "hang":
		return viol("hang", "does not return ("+G.Msg+")")
	case "memory":
		return viol("hang", "does not return ("+G.Msg+")")
	case "env_timeout":
		return verdict{Class: "unjudged-env-timeout"}
	case "skipped":
		return verdict{Class: "unjudged-skipped"}
	case "panic":
		return viol("panic-not-tla-type-error", "panics with something that is not ErrTLAType: "+G.Msg)
	}
	if G.Order != "" {
		// a TLA+ operator is a function of the values of its arguments, not of how they were built
		return viol("construction-order", "gives "+G.Kind+":"+G.Canon+" but "+G.Order)
	}
	if !T.OK && T.ErrClass == "timeout" {
		return verdict{Class: "unjudged-tlc-timeout"}
	}
	if !T.OK && T.ErrClass == "parse" {
		return verdict{Class: "harness-bad-expression", What: c.Expr + ": " + T.ErrMsg}
	}
	if !T.OK {
		// TLC reports an error: Go must fail loudly
		if G.Kind == "tlatype" {
			return verdict{Class: "agree-error"}
		}
		if strings.Contains(T.ErrMsg, "non-record") {
			// TLC refuses to compare a record with a function that is not a record although TLA+ defines the
			// comparison; Go's answer is accepted when it is the TLA+-defined one (only = and # are judged)
			if o.Name == "=" || o.Name == "#" {
				want := tlabridge.Canon(args[0]) == tlabridge.Canon(args[1])
				if o.Name == "#" {
					want = !want
				}
				if G.Canon == map[bool]string{true: "TRUE", false: "FALSE"}[want] {
					return verdict{Class: "agree-value-tlc-refuses-record-comparison"}
				}
				return viol("wrong-value"+refine, "returns "+G.Canon)
			}
			return verdict{Class: "unjudged-tlc-refuses-record-comparison"}
		}
		return viol(T.ErrClass+"/no-error", "silently returns "+G.Raw)
	}
	// TLC gives a value
	tc, perr := canonOfTLC(T.Value)
	if G.Kind == "tlatype" {
		// allowed only for the documented restrictions
		for i, need := range o.Need {
			if (need == "function" && kinds[i] == "tuple") || (need == "tuple" && kinds[i] == "function") {
				return verdict{Class: "allowed-restriction-sequence-vs-function"}
			}
		}
		if len(o.ExceptKeys) > 0 {
			f := args[0]
			outside := false
			if o.Name == "EXCEPT," {
				for _, p := range o.ExceptKeys {
					if _, ok := inDomain(f, args[p]); !ok {
						outside = true
					}
				}
			} else {
				for _, p := range o.ExceptKeys {
					nx, ok := inDomain(f, args[p])
					if !ok {
						outside = true
						break
					}
					f = nx
				}
			}
			if outside {
				return verdict{Class: "allowed-restriction-except-outside-domain"}
			}
		}
		if perr != nil {
			return verdict{Class: "unjudged-tlc-symbolic"}
		}
		if o.Name == "IsFiniteSet" && kinds[0] != "set" {
			// TLC answers TRUE for IsFiniteSet of a tuple/record by accident of its implementation; TLA+ gives no value
			return verdict{Class: "unjudged-tlc-lenient"}
		}
		for i, need := range o.Need {
			if need == "tuple" && kinds[i] == "string" {
				return viol("loud-failure/string-as-sequence", "fails with ErrTLAType ("+G.Msg+"): strings are sequences in TLA+ and TLC, not in the Go runtime (not one of the documented restrictions)")
			}
		}
		return viol("loud-failure/"+strings.Join(kinds, "-"), "fails with ErrTLAType ("+G.Msg+") outside the documented restrictions")
	}
	// both give a value
	if perr != nil {
		return verdict{Class: "unjudged-tlc-symbolic"}
	}
	switch {
	case o.ToStr:
		gv, err := tlabridge.ParseValue(G.Canon, tlabridge.ParseOptions{})
		if err != nil || !gv.IsString() {
			return viol("wrong-value", "returns the non-string "+G.Canon)
		}
		if kinds[0] == "bool" || kinds[0] == "int" || kinds[0] == "string" {
			if G.Canon != tc {
				return viol("wrong-value/atom", "returns "+G.Canon)
			}
			return verdict{Class: "agree-value"}
		}
		if !deepHas(args[0], func(v tla.Value) bool { return v.IsFunction() || v.IsString() }) {
			// sets and tuples of numbers / booleans: Go's and TLC's notation coincide, and TLC's element order is a
			// function of the values (numbers numerically, sets by size then element-wise): the string must be TLC's
			if G.Canon != tc {
				return viol("wrong-value", "returns "+G.Canon)
			}
			return verdict{Class: "agree-value"}
		}
		// functions print in another notation than TLC's, and TLC orders strings by interning order (not a function
		// of the values): there the string only has to denote the argument (TLC.tla leaves it unspecified)
		den, err := tlabridge.ParseValue(gv.AsString(), tlabridge.ParseOptions{Normalize: true})
		if err != nil || tlabridge.Canon(den) != tlabridge.Canon(args[0]) {
			return viol("wrong-value/does-not-denote-argument", "returns "+G.Canon)
		}
		return verdict{Class: "agree-value"}
	case o.Choose != "":
		if G.Order != "" {
			return viol("construction-order", "chooses "+G.Canon+" but "+G.Order+" on the same set built in another order")
		}
		if G.Canon == tc {
			return verdict{Class: "agree-value"}
		}
		// TLC takes the least satisfying element in its order of values, which is a function of the values for
		// everything but strings (ordered by interning order, i.e. by the history of the TLC run): only when the
		// candidates contain a string is another satisfying element accepted
		if !deepHas(args[0], func(v tla.Value) bool { return v.IsString() }) {
			return viol("wrong-value", "chooses "+G.Canon)
		}
		sat, ok := oracle[fmt.Sprintf(`{x \in %s : %s}`, c.Args[0], o.Choose)]
		if ok && sat.OK {
			if sv, err := tlabridge.ParseValue(sat.Value, tlabridge.ParseOptions{Normalize: true}); err == nil && sv.IsSet() {
				it := sv.AsSet().Iterator()
				for !it.Done() {
					k, _, _ := it.Next()
					if tlabridge.Canon(k) == G.Canon {
						return verdict{Class: "agree-value-other-choice"}
					}
				}
			}
		}
		return viol("wrong-value", "chooses "+G.Canon+" which does not satisfy the predicate")
	}
	if G.Canon != tc {
		return viol("wrong-value"+refine, "returns "+G.Raw)
	}
	return verdict{Class: "agree-value"}
}

// ---- the check ----------------------------------------------------------------------------------------------------------------

type replay struct {
	Op   string   `json:"op"`
	Args []string `json:"args"`
	Expr string   `json:"expr"`
}

func TestCheck(t *testing.T) {
	if os.Getenv("VERIF_CHILD") == "c03-eval" {
		childMain(t)
		return
	}
	hres.Main(t, func(env hres.Env) *hres.Result {
		res := &hres.Result{Property: "C03", Level: "exploration"}
		res.Assumptions = []string{
			"oracle = TLC (tla2tools 1.8.0) evaluating the same expression as TLA+ text; the committed table /verif/oracle/c03.jsonl is TLC's output and is regenerated and diffed in the thorough tier",
			"values are compared after TLC's own identification: a function over 1..n is the tuple of its values, the empty function is <<>>",
			"Go failing with ErrTLAType where TLC gives a value is accepted only for: a tuple where the operator needs a function or a function where it needs a tuple; EXCEPT on a key outside the domain",
			"CHOOSE must return TLC's choice (the least satisfying element in TLC's order of values) and must not depend on how the set was built; exception: TLC orders strings by interning order (the history of the TLC run, not the values), so when the candidates contain a string any satisfying element is accepted, and no CHOOSE over string candidates with a TRUE predicate is enumerated",
			"ToString: identical to TLC's string for atoms and for sets/tuples of numbers and booleans at any depth (same notation, element order a function of the values); for values containing functions/records (Go prints :> @@ notation) or strings inside collections (TLC's order of strings is its interning order) a string that parses back to the argument; always independent of construction order",
			"TLC refuses to compare a record with a non-record function although TLA+ defines the result; there Go's answer is accepted if it is the TLA+-defined one",
			"a hang is declared when one evaluation has burnt 5 s (thorough 20 s) of CPU or 1.5 GB of heap on arguments of at most 3 elements; wall-clock slowness alone is never a verdict",
			"intervals a..b with more than 7 elements are not enumerated (nobody can build a 2^32 element set)",
		}
		lim := limits{hangCPU: 5 * time.Second, envWall: 3 * time.Minute, maxHangs: 3}
		if env.Thorough() {
			lim.hangCPU, lim.maxHangs = 20*time.Second, 4
		}
		cases := allCases()
		byOp := map[string][]tcase{}
		var exprs []string
		seenExpr := map[string]bool{}
		for _, c := range cases {
			byOp[c.Op.Name] = append(byOp[c.Op.Name], c)
			if !seenExpr[c.Expr] {
				seenExpr[c.Expr] = true
				exprs = append(exprs, c.Expr)
			}
		}
		// the universe itself must be accepted by TLC
		var uni []string
		for _, l := range dom {
			for _, x := range l {
				if !seenExpr[x] {
					seenExpr[x] = true
					uni = append(uni, x)
				}
			}
		}
		sort.Strings(uni)
		exprs = append(exprs, uni...)

		// ---- replay one case
		if env.Replay != nil {
			var r replay
			if err := json.Unmarshal(env.Replay, &r); err != nil {
				t.Fatal(err)
			}
			o := opByName(r.Op)
			if o == nil {
				t.Fatalf("replay: unknown operator %s", r.Op)
			}
			idx := -1
			cs := o.cases()
			for i, c := range cs {
				if c.Expr == r.Expr {
					idx = i
				}
			}
			if idx < 0 {
				t.Fatalf("replay: case %s no longer generated", r.Expr)
			}
			oracle, _ := loadOracle(oraclePath())
			if _, ok := oracle[r.Expr]; !ok {
				m, _, err := tlcEvaluate(context.Background(), []string{r.Expr, fmt.Sprintf(`{x \in %s : %s}`, r.Args[0], o.Choose)}, 2)
				if err != nil {
					t.Fatal(err)
				}
				oracle = m
			}
			g := runOperator(o, len(cs), idx, lim, env.Deadline)[idx]
			v := judge(cs[idx], oracle[r.Expr], g, oracle)
			res.Coverage = map[string]any{"evaluations": 1, "distinct_nontrivial": 0, "rule": "replay", "samples": []any{map[string]any{"case": r, "go": g, "tlc": oracle[r.Expr], "verdict": v.Class}}}
			if v.Class == "violation" {
				res.Violations = append(res.Violations, hres.Viol{Key: v.Key, What: v.What, Replay: r})
			}
			return res
		}

		// ---- oracle
		oracle, lerr := loadOracle(oraclePath())
		oracleSource := "committed table " + oraclePath()
		var oracleDiff []string
		var jvmRuns int64
		regen := env.Thorough() || os.Getenv("VERIF_C03_REGEN") != "" || lerr != nil
		if os.Getenv("VERIF_C03_REGEN") == "missing" && lerr == nil {
			// extend the committed table: TLC evaluates only the expressions that have no row yet
			regen = false
			var miss []string
			for _, e := range exprs {
				if _, ok := oracle[e]; !ok {
					miss = append(miss, e)
				}
			}
			ctx, cancel := context.WithDeadline(context.Background(), env.Deadline)
			fresh, runs, err := tlcEvaluate(ctx, miss, env.Workers)
			cancel()
			jvmRuns = runs
			if err != nil {
				t.Fatalf("TLC failed on the %d missing rows: %v", len(miss), err)
			}
			for e, x := range fresh {
				oracle[e] = x
			}
			oracleSource += fmt.Sprintf(" + %d rows added by TLC in this run", len(miss))
			if p := os.Getenv("VERIF_C03_WRITE_ORACLE"); p != "" {
				// rows of the committed table stay verbatim, including rows no current case uses
				all := append([]string{}, exprs...)
				var rest []string
				for e := range oracle {
					if !seenExpr[e] {
						rest = append(rest, e)
					}
				}
				sort.Strings(rest)
				if err := writeOracle(p, append(all, rest...), oracle); err != nil {
					t.Fatal(err)
				}
			}
		}
		if regen {
			ctx, cancel := context.WithDeadline(context.Background(), env.Deadline)
			fresh, runs, err := tlcEvaluate(ctx, exprs, env.Workers)
			cancel()
			jvmRuns = runs
			if err != nil {
				if lerr != nil {
					t.Fatalf("no committed oracle table (%v) and TLC failed: %v", lerr, err)
				}
				oracleSource += " (regeneration by TLC failed: " + firstLine(err.Error()) + ")"
			} else {
				for _, e := range exprs {
					old, ok := oracle[e]
					nw := fresh[e]
					if lerr == nil && (!ok || old.OK != nw.OK || old.Value != nw.Value || old.ErrClass != nw.ErrClass) {
						oracleDiff = append(oracleDiff, e)
					}
				}
				oracle = fresh
				oracleSource = "regenerated by TLC in this run"
				if p := os.Getenv("VERIF_C03_WRITE_ORACLE"); p != "" {
					if err := writeOracle(p, exprs, fresh); err != nil {
						t.Fatal(err)
					}
				}
			}
		}
		for _, u := range uni {
			if e, ok := oracle[u]; ok && !e.OK {
				t.Fatalf("universe value %s is rejected by TLC: %s", u, e.ErrMsg)
			}
		}

		// ---- Go side, one child per operator
		type opOut struct {
			name string
			res  map[int]goRes
		}
		work := make(chan *opDef, len(ops))
		outs := make(chan opOut, len(ops))
		for _, o := range ops {
			work <- o
		}
		close(work)
		var wg sync.WaitGroup
		nw := env.Workers
		if nw < 1 {
			nw = 1
		}
		for w := 0; w < nw; w++ {
			wg.Add(1)
			go func() {
				defer wg.Done()
				for o := range work {
					outs <- opOut{o.Name, runOperator(o, len(byOp[o.Name]), -1, lim, env.Deadline)}
				}
			}()
		}
		wg.Wait()
		close(outs)
		gores := map[string]map[int]goRes{}
		for o := range outs {
			gores[o.name] = o.res
		}

		// ---- verdicts
		classes := map[string]int{}
		perOp := map[string]map[string]int{}
		outcomes := map[string]bool{}
		viol := map[string]hres.Viol{}
		violCount := map[string]int{}
		var samples []any
		missing, evals := 0, 0
		variantEvals, variantCut := 0, 0
		var bad []string
		for _, o := range ops {
			cs := byOp[o.Name]
			if perOp[o.Key] == nil {
				perOp[o.Key] = map[string]int{}
			}
			for i, c := range cs {
				T, ok := oracle[c.Expr]
				if !ok {
					missing++
					continue
				}
				g, ok := gores[o.Name][i]
				if !ok {
					g.Kind = "skipped"
				}
				evals++
				variantEvals += g.Variants
				if g.VarCut {
					variantCut++
				}
				v := judge(c, T, g, oracle)
				classes[v.Class]++
				perOp[o.Key][v.Class]++
				outcomes[o.Key+"|"+g.Kind+"|"+g.Canon] = true
				switch v.Class {
				case "harness-bad-expression":
					bad = append(bad, v.What)
				case "violation":
					violCount[v.Key]++
					// keep the smallest witness per key
					if old, dup := viol[v.Key]; !dup || len(c.Expr) < len(old.Replay.(replay).Expr) {
						viol[v.Key] = hres.Viol{Key: v.Key, What: v.What, Replay: replay{o.Name, c.Args, c.Expr}}
					}
				}
				if len(samples) < 12 && i == len(cs)/2 && len(o.Sigs[0]) >= 1 && (len(samples)%2 == 0 || v.Class != "agree-value") {
					samples = append(samples, map[string]any{"expr": c.Expr, "go": g, "tlc_ok": T.OK, "tlc": T.Value + T.ErrClass, "verdict": v.Class})
				}
			}
		}
		if len(bad) > 0 {
			t.Fatalf("the harness generated expressions SANY rejects (harness bug, not a verdict):\n%s", strings.Join(bad, "\n"))
		}
		// every reported witness is evaluated 4 more times in fresh processes and must give the same outcome
		divergences := 0
		{
			type conf struct {
				key string
				ok  bool
			}
			ch := make(chan conf, len(viol))
			sem := make(chan struct{}, nw)
			for k, v := range viol {
				k, r := k, v.Replay.(replay)
				go func() {
					sem <- struct{}{}
					defer func() { <-sem }()
					o := opByName(r.Op)
					cs := byOp[r.Op]
					idx := -1
					for i, c := range cs {
						if c.Expr == r.Expr {
							idx = i
						}
					}
					first := gores[r.Op][idx]
					same := true
					for rep := 0; rep < 4 && same; rep++ {
						g := runOperator(o, len(cs), idx, lim, env.Deadline.Add(time.Minute))[idx]
						if g.Kind == "env_timeout" {
							continue
						}
						if g.Kind != first.Kind && !(g.Kind == "hang" && first.Kind == "memory") && !(g.Kind == "memory" && first.Kind == "hang") {
							same = false
						}
						if g.Kind == "value" && g.Canon != first.Canon {
							same = false
						}
						if (g.Order != "") != (first.Order != "") {
							same = false
						}
					}
					ch <- conf{k, same}
				}()
			}
			for range viol {
				c := <-ch
				if !c.ok {
					divergences++
					delete(viol, c.key)
				}
			}
		}
		keys := make([]string, 0, len(viol))
		for k := range viol {
			keys = append(keys, k)
		}
		sort.Strings(keys)
		for _, k := range keys {
			v := viol[k]
			v.What = fmt.Sprintf("%s   [%d inputs with this key]", v.What, violCount[k])
			res.Violations = append(res.Violations, v)
		}
		opKeys := map[string]bool{}
		for _, o := range ops {
			opKeys[o.Key] = true
		}
		unjudged := 0
		for k, n := range classes {
			if strings.HasPrefix(k, "unjudged") {
				unjudged += n
			}
		}
		res.Coverage = map[string]any{
			"evaluations":         evals,
			"distinct_nontrivial": len(outcomes),
			"rule": "for every exported operator/builtin of distsys/tla: every argument tuple of its well-kinded domains (atoms TRUE FALSE -2..3 MaxInt32 MinInt32 \"\" \"a\"; sets, tuples, records, functions of <=2 elements, some nested) " +
				"plus one representative per kind (bool int string set tuple record function-over-1..n) per argument position for the ill-kinded part; quantifiers/CHOOSE/comprehension over fixed predicate and body families; " +
				"each evaluated by the Go runtime in a watched child process and compared with TLC's result for the same expression; every case is evaluated again on every construction-order variant of its arguments (all permutations of the insertion order of set members and function pairs at every nesting level, all combinations over the arguments up to 256, else one argument at a time) and must give the same outcome. distinct_nontrivial = distinct (operator, Go outcome) pairs",
			"samples":                     samples,
			"exhaustive":                  missing == 0 && classes["unjudged-skipped"] == 0 && classes["unjudged-env-timeout"] == 0,
			"operators":                   len(opKeys),
			"operator_variants":           len(ops),
			"verdict_classes":             classes,
			"per_operator":                perOp,
			"violating_inputs_per_key":    violCount,
			"oracle_source":               oracleSource,
			"oracle_entries":              len(oracle),
			"oracle_missing_cases":        missing,
			"oracle_drift_vs_committed":   oracleDiff,
			"tlc_jvm_runs":                jvmRuns,
			"unjudged":                    unjudged,
			"skipped_after_hangs":         classes["unjudged-skipped"],
			"discarded_env_timeout":       classes["unjudged-env-timeout"],
			"divergences":                 divergences,
			"witness_reruns_per_key":      4,
			"order_variant_evaluations":   variantEvals,
			"order_variants_cut_cases":    variantCut,
			"universe_values_checked_tlc": len(uni),
			"not_covered":                 "operators the compiler inlines as Go (/\\, \\/, =>, IF, CASE); values deeper than the listed universe; SelectElement (not a TLA+ operator, see C10)",
		}
		return res
	})
}

// C09: clients of the generated Raft KV store observe a linearizable key-value store.
package c09

import (
	"encoding/json"
	"fmt"
	"os"
	"path/filepath"
	"strings"
	"sync"
	"testing"
	"time"

	"verif/mc/hres"
	ss "verif/mc/specstep"
	"verif/mc/sys/raftkvs"
)

type runCfg struct {
	raftkvs.Config
	MaxDev int
	Name   string
	Seed   string // see raftkvs.Build
	// Delays > 0: after the breadth-first phase, a delay-bounded phase (round-robin scheduler + at
	// most Delays delays, see specstep/delay.go) explores long executions from the same start
	Delays int
}

type replay struct {
	Cfg  runCfg    `json:"config"`
	Path []ss.Move `json:"path"`
}

var (
	histMu    sync.Mutex
	histCache = map[string]string{}
)

func histInv(s *ss.State) (string, string) {
	if s.Obs == "" || !strings.Contains(s.Obs, "r:") {
		return "", ""
	}
	histMu.Lock()
	w, ok := histCache[s.Obs]
	histMu.Unlock()
	if !ok {
		lin, class, why := raftkvs.CheckHistory(s.Obs)
		if !lin {
			w = class + "\x00" + why
		}
		histMu.Lock()
		histCache[s.Obs] = w
		histMu.Unlock()
	}
	if w != "" {
		class, why, _ := strings.Cut(w, "\x00")
		if class != "" {
			return "linearizability/" + class, why
		}
		return "linearizability/" + shape(s.Obs), why
	}
	return "", ""
}

// shape abstracts a history to its operation pattern (clients/ops/results without step numbers)
// so that the same anomaly found through different schedules is one finding.
func shape(obs string) string {
	var parts []string
	for _, e := range strings.Split(strings.TrimSuffix(obs, ";"), ";") {
		f := strings.Split(e, ":")
		if f[0] == "s" {
			continue
		}
		if f[0] == "i" {
			parts = append(parts, fmt.Sprintf("c%s.%s(%s,%s)", f[1], f[3], f[4], f[5]))
		} else {
			parts = append(parts, fmt.Sprintf("c%s.ret(%s,%s)", f[1], f[3], f[4]))
		}
	}
	return strings.Join(parts, ">")
}

func dbStats(d *ss.BFSResult) any {
	if d == nil {
		return nil
	}
	return map[string]any{"nodes": d.States, "distinct_states": d.DistinctStates, "steps": d.Transitions, "depth": d.Depth, "exhaustive_within_bounds": d.Exhaustive, "cap": d.Cap, "wall_s": d.WallS}
}

func bfsShare(share time.Duration, delays int) time.Duration {
	if delays > 0 {
		return share / 2
	}
	return share
}

func TestCheck(t *testing.T) {
	hres.Main(t, func(env hres.Env) *hres.Result {
		res := &hres.Result{Property: "C09", Level: "model_checking"}
		if env.Replay != nil {
			var r replay
			if err := json.Unmarshal(env.Replay, &r); err != nil {
				t.Fatal(err)
			}
			sys, err := raftkvs.Build(r.Cfg.Config, r.Cfg.Seed, raftkvs.ObserveHistory)
			if err != nil {
				t.Fatal(err)
			}
			states, _, _ := sys.Replay(r.Path)
			res.Coverage = map[string]any{"states": len(states), "transitions": len(r.Path), "traces_validated_against_impl": 0, "samples": sys.Render(r.Path)}
			for _, s := range states {
				if k, w := histInv(s); k != "" {
					res.Violations = append(res.Violations, hres.Viol{Key: k, What: w, Replay: r})
					return res
				}
			}
			return res
		}
		put := func(k, v string) raftkvs.Req { return raftkvs.Req{Type: "put", Key: k, Value: v} }
		get := func(k string) raftkvs.Req { return raftkvs.Req{Type: "get", Key: k} }
		cfgs := []runCfg{
			// one server (leader by construction): isolates client retries / duplicate responses
			{raftkvs.Config{NumServers: 1, NumClients: 2, MaxTerm: 3, MaxCommitIndex: 6, FIFO: true, Budgeted: true,
				Requests: [][]raftkvs.Req{{put("k", "v1"), get("k")}, {put("k", "v2")}}}, 1, "1srv-2cli-retry", "", 0},
			{raftkvs.Config{NumServers: 2, NumClients: 2, MaxTerm: 3, MaxCommitIndex: 4, FIFO: true, Budgeted: true,
				Requests: [][]raftkvs.Req{{put("k", "v1")}, {get("k")}}}, 0, "2srv-2cli", "", 0},
			// leader change after an acknowledged put that one follower lacks; another client reads afterwards
			{raftkvs.Config{NumServers: 3, NumClients: 2, MaxTerm: 4, MaxCommitIndex: 5, FIFO: true, Budgeted: true, ExploreFail: true, MaxNodeFail: 1,
				Requests: [][]raftkvs.Req{{put("k", "v1"), put("k", "v2")}, {get("k")}}}, 0, "3srv-acked-put-then-leader-crash", "commit2-lagging-crash", 3},
		}
		if env.Thorough() {
			cfgs = append(cfgs,
				runCfg{raftkvs.Config{NumServers: 3, NumClients: 2, MaxTerm: 4, MaxCommitIndex: 5, FIFO: true, Budgeted: true, DevKinds: []string{"election"},
					Requests: [][]raftkvs.Req{{put("k", "v1"), put("k", "v2")}, {get("k")}}}, 1, "3srv-acked-put-then-spurious-election", "commit2-lagging", 3},
				runCfg{raftkvs.Config{NumServers: 1, NumClients: 2, MaxTerm: 3, MaxCommitIndex: 8, FIFO: true, Budgeted: true,
					Requests: [][]raftkvs.Req{{put("k", "v1"), get("k")}, {put("k", "v2"), get("k")}}}, 2, "1srv-2cli-2x2", "", 0},
				runCfg{raftkvs.Config{NumServers: 3, NumClients: 2, MaxTerm: 3, MaxCommitIndex: 4, FIFO: true, Budgeted: true, ExploreFail: true, MaxNodeFail: 1,
					Requests: [][]raftkvs.Req{{put("k", "v1")}, {get("k")}}}, 1, "3srv-2cli-crash", "", 3},
				runCfg{raftkvs.Config{NumServers: 2, NumClients: 2, MaxTerm: 4, MaxCommitIndex: 5, FIFO: true, Budgeted: true,
					Requests: [][]raftkvs.Req{{put("k", "v1"), get("j")}, {put("j", "v2"), get("k")}}}, 1, "2srv-2keys", "", 2})
		}
		if j := os.Getenv("VERIF_C09_CFGS"); j != "" {
			cfgs = nil
			if err := json.Unmarshal([]byte(j), &cfgs); err != nil {
				t.Fatal(err)
			}
		}
		// committed witnesses of recorded findings are replayed first (deterministic, cheap): while the
		// defect is present the finding shows on every run, whatever depth the search reaches in its budget
		seen := map[string]bool{}
		witnessReplayed := 0
		if files, _ := filepath.Glob(filepath.Join(os.Getenv("VERIF_DIR"), "replays", "C09", "known-*.json")); len(files) > 0 {
			for _, f := range files {
				b, err := os.ReadFile(f)
				if err != nil {
					continue
				}
				var w struct {
					Replay replay `json:"replay"`
				}
				if json.Unmarshal(b, &w) != nil {
					continue
				}
				func() {
					defer func() { recover() }() // a witness that no longer fits the code is simply stale
					sys, err := raftkvs.Build(w.Replay.Cfg.Config, w.Replay.Cfg.Seed, raftkvs.ObserveHistory)
					if err != nil {
						return
					}
					states, _, _ := sys.Replay(w.Replay.Path)
					witnessReplayed++
					for _, s := range states {
						if k, why := histInv(s); k != "" && !seen[k] {
							seen[k] = true
							res.Violations = append(res.Violations, hres.Viol{Key: k, What: why, Replay: w.Replay})
						}
					}
				}()
			}
		}
		var share time.Duration
		var states, trans, validated int64
		exhaustive := true
		per := []any{}
		var samples []any
		for ci, cfg := range cfgs {
			// every instance gets an equal share of what is left (early finishers leave their time to the rest)
			share = time.Until(env.Deadline) * 8 / 10 / time.Duration(len(cfgs)-ci)
			if share < 5*time.Second {
				share = 5 * time.Second
			}
			sys, err := raftkvs.Build(cfg.Config, cfg.Seed, raftkvs.ObserveHistory)
			if err != nil {
				per = append(per, map[string]any{"name": cfg.Name, "seed_not_applicable": err.Error()})
				exhaustive = false
				continue
			}
			r := sys.BFS(ss.BFSOptions{Workers: env.Workers, Deadline: time.Now().Add(bfsShare(share, cfg.Delays)), Constraint: cfg.Constraint, MaxDev: cfg.MaxDev,
				Invariants: []func(*ss.State) (string, string){histInv}, MaxViol: 5})
			if r.MemoMismatch > 0 {
				t.Fatalf("transition memo disagrees with the real code: %s", r.MemoFirstMismatch)
			}
			var dres *ss.BFSResult
			if cfg.Delays > 0 {
				dres = &ss.BFSResult{Exhaustive: true}
				orders := sys.Orders()
				for oi, ord := range orders {
					d := sys.DelayBounded(ss.DelayOptions{MaxDelays: cfg.Delays, MaxDev: cfg.MaxDev, MaxDepth: 400, Order: ord, Workers: env.Workers,
						Deadline:   time.Now().Add(share / 2 / time.Duration(len(orders)-oi)),
						Constraint: cfg.Constraint, Invariants: []func(*ss.State) (string, string){histInv}, MaxViol: 5})
					if d.MemoMismatch > 0 {
						t.Fatalf("transition memo disagrees with the real code: %s", d.MemoFirstMismatch)
					}
					dres.States += d.States
					dres.DistinctStates += d.DistinctStates
					dres.Transitions += d.Transitions
					dres.Depth = max(dres.Depth, d.Depth)
					dres.Exhaustive = dres.Exhaustive && d.Exhaustive
					dres.WallS += d.WallS
					if d.Cap != "" {
						dres.Cap = d.Cap
					}
					dres.Violations = append(dres.Violations, d.Violations...)
				}
				r.Violations = append(r.Violations, dres.Violations...)
				trans += dres.Transitions
			}
			states += r.States
			trans += r.Transitions
			exhaustive = exhaustive && r.Exhaustive
			nConf := 0
			confCap, confDeadline := 1000, time.Now().Add(share/5)
			if env.Thorough() {
				confCap *= 20
			}
			for _, leaf := range r.Leaves {
				if nConf >= confCap || time.Now().After(confDeadline) {
					break
				}
				path := r.PathTo(leaf)
				if d := sys.Conform(path); d != "" {
					if !seen["conformance"] {
						seen["conformance"] = true
						res.Violations = append(res.Violations, hres.Viol{Key: "conformance/injected-vs-live", What: d, Replay: replay{cfg, path}})
					}
					break
				}
				nConf++
			}
			validated += int64(nConf)
			histMu.Lock()
			nh := len(histCache)
			histMu.Unlock()
			per = append(per, map[string]any{"name": cfg.Name, "config": cfg, "states": r.States, "transitions": r.Transitions, "depth": r.Depth, "states_per_deviation_round": r.DevRounds,
				"distinct_histories_checked_so_far": nh, "leaf_paths_replayed_live": nConf, "exhaustive": r.Exhaustive, "cap": r.Cap, "wall_s": r.WallS,
				"delay_bounded": dbStats(dres), "memo_hits": r.MemoHits, "memo_misses_executed_on_real_code": r.MemoMisses, "memo_hits_rechecked_on_real_code": r.MemoChecks})
			for _, v := range r.Violations {
				if !seen[v.Key] {
					seen[v.Key] = true
					res.Violations = append(res.Violations, hres.Viol{Key: v.Key, What: v.What + " | " + strings.Join(v.Trace, " ; "), Replay: replay{cfg, v.Path}})
				}
			}
			if len(r.Leaves) > 0 && len(samples) < 2 {
				samples = append(samples, map[string]any{"config": cfg.Name, "trace": sys.Render(r.PathTo(r.Leaves[len(r.Leaves)/2]))})
			}
		}
		res.Assumptions = []string{"one label = one atomic step (state injection into a fresh real MPCalContext per step): the runtime gives this isolation only while no section combines a shared variable with an asynchronous mailbox commit (see the C16 known finding replicatedkv/assertion/get-overtaken-by-disconnect; raftkvs bootstrap has the same combination)", "links are FIFO per sender (the spec's ReliableFIFOLink written in Go, validated against TLC by C02): the relaxed mailboxes provide this only while no write timeout fires (see the C06 known finding relaxed/reordered-after-write-timeout)", "environment deviations (failure-detector answers, timeouts, netLen) are budgeted as described in DESIGN 8.5/8.9", "128-bit state hashing (collision probability negligible)"}
		res.Coverage = map[string]any{"states": states, "transitions": trans, "traces_validated_against_impl": validated, "samples": samples, "configs": per, "exhaustive": exhaustive,
			"distinct_histories_checked": len(histCache), "known_witness_paths_replayed": witnessReplayed}
		return res
	})
}

// C12: CRDT data types are semilattices with their declared read semantics.
//
// Explicit-state breadth-first search whose states are tuples of *real* resources.CRDTValue
// values (GCounter, AWORSet, LWWSet are immutable, so a state is a tuple of values) paired with an
// event-set reference model.  Transitions are executed on the real implementation:
//
//	w(r,op)   local update  reps[r] = reps[r].Write(id_r, op)
//	m(r<-s)   merge         reps[r] = reps[r].Merge(reps[s])
//	mg(r<-s)  merge of a gob round trip of reps[s] (encoded inside resources.ReceiveValueArgs,
//	          exactly the RPC argument type the CRDT resource ships)
//
// The third replica doubles as a delayed / duplicated message: a replica that only ever merges is a
// snapshot that can be delivered later, any number of times.
//
// Focused families keep long or extreme histories affordable: gcounter with increments {+1, +2^30,
// +MaxInt32} (the read must be the true 64-bit sum of the increments received, or the operation must
// fail loudly - a panic -, never a wrapped number; an update that fails loudly is simply not taken),
// and sets with one element, two updating replicas and a passive third slot (histories of 8-9 steps in
// which a stale snapshot is delivered late).
//
// In every reachable state, on all ordered pairs and triples of its replica states (jointly
// reachable states only - the property speaks about reachable states), the semilattice laws are
// checked by internal canonical form (overlay accessor VerifCRDTCanon) and by Read(); every local
// update is checked to be an inflation; every replica's Read() is compared with the event-set model.
package c12

import (
	"bytes"
	"encoding/gob"
	"encoding/json"
	"fmt"
	"math"
	"sort"
	"strings"
	"sync"
	"sync/atomic"
	"testing"
	"time"

	"github.com/DistCompiler/pgo/distsys/resources"
	"github.com/DistCompiler/pgo/distsys/tla"
	"verif/mc/hres"
)

// ---------------------------------------------------------------------------------------------
// configuration of one search

type config struct {
	Type     string `json:"type"`     // gcounter | aworset | lww
	Universe int    `json:"universe"` // identifier universe (0: strings, 1: numbers, 2: tuples/sets)
	Replicas int    `json:"replicas"`
	Depth    int    `json:"depth"`
	// focused families (all optional):
	Ops     string `json:"ops,omitempty"`     // "big": gcounter increments {+1, +2^30, +MaxInt32}
	Elems   int    `json:"elems,omitempty"`   // sets: number of elements in the alphabet (0 = 2)
	Passive int    `json:"passive,omitempty"` // the last Passive replicas never update: they only hold snapshots that are delivered later (delayed / duplicated messages)
	NoGob   bool   `json:"no_gob,omitempty"`  // no separate gob-merge transitions (the gob checks in every state stay)
	Skew    bool   `json:"skew,omitempty"`    // lww: replica k's clock is skewOffsets[k] ahead of real time
}

// clock offsets of the replicas in the skew family
var skewOffsets = []time.Duration{0, time.Hour, 30 * time.Minute}

// lwwSkew: LWW renderings carry the clock class of every stamp (searches run one after the other)
var lwwSkew bool

func stampClass(nano int64) int {
	return int((nano - time.Now().UnixNano() + int64(15*time.Minute)) / int64(30*time.Minute))
}

func (c config) String() string {
	s := fmt.Sprintf("%s/u%d/r%d/d%d", c.Type, c.Universe, c.Replicas, c.Depth)
	if c.Ops != "" {
		s += "/ops=" + c.Ops
	}
	if c.Elems != 0 {
		s += fmt.Sprintf("/elems=%d", c.Elems)
	}
	if c.Passive != 0 {
		s += fmt.Sprintf("/passive=%d", c.Passive)
	}
	if c.NoGob {
		s += "/nogob"
	}
	if c.Skew {
		s += "/skew"
	}
	return s
}

type opDesc struct {
	Name   string // "+1", "add a", ...
	Kind   int    // 0 inc, 1 add, 2 rem
	Elem   int
	Amount int32
}

type universe struct {
	ids   []tla.Value
	elems []tla.Value
}

func mkUniverse(u int) universe {
	switch u {
	case 1:
		return universe{
			ids:   []tla.Value{tla.MakeNumber(1), tla.MakeNumber(2), tla.MakeNumber(3)},
			elems: []tla.Value{tla.MakeNumber(1), tla.MakeNumber(2)},
		}
	case 2:
		return universe{
			ids: []tla.Value{tla.MakeTuple(tla.MakeString("n"), tla.MakeNumber(1)), tla.MakeTuple(tla.MakeString("n"), tla.MakeNumber(2)),
				tla.MakeSet(tla.MakeNumber(3))},
			elems: []tla.Value{tla.MakeRecord([]tla.RecordField{{Key: tla.MakeString("k"), Value: tla.MakeNumber(1)}}), tla.MakeBool(true)},
		}
	default:
		return universe{
			ids:   []tla.Value{tla.MakeString("r1"), tla.MakeString("r2"), tla.MakeString("r3")},
			elems: []tla.Value{tla.MakeString("a"), tla.MakeString("b")},
		}
	}
}

func opsFor(cfg config) []opDesc {
	if cfg.Type == "gcounter" {
		if cfg.Ops == "big" {
			return []opDesc{{Name: "+1", Kind: 0, Amount: 1}, {Name: "+2^30", Kind: 0, Amount: 1 << 30}, {Name: "+MaxInt32", Kind: 0, Amount: math.MaxInt32}}
		}
		return []opDesc{{Name: "+1", Kind: 0, Amount: 1}, {Name: "+2", Kind: 0, Amount: 2}}
	}
	ops := []opDesc{{Name: "add e0", Kind: 1, Elem: 0}, {Name: "rem e0", Kind: 2, Elem: 0},
		{Name: "add e1", Kind: 1, Elem: 1}, {Name: "rem e1", Kind: 2, Elem: 1}}
	if cfg.Elems == 1 {
		ops = ops[:2]
	}
	return ops
}

// An operation of the implementation may fail loudly (panic, e.g. the TLA+ type error of an addition
// that leaves the 32-bit range): that is an allowed answer wherever a silent wrong one is not.
var loudValue = tla.MakeString("<fails loudly>")
var loudReads, loudUpdates atomic.Int64

func rd(v resources.CRDTValue) (out tla.Value) {
	defer func() {
		if x := recover(); x != nil {
			loudReads.Add(1)
			out = loudValue
		}
	}()
	return v.Read()
}

func safeWrite(v resources.CRDTValue, id, op tla.Value) (out resources.CRDTValue, ok bool) {
	defer func() {
		if x := recover(); x != nil {
			loudUpdates.Add(1)
			out, ok = nil, false
		}
	}()
	return v.Write(id, op), true
}

var cmdKey = tla.MakeString("cmd")
var elemKey = tla.MakeString("elem")

func (u universe) opValue(o opDesc) tla.Value {
	if o.Kind == 0 {
		return tla.MakeNumber(o.Amount)
	}
	return tla.MakeRecord([]tla.RecordField{
		{Key: cmdKey, Value: tla.MakeNumber(int32(o.Kind))}, // addOp = 1, remOp = 2 (aworset.go)
		{Key: elemKey, Value: u.elems[o.Elem]},
	})
}

func initValue(typ string) resources.CRDTValue {
	switch typ {
	case "gcounter":
		return resources.GCounter{}.Init()
	case "aworset":
		return resources.AWORSet{}.Init()
	case "lww":
		return resources.LWWSet{}.Init()
	}
	panic("type " + typ)
}

// ---------------------------------------------------------------------------------------------
// transitions, events, nodes

type trans struct {
	T  string `json:"t"` // w | m | mg
	R  int    `json:"r"`
	S  int    `json:"s,omitempty"`
	Op int    `json:"op,omitempty"`
}

func (t trans) render(ops []opDesc) string {
	switch t.T {
	case "w":
		return fmt.Sprintf("w(r%d,%s)", t.R+1, ops[t.Op].Name)
	case "m":
		return fmt.Sprintf("m(r%d<-r%d)", t.R+1, t.S+1)
	default:
		return fmt.Sprintf("mg(r%d<-gob r%d)", t.R+1, t.S+1)
	}
}

// event of the reference model: one local update, with the set of events its replica had seen.
type event struct {
	origin int
	seq    int // per-origin sequence number
	op     opDesc
	obs    uint64 // events known to the origin just before the update (bitset over history indices)
}

type node struct {
	reps   []resources.CRDTValue
	ev     []event  // history in real-time order (timestamps of LWW writes are strictly increasing in this order)
	know   []uint64 // per replica: events received (bitset)
	parent *node
	tr     trans
	depth  int
	taint  string // attribution: a merge on the path deviated from the pointwise-max join in this way
	idx    int
	cs     []string // cache: canonical rendering per replica ("" = not computed yet)
}

// canonOf is canon(n.reps[i]), computed once per node (children inherit it for unchanged replicas).
func (n *node) canonOf(i int) string {
	if n.cs == nil {
		n.cs = make([]string, len(n.reps))
	}
	if n.cs[i] == "" {
		n.cs[i] = canon(n.reps[i])
	}
	return n.cs[i]
}

// child copies n with replica r about to change.
func (n *node) inheritCanon(c *node, r int) {
	if n.cs != nil {
		c.cs = append([]string{}, n.cs...)
		c.cs[r] = ""
	}
}

func (n *node) path() []trans {
	var p []trans
	for x := n; x.parent != nil; x = x.parent {
		p = append(p, x.tr)
	}
	for i, j := 0, len(p)-1; i < j; i, j = i+1, j-1 {
		p[i], p[j] = p[j], p[i]
	}
	return p
}

// ---------------------------------------------------------------------------------------------
// reference model: what a replica that received the event set K must read

func modelRead(typ string, u universe, ev []event, K uint64) tla.Value {
	switch typ {
	case "gcounter":
		var s int32
		for i, e := range ev {
			if K&(1<<uint(i)) != 0 {
				s += e.op.Amount
			}
		}
		return tla.MakeNumber(s)
	case "aworset":
		// element is present iff some add of it in K is not observed by any remove of it in K
		var in []tla.Value
		for el := range u.elems {
			present := false
			for i, a := range ev {
				if K&(1<<uint(i)) == 0 || a.op.Kind != 1 || a.op.Elem != el {
					continue
				}
				observed := false
				for j, r := range ev {
					if K&(1<<uint(j)) != 0 && r.op.Kind == 2 && r.op.Elem == el && r.obs&(1<<uint(i)) != 0 {
						observed = true
					}
				}
				if !observed {
					present = true
				}
			}
			if present {
				in = append(in, u.elems[el])
			}
		}
		return tla.MakeSet(in...)
	case "lww":
		// latest (by time = history index) add or remove of each element among K decides
		var in []tla.Value
		for el := range u.elems {
			last := 0
			for i, e := range ev {
				if K&(1<<uint(i)) != 0 && e.op.Elem == el {
					last = e.op.Kind
				}
			}
			if last == 1 {
				in = append(in, u.elems[el])
			}
		}
		return tla.MakeSet(in...)
	}
	panic("type")
}

// ---------------------------------------------------------------------------------------------
// canonical forms

// lwwCanonRanked renders LWW values with every timestamp replaced by its rank among the timestamps
// of the SAME element (over all given values, add and remove maps together).  LWWSet only ever
// compares timestamps of one element (Merge: add/add and rem/rem, isIn: add/rem) and every future
// update is stamped later than everything existing, so this rendering determines the future.
func lwwCanonRanked(vals []resources.CRDTValue) string {
	per := map[string][]int64{}
	type ent struct{ add, rem []resources.VerifLWWEntry }
	es := make([]ent, len(vals))
	for i, v := range vals {
		a, r := resources.VerifLWWEntries(v)
		es[i] = ent{a, r}
		for _, x := range a {
			per[x.Elem] = append(per[x.Elem], x.Nano)
		}
		for _, x := range r {
			per[x.Elem] = append(per[x.Elem], x.Nano)
		}
	}
	rank := map[string]map[int64]int{}
	for el, all := range per {
		sort.Slice(all, func(i, j int) bool { return all[i] < all[j] })
		rk := map[int64]int{}
		for _, x := range all {
			if _, ok := rk[x]; !ok {
				rk[x] = len(rk)
			}
		}
		rank[el] = rk
	}
	var b strings.Builder
	for _, e := range es {
		b.WriteString("L add[")
		for _, x := range e.add {
			if lwwSkew {
				// which clock the stamp comes from decides how it compares with every future stamp
				fmt.Fprintf(&b, "%s@%d/c%d ", x.Elem, rank[x.Elem][x.Nano], stampClass(x.Nano))
			} else {
				fmt.Fprintf(&b, "%s@%d ", x.Elem, rank[x.Elem][x.Nano])
			}
		}
		b.WriteString("] rem[")
		for _, x := range e.rem {
			if lwwSkew {
				// which clock the stamp comes from decides how it compares with every future stamp
				fmt.Fprintf(&b, "%s@%d/c%d ", x.Elem, rank[x.Elem][x.Nano], stampClass(x.Nano))
			} else {
				fmt.Fprintf(&b, "%s@%d ", x.Elem, rank[x.Elem][x.Nano])
			}
		}
		b.WriteString("];")
	}
	return b.String()
}

func canon(v resources.CRDTValue) string { return resources.VerifCRDTCanon(v) }

// show renders a value for messages (LWW timestamps as ranks, so the text is stable across runs).
func show(typ string, v resources.CRDTValue) string {
	if typ == "lww" {
		return strings.TrimSuffix(lwwCanonRanked([]resources.CRDTValue{v}), ";")
	}
	return canon(v)
}

// implKey is the canonical rendering of the replica values alone (what the semilattice laws depend on).
func (n *node) implKey(typ string) string {
	if typ == "lww" {
		return lwwCanonRanked(n.reps)
	}
	var b strings.Builder
	for i := range n.reps {
		b.WriteString(n.canonOf(i))
		b.WriteString(";")
	}
	return b.String()
}

func (n *node) key(typ string) string {
	var b strings.Builder
	b.WriteString(n.implKey(typ))
	// model: events named (origin, seq) in that order; aworset: plus what each event observed;
	// lww: plus the time order of the events of each element (history order = time order).
	order := make([]int, len(n.ev))
	for i := range order {
		order[i] = i
	}
	sort.Slice(order, func(a, c int) bool {
		x, y := n.ev[order[a]], n.ev[order[c]]
		if x.origin != y.origin {
			return x.origin < y.origin
		}
		return x.seq < y.seq
	})
	pos := make([]int, len(n.ev))
	for p, i := range order {
		pos[i] = p
	}
	remap := func(s uint64) uint64 {
		var o uint64
		for i := range n.ev {
			if s&(1<<uint(i)) != 0 {
				o |= 1 << uint(pos[i])
			}
		}
		return o
	}
	b.WriteString("|M")
	for _, i := range order {
		e := n.ev[i]
		fmt.Fprintf(&b, " %d.%d:%s", e.origin, e.seq, e.op.Name)
		if typ == "aworset" {
			fmt.Fprintf(&b, "/%x", remap(e.obs))
		}
	}
	if typ == "lww" {
		for el := 0; el < 2; el++ {
			fmt.Fprintf(&b, "|T%d", el)
			for _, e := range n.ev {
				if e.op.Elem == el {
					fmt.Fprintf(&b, " %d.%d", e.origin, e.seq)
				}
			}
		}
	}
	b.WriteString("|K")
	for _, k := range n.know {
		fmt.Fprintf(&b, " %x", remap(k))
	}
	return b.String()
}

// ---------------------------------------------------------------------------------------------
// gob transport: the value travels inside the RPC argument struct of the CRDT resource

type gobResult struct {
	v   resources.CRDTValue
	err error
}

// gobOf is the gob round trip of n.reps[i]; the round trip is a function of the value, so it is
// performed once per distinct value (keyed by the canonical rendering of the complete internal state).
func (s *searcher) gobOf(n *node, i int) (resources.CRDTValue, error) {
	k := n.canonOf(i)
	if r, ok := s.gobCache.Load(k); ok {
		gr := r.(gobResult)
		return gr.v, gr.err
	}
	v, err := gobRT(n.reps[i])
	s.stats.Lock()
	s.stats.gobRoundTrips++
	s.stats.Unlock()
	s.gobCache.Store(k, gobResult{v, err})
	return v, err
}

func gobRT(v resources.CRDTValue) (resources.CRDTValue, error) {
	var buf bytes.Buffer
	if err := gob.NewEncoder(&buf).Encode(resources.ReceiveValueArgs{Value: v}); err != nil {
		return nil, err
	}
	var out resources.ReceiveValueArgs
	if err := gob.NewDecoder(&buf).Decode(&out); err != nil {
		return nil, err
	}
	if out.Value == nil {
		return nil, fmt.Errorf("decoded value is nil")
	}
	return out.Value, nil
}

// ---------------------------------------------------------------------------------------------
// pointwise-max reference join, used ONLY to attribute a failed law / read check to a root cause

func gEntries(v resources.CRDTValue) map[string]int32 {
	out := map[string]int32{}
	g := v.(resources.GCounter)
	if g.Map == nil {
		return out
	}
	it := g.Iterator()
	for !it.Done() {
		k, x, _ := it.Next()
		out[k.String()] = x
	}
	return out
}

// deviation returns "" when Merge(x,y)=res is the pointwise maximum of x and y, else a class.
func deviation(typ string, x, y, res resources.CRDTValue) string {
	switch typ {
	case "gcounter":
		ex, ey, er := gEntries(x), gEntries(y), gEntries(res)
		want := map[string]int32{}
		for k, v := range ex {
			want[k] = v
		}
		for k, v := range ey {
			if cur, ok := want[k]; !ok || v > cur {
				want[k] = v
			}
		}
		if len(want) != len(er) {
			return "gcounter/merge-not-pointwise-max"
		}
		for k, v := range want {
			if r, ok := er[k]; !ok || r != v {
				return "gcounter/merge-not-pointwise-max"
			}
		}
	case "lww":
		xa, xr := resources.VerifLWWEntries(x)
		ya, yr := resources.VerifLWWEntries(y)
		ra, rr := resources.VerifLWWEntries(res)
		toMap := func(e []resources.VerifLWWEntry) map[string]int64 {
			m := map[string]int64{}
			for _, x := range e {
				m[x.Elem] = x.Nano
			}
			return m
		}
		cmp := func(a, b, r map[string]int64) (string, bool) { // a = receiver, b = argument
			for k, v := range b {
				if av, ok := a[k]; !ok || v > av {
					if rv, ok := r[k]; !ok || rv != v {
						return "arg", false
					}
				}
			}
			for k, v := range a {
				if bv, ok := b[k]; !ok || v >= bv {
					if rv, ok := r[k]; !ok || rv != v {
						return "self", false
					}
				}
			}
			for k := range r {
				_, o1 := a[k]
				_, o2 := b[k]
				if !o1 && !o2 {
					return "invented", false
				}
			}
			return "", true
		}
		if w, ok := cmp(toMap(xr), toMap(yr), toMap(rr)); !ok {
			if w == "arg" {
				return "lww/merge-drops-remote-remove"
			}
			return "lww/merge-not-pointwise-max/rem-" + w
		}
		if w, ok := cmp(toMap(xa), toMap(ya), toMap(ra)); !ok {
			if w == "arg" {
				return "lww/merge-drops-remote-add"
			}
			return "lww/merge-not-pointwise-max/add-" + w
		}
	}
	return ""
}

// ---------------------------------------------------------------------------------------------
// violations

type replay struct {
	Key    string  `json:"key"`
	Cfg    config  `json:"config"`
	Path   []trans `json:"path"`
	PathS  string  `json:"path_rendered"`
	Detail string  `json:"detail"`
}

// candidate is one failing check instance.
type candidate struct {
	s          *searcher
	n          *node
	law        string
	what       string
	observable bool                // the failure is visible through Read()
	l, r       resources.CRDTValue // the two values that should have been equal (law checks)
	depth      int
	pathS      string
}

func (a *candidate) less(b *candidate) bool {
	if a.depth != b.depth {
		return a.depth < b.depth
	}
	if a.pathS != b.pathS {
		return a.pathS < b.pathS
	}
	return a.what < b.what
}

type finding struct {
	key      string
	best     *candidate   // smallest Read-visible instance
	internal []*candidate // smallest instances that differ in internal state only (kept: maxInternal)
	conseq   map[string]int
}

const maxInternal = 12

type collector struct {
	mu sync.Mutex
	m  map[string]*finding
}

func (c *collector) add(key string, cand *candidate) {
	cand.depth = cand.n.depth
	var ps []string
	for _, t := range cand.n.path() {
		ps = append(ps, t.render(cand.s.ops))
	}
	cand.pathS = strings.Join(ps, " ")
	c.mu.Lock()
	defer c.mu.Unlock()
	f, ok := c.m[key]
	if !ok {
		f = &finding{key: key, conseq: map[string]int{}}
		c.m[key] = f
	}
	f.conseq[cand.law]++
	if cand.observable {
		if f.best == nil || cand.less(f.best) {
			f.best = cand
		}
		return
	}
	if f.best != nil {
		return
	}
	f.internal = append(f.internal, cand)
	sort.Slice(f.internal, func(i, j int) bool { return f.internal[i].less(f.internal[j]) })
	if len(f.internal) > maxInternal {
		f.internal = f.internal[:maxInternal]
	}
}

// distinguish looks for a continuation that makes an internal-only difference visible: two copies of
// the tuple state, one with an extra replica slot q holding l, the other holding r, are driven in
// lock step by the same updates (on the real replicas) and merges (between all slots, q included);
// a continuation after which some slot reads differently in the two copies shows that l and r are
// not the same state for any observer.  Breadth first, so the continuation returned is a shortest one.
func (s *searcher) distinguish(n *node, l, r resources.CRDTValue, maxDepth int) (string, bool) {
	type sys struct {
		a, b []resources.CRDTValue
		path []string
	}
	R := len(n.reps)
	start := sys{a: append(append([]resources.CRDTValue{}, n.reps...), l), b: append(append([]resources.CRDTValue{}, n.reps...), r)}
	name := func(i int) string {
		if i == R {
			return "q"
		}
		return fmt.Sprintf("r%d", i+1)
	}
	level := []sys{start}
	for d := 0; d < maxDepth; d++ {
		var next []sys
		for _, st := range level {
			try := func(step string, na, nb []resources.CRDTValue) (string, bool) {
				p := append(append([]string{}, st.path...), step)
				for i := range na {
					ra, rb := rd(na[i]), rd(nb[i])
					if !ra.Equal(rb) {
						return fmt.Sprintf("[%s] after which %s reads %v in one copy and %v in the other", strings.Join(p, " "), name(i), ra, rb), true
					}
				}
				next = append(next, sys{na, nb, p})
				return "", false
			}
			for i := 0; i < R; i++ {
				for op := range s.ops {
					na := append([]resources.CRDTValue{}, st.a...)
					nb := append([]resources.CRDTValue{}, st.b...)
					s.nextStampVals(st.a)
					var oka, okb bool
					na[i], oka = safeWrite(st.a[i], s.u.ids[i], s.u.opValue(s.ops[op]))
					s.nextStampVals(st.b)
					nb[i], okb = safeWrite(st.b[i], s.u.ids[i], s.u.opValue(s.ops[op]))
					if !oka || !okb {
						continue
					}
					if w, ok := try(fmt.Sprintf("w(%s,%s)", name(i), s.ops[op].Name), na, nb); ok {
						return w, true
					}
				}
			}
			for i := 0; i <= R; i++ {
				for j := 0; j <= R; j++ {
					if i == j {
						continue
					}
					na := append([]resources.CRDTValue{}, st.a...)
					nb := append([]resources.CRDTValue{}, st.b...)
					na[i] = st.a[i].Merge(st.a[j])
					nb[i] = st.b[i].Merge(st.b[j])
					if w, ok := try(fmt.Sprintf("m(%s<-%s)", name(i), name(j)), na, nb); ok {
						return w, true
					}
				}
			}
		}
		level = next
	}
	return "", false
}

type reported struct {
	key, what string
	rep       replay
}

// finalize turns the collected instances into violations: a key is reported when some instance is
// visible through Read(), or when an internal-only difference can be made visible by a continuation
// of at most 3 steps.  Internal-only differences that cannot be made visible are counted, not reported.
func (c *collector) finalize() (out []reported, unobservable map[string]int) {
	unobservable = map[string]int{}
	keys := make([]string, 0, len(c.m))
	for k := range c.m {
		keys = append(keys, k)
	}
	sort.Strings(keys)
	for _, k := range keys {
		f := c.m[k]
		var cs []string
		tot := 0
		for l, n := range f.conseq {
			cs = append(cs, fmt.Sprintf("%s x%d", l, n))
			tot += n
		}
		sort.Strings(cs)
		var w *candidate
		extra := ""
		if f.best != nil {
			w = f.best
		} else {
			for _, cand := range f.internal {
				if cont, ok := cand.s.distinguish(cand.n, cand.l, cand.r, 3); ok {
					w = cand
					extra = "; the difference is observable: with q holding the left resp. the right value, continuation " + cont
					break
				}
			}
		}
		if w == nil {
			unobservable[k] = tot
			continue
		}
		what := fmt.Sprintf("after [%s]: %s%s; failing check instances under this key: %s", w.pathS, w.what, extra, strings.Join(cs, ", "))
		if len(what) > 1800 {
			what = what[:1800] + "…"
		}
		out = append(out, reported{key: k, what: what, rep: replay{Key: k, Cfg: w.s.cfg, Path: w.n.path(), PathS: w.pathS, Detail: w.what + extra}})
	}
	return
}

// ---------------------------------------------------------------------------------------------
// the search

type searcher struct {
	cfg      config
	u        universe
	ops      []opDesc
	col      *collector
	lawSeen  map[string]bool // implKey -> true: the laws depend on the replica values only
	gobCache sync.Map        // canonical rendering -> gobResult
	stats    struct {
		sync.Mutex
		lawChecks, readChecks, gobChecks, inflationChecks, merges, lawTuples, gobRoundTrips int64
	}
}

type chk struct {
	s    *searcher
	n    *node
	devs []string // deviations of the merges used by the current check instance
	nm   int64
}

func (c *chk) merge(x, y resources.CRDTValue) resources.CRDTValue {
	r := x.Merge(y)
	c.nm++
	if d := deviation(c.s.cfg.Type, x, y, r); d != "" {
		c.devs = append(c.devs, d)
	}
	return r
}

func (c *chk) begin() { c.devs = c.devs[:0] }

// same compares two values by canonical internal state and by Read(); on a difference it records a
// failing instance keyed by type/law, or by the root-cause class when one of the merges involved
// deviated from the pointwise-max join.
func (c *chk) same(law string, a, b resources.CRDTValue, descr func() string) {
	ca, cb := canon(a), canon(b)
	ra, rb := rd(a), rd(b)
	if ca == cb && ra.Equal(rb) {
		return
	}
	aspect := "internal-state"
	if !ra.Equal(rb) {
		aspect = "read"
	}
	typ := c.s.cfg.Type
	key := typ + "/" + law
	if len(c.devs) > 0 {
		key = c.devs[0]
	}
	sa, sb := ca, cb
	if typ == "lww" { // timestamps shown as per-element ranks so that the text is the same in every run
		both := strings.Split(lwwCanonRanked([]resources.CRDTValue{a, b}), ";")
		sa, sb = both[0], both[1]
	}
	what := fmt.Sprintf("%s %s fails (%s differs): %s: left=%s reads %v, right=%s reads %v", typ, law, aspect, descr(), sa, ra, sb, rb)
	c.s.col.add(key, &candidate{s: c.s, n: c.n, law: law + "/" + aspect, what: what, observable: aspect == "read", l: a, r: b})
}

// nextStampVals: LWWSet.Write stamps with time.Now(); wait until the clock is at least 1 microsecond
// past every timestamp already present in the state, so that "latest" is well defined (and gob, which
// drops the monotonic reading, cannot reorder anything).
func (s *searcher) nextStampVals(vals []resources.CRDTValue) {
	if s.cfg.Type != "lww" {
		return
	}
	if s.cfg.Skew {
		// stamps of other clocks lie in the future: only make sure that real time has moved on
		for t0 := time.Now(); time.Since(t0) < 2*time.Microsecond; {
		}
		return
	}
	var max int64
	for _, r := range vals {
		a, rm := resources.VerifLWWEntries(r)
		for _, x := range a {
			if x.Nano > max {
				max = x.Nano
			}
		}
		for _, x := range rm {
			if x.Nano > max {
				max = x.Nano
			}
		}
	}
	for time.Now().UnixNano() < max+1000 {
	}
}

// write performs the local update on the real value and on the model.  It returns nil when the
// update is not offered (passive replica) or fails loudly.
func (s *searcher) write(n *node, r, op int) *node {
	if r >= len(n.reps)-s.cfg.Passive {
		return nil
	}
	s.nextStampVals(n.reps)
	c := &node{reps: append([]resources.CRDTValue{}, n.reps...), know: append([]uint64{}, n.know...),
		parent: n, tr: trans{T: "w", R: r, Op: op}, depth: n.depth + 1, taint: n.taint}
	base := n.reps[r]
	if s.cfg.Skew {
		// a replica whose clock is off ahead sees every stamp off earlier relative to its own time.Now()
		base = resources.VerifLWWShift(base, -skewOffsets[r])
	}
	nv, ok := safeWrite(base, s.u.ids[r], s.u.opValue(s.ops[op]))
	if !ok {
		return nil
	}
	if s.cfg.Skew {
		nv = resources.VerifLWWShift(nv, skewOffsets[r])
	}
	c.reps[r] = nv
	n.inheritCanon(c, r)
	seq := 0
	for _, e := range n.ev {
		if e.origin == r {
			seq++
		}
	}
	c.ev = append(append([]event{}, n.ev...), event{origin: r, seq: seq, op: s.ops[op], obs: n.know[r]})
	c.know[r] |= 1 << uint(len(n.ev))
	return c
}

func (s *searcher) mergeTr(n *node, r, from int, viaGob bool) (*node, error) {
	c := &node{reps: append([]resources.CRDTValue{}, n.reps...), know: append([]uint64{}, n.know...), ev: n.ev,
		parent: n, tr: trans{T: "m", R: r, S: from}, depth: n.depth + 1, taint: n.taint}
	arg := n.reps[from]
	if viaGob {
		c.tr.T = "mg"
		var err error
		if arg, err = s.gobOf(n, from); err != nil {
			return nil, err
		}
	}
	c.reps[r] = n.reps[r].Merge(arg)
	n.inheritCanon(c, r)
	if d := deviation(s.cfg.Type, n.reps[r], arg, c.reps[r]); d != "" && c.taint == "" {
		c.taint = d
	}
	c.know[r] |= n.know[from]
	return c, nil
}

// checkNode runs every per-state check on node n.
func (s *searcher) checkNode(n *node, laws bool, ws []*node) {
	c := &chk{s: s, n: n}
	typ := s.cfg.Type
	R := len(n.reps)
	var lawN, readN, gobN, inflN int64
	defer func() {
		s.stats.Lock()
		s.stats.lawChecks += lawN
		s.stats.readChecks += readN
		s.stats.gobChecks += gobN
		s.stats.inflationChecks += inflN
		s.stats.merges += c.nm
		s.stats.Unlock()
	}()
	// declared read semantics (depends on the history: checked in every state)
	for i := 0; i < R; i++ {
		got := rd(n.reps[i])
		readN++
		if typ == "gcounter" {
			// the true sum of the increments received; a read that fails loudly is always acceptable,
			// a silent answer must be that sum (which then fits 32 bits)
			var sum int64
			for k, e := range n.ev {
				if n.know[i]&(1<<uint(k)) != 0 {
					sum += int64(e.op.Amount)
				}
			}
			if got.Equal(loudValue) || (got.IsNumber() && int64(got.AsNumber()) == sum) {
				continue
			}
			key := typ + "/read-semantics"
			if sum > math.MaxInt32 {
				key = "gcounter/read-not-sum-of-increments/overflow"
			} else if n.taint != "" {
				key = n.taint
			}
			s.col.add(key, &candidate{s: s, n: n, law: "read-semantics", observable: true,
				what: fmt.Sprintf("gcounter replica r%d reads %v but the increments it has received add up to %d (state %s); the only acceptable answers are that sum or, when it does not fit 32 bits, a loud failure", i+1, got, sum, show(typ, n.reps[i]))})
			continue
		}
		if s.cfg.Skew {
			// with skewed clocks "latest" is decided by the stamps; what must still hold is that replicas
			// which have received the same updates read the same value, whatever the order and duplication
			for j := 0; j < i; j++ {
				if n.know[j] == n.know[i] && !rd(n.reps[j]).Equal(got) {
					s.col.add("lww/same-updates-different-read", &candidate{s: s, n: n, law: "same-updates-same-read", observable: true,
						what: fmt.Sprintf("lww replicas r%d and r%d have received the same updates but read %v and %v (states %s and %s)", j+1, i+1, rd(n.reps[j]), got, show(typ, n.reps[j]), show(typ, n.reps[i]))})
				}
			}
			continue
		}
		want := modelRead(typ, s.u, n.ev, n.know[i])
		if !got.Equal(want) {
			key := typ + "/read-semantics"
			if n.taint != "" {
				key = n.taint
			} else if typ == "aworset" && got.IsSet() {
				// which way is it wrong?  an element missing although one of its adds is not observed by any
				// remove the replica has received, or an element present although every add is observed
				missing, extra := false, false
				for _, el := range s.u.elems {
					_, inGot := got.AsSet().Get(el)
					_, inWant := want.AsSet().Get(el)
					if inWant && !inGot {
						missing = true
					}
					if inGot && !inWant {
						extra = true
					}
				}
				if missing {
					key = "aworset/read/add-not-observed-by-remove-lost"
				} else if extra {
					key = "aworset/read/element-present-though-every-add-observed-by-a-remove"
				}
			}
			s.col.add(key, &candidate{s: s, n: n, law: "read-semantics", observable: true,
				what: fmt.Sprintf("%s replica r%d reads %v but the updates it has received give %v (state %s)", typ, i+1, got, want, show(typ, n.reps[i]))})
		}
	}
	// the laws depend on the replica values only: check each distinct tuple of values once
	if !laws {
		return
	}
	s.stats.Lock()
	s.stats.lawTuples++
	s.stats.Unlock()
	// gob round trip of every replica state
	gobv := make([]resources.CRDTValue, R)
	for i := 0; i < R; i++ {
		g, err := s.gobOf(n, i)
		gobN++
		if err != nil {
			s.col.add(typ+"/gob-error", &candidate{s: s, n: n, law: "gob", observable: true,
				what: fmt.Sprintf("%s: gob round trip of %s fails: %v", typ, show(typ, n.reps[i]), err)})
			continue
		}
		gobv[i] = g
		i := i
		c.begin()
		c.same("gob-roundtrip", n.reps[i], g, func() string { return fmt.Sprintf("x=r%d vs gob(x)", i+1) })
	}
	// pairs
	m := make([][]resources.CRDTValue, R)
	pairDev := make([][]string, R)
	for i := 0; i < R; i++ {
		m[i] = make([]resources.CRDTValue, R)
		pairDev[i] = make([]string, R)
		for j := 0; j < R; j++ {
			c.begin()
			m[i][j] = c.merge(n.reps[i], n.reps[j])
			if len(c.devs) > 0 {
				pairDev[i][j] = c.devs[0]
			}
		}
	}
	withDev := func(ds ...string) {
		c.begin()
		for _, d := range ds {
			if d != "" {
				c.devs = append(c.devs, d)
			}
		}
	}
	for i := 0; i < R; i++ {
		for j := 0; j < R; j++ {
			i, j := i, j
			if i == j {
				withDev(pairDev[i][i])
				lawN++
				c.same("merge-idempotent", m[i][i], n.reps[i], func() string { return fmt.Sprintf("x=r%d: x⊔x vs x", i+1) })
				continue
			}
			if i < j {
				withDev(pairDev[i][j], pairDev[j][i])
				lawN++
				c.same("merge-commutative", m[i][j], m[j][i], func() string { return fmt.Sprintf("x=r%d y=r%d: x⊔y vs y⊔x", i+1, j+1) })
			}
			// duplication: delivering y again changes nothing
			withDev(pairDev[i][j])
			again := c.merge(m[i][j], n.reps[j])
			lawN++
			c.same("merge-duplicate-delivery", again, m[i][j], func() string { return fmt.Sprintf("x=r%d y=r%d: (x⊔y)⊔y vs x⊔y", i+1, j+1) })
			// gob transport of either argument
			if gobv[j] != nil {
				withDev(pairDev[i][j])
				viaGob := c.merge(n.reps[i], gobv[j])
				gobN++
				c.same("merge-gob-transport", viaGob, m[i][j], func() string { return fmt.Sprintf("x=r%d y=r%d: x⊔gob(y) vs x⊔y", i+1, j+1) })
			}
			if gobv[i] != nil {
				withDev(pairDev[i][j])
				viaGob := c.merge(gobv[i], n.reps[j])
				gobN++
				c.same("merge-gob-transport", viaGob, m[i][j], func() string { return fmt.Sprintf("x=r%d y=r%d: gob(x)⊔y vs x⊔y", i+1, j+1) })
			}
		}
	}
	// triples (all ordered, with repetition)
	for i := 0; i < R; i++ {
		for j := 0; j < R; j++ {
			for k := 0; k < R; k++ {
				i, j, k := i, j, k
				withDev(pairDev[i][j], pairDev[j][k])
				l := c.merge(m[i][j], n.reps[k])
				r := c.merge(n.reps[i], m[j][k])
				lawN++
				c.same("merge-associative", l, r, func() string { return fmt.Sprintf("x=r%d y=r%d z=r%d: (x⊔y)⊔z vs x⊔(y⊔z)", i+1, j+1, k+1) })
			}
		}
	}
	// every local update is an inflation: old ⊔ new = new ⊔ old = new
	for i := 0; i < R; i++ {
		for op := range s.ops {
			i, op := i, op
			var wn *node
			if ws != nil {
				wn = ws[i*len(s.ops)+op] // the write successor already computed for the search
			} else {
				wn = s.write(n, i, op)
			}
			if wn == nil {
				continue // not offered, or the update failed loudly
			}
			nw := wn.reps[i]
			c.begin()
			a := c.merge(n.reps[i], nw)
			inflN++
			c.same("update-inflationary", a, nw, func() string {
				return fmt.Sprintf("x=r%d, x'=x.Write(%s): x⊔x' vs x'", i+1, s.ops[op].Name)
			})
			c.begin()
			b := c.merge(nw, n.reps[i])
			inflN++
			c.same("update-inflationary", b, nw, func() string {
				return fmt.Sprintf("x=r%d, x'=x.Write(%s): x'⊔x vs x'", i+1, s.ops[op].Name)
			})
		}
	}
}

// successors executes every transition on the real values.
func (s *searcher) successors(n *node) []*node {
	var out []*node
	R := len(n.reps)
	for r := 0; r < R; r++ {
		for op := range s.ops {
			out = append(out, s.write(n, r, op))
		}
	}
	for r := 0; r < R; r++ {
		for f := 0; f < R; f++ {
			if r == f {
				continue
			}
			for _, g := range []bool{false, true} {
				if g && s.cfg.NoGob {
					continue
				}
				c, err := s.mergeTr(n, r, f, g)
				if err != nil {
					continue // reported by checkNode (gob-error)
				}
				out = append(out, c)
			}
		}
	}
	return out
}

type searchResult struct {
	Cfg         string         `json:"config"`
	States      int            `json:"states"`
	Transitions int            `json:"transitions"`
	PerDepth    []int          `json:"states_per_depth"`
	Completed   int            `json:"depth_completed"`
	Exhaustive  bool           `json:"exhaustive_to_depth"`
	ReplicaSts  int            `json:"distinct_replica_states"`
	Revalidated int            `json:"paths_reexecuted_from_init"`
	RevalFail   int            `json:"paths_reexecuted_mismatch"`
	Checks      map[string]int `json:"checks"`
	WallS       float64        `json:"wall_s"`
	ShareS      float64        `json:"time_share_s"`
	samples     []any
}

// execPath re-executes a path from Init on fresh values.
func (s *searcher) execPath(p []trans) (*node, error) {
	n := s.root()
	for _, t := range p {
		switch t.T {
		case "w":
			if n = s.write(n, t.R, t.Op); n == nil {
				return nil, fmt.Errorf("update of the path is not available (fails loudly)")
			}
		case "m", "mg":
			c, err := s.mergeTr(n, t.R, t.S, t.T == "mg")
			if err != nil {
				return nil, err
			}
			n = c
		}
	}
	return n, nil
}

func (s *searcher) root() *node {
	root := &node{}
	for i := 0; i < s.cfg.Replicas; i++ {
		root.reps = append(root.reps, initValue(s.cfg.Type))
		root.know = append(root.know, 0)
	}
	return root
}

func parallel(n, workers int, f func(i int)) {
	if workers < 1 {
		workers = 1
	}
	var wg sync.WaitGroup
	ch := make(chan int, 256)
	for w := 0; w < workers; w++ {
		wg.Add(1)
		go func() {
			defer wg.Done()
			for i := range ch {
				f(i)
			}
		}()
	}
	for i := 0; i < n; i++ {
		ch <- i
	}
	close(ch)
	wg.Wait()
}

func (s *searcher) run(workers int, deadline time.Time) *searchResult {
	t0 := time.Now()
	lwwSkew = s.cfg.Skew
	defer func() { lwwSkew = false }()
	res := &searchResult{Cfg: s.cfg.String(), Checks: map[string]int{}, ShareS: time.Until(deadline).Seconds()}
	root := s.root()
	seen := map[string]bool{root.key(s.cfg.Type): true}
	repSeen := map[string]bool{}
	frontier := []*node{root}
	var leaves []*node
	res.States = 1
	res.Exhaustive = true
	for d := 0; ; d++ {
		res.PerDepth = append(res.PerDepth, len(frontier))
		if time.Now().After(deadline) {
			res.Exhaustive = false
			break
		}
		last := d == s.cfg.Depth
		type exp struct {
			succ []*node
			keys []string
		}
		exps := make([]exp, len(frontier))
		// which nodes carry a tuple of replica values not yet law-checked (decided in frontier order, so
		// the node that witnesses a law failure is the same in every run)
		iks := make([]string, len(frontier))
		parallel(len(frontier), workers, func(i int) { iks[i] = frontier[i].implKey(s.cfg.Type) })
		laws := make([]bool, len(frontier))
		for i, k := range iks {
			if !s.lawSeen[k] {
				s.lawSeen[k] = true
				laws[i] = true
			}
		}
		iks = nil
		var timedOut bool
		var tmu sync.Mutex
		parallel(len(frontier), workers, func(i int) {
			if i%64 == 0 && time.Now().After(deadline) {
				tmu.Lock()
				timedOut = true
				tmu.Unlock()
			}
			tmu.Lock()
			to := timedOut
			tmu.Unlock()
			if to {
				return
			}
			n := frontier[i]
			if last {
				s.checkNode(n, laws[i], nil)
				return
			}
			sc := s.successors(n) // the first R*len(ops) entries are the write successors, in (replica, op) order
			s.checkNode(n, laws[i], sc[:len(n.reps)*len(s.ops)])
			ks := make([]string, len(sc))
			for j, c := range sc {
				if c != nil {
					ks[j] = c.key(s.cfg.Type)
				}
			}
			exps[i] = exp{sc, ks}
		})
		if timedOut {
			res.Exhaustive = false
			break
		}
		for _, n := range frontier {
			for _, r := range n.reps {
				repSeen[show(s.cfg.Type, r)] = true
			}
		}
		res.Completed = d
		if last {
			leaves = append(leaves, frontier...)
			break
		}
		var next []*node
		for i := range frontier {
			hasChild := false
			for j, c := range exps[i].succ {
				if c == nil {
					continue // update not offered or failed loudly: no transition
				}
				res.Transitions++
				if seen[exps[i].keys[j]] {
					continue
				}
				seen[exps[i].keys[j]] = true
				next = append(next, c)
				hasChild = true
			}
			if !hasChild {
				leaves = append(leaves, frontier[i])
			}
		}
		res.States += len(next)
		if len(res.samples) < 1 && d >= 2 && len(next) > 0 {
			n := next[len(next)/2]
			var ps []string
			for _, t := range n.path() {
				ps = append(ps, t.render(s.ops))
			}
			var st []string
			for _, r := range n.reps {
				st = append(st, show(s.cfg.Type, r)+" reads "+rd(r).String())
			}
			res.samples = append(res.samples, map[string]any{"config": s.cfg.String(), "path": strings.Join(ps, " "), "state": st})
		}
		frontier = next
		if len(frontier) == 0 {
			break
		}
	}
	res.ReplicaSts = len(repSeen)
	// conformance of the stored graph: re-execute the BFS-tree path of every leaf state from Init() on
	// fresh values (fresh timestamps) and require the same canonical state key (this also validates the
	// rank normalisation used to merge LWW states).  Allowed to run 25% past the search deadline.
	var mu sync.Mutex
	grace := deadline.Add(time.Since(t0) / 4)
	parallel(len(leaves), workers, func(i int) {
		if i%64 == 0 && time.Now().After(grace) {
			mu.Lock()
			res.Exhaustive = false
			mu.Unlock()
		}
		mu.Lock()
		stop := !res.Exhaustive && time.Now().After(grace)
		mu.Unlock()
		if stop {
			return
		}
		n := leaves[i]
		r, err := s.execPath(n.path())
		bad := err != nil || r.key(s.cfg.Type) != n.key(s.cfg.Type)
		mu.Lock()
		defer mu.Unlock()
		res.Revalidated++
		if bad {
			res.RevalFail++
		}
	})
	s.stats.Lock()
	res.Checks["law_instances"] = int(s.stats.lawChecks)
	res.Checks["law_checked_value_tuples"] = int(s.stats.lawTuples)
	res.Checks["read_semantics"] = int(s.stats.readChecks)
	res.Checks["gob"] = int(s.stats.gobChecks)
	res.Checks["inflation"] = int(s.stats.inflationChecks)
	res.Checks["merge_calls"] = int(s.stats.merges)
	res.Checks["gob_round_trips_performed_distinct_values"] = int(s.stats.gobRoundTrips)
	s.stats.Unlock()
	res.WallS = time.Since(t0).Seconds()
	return res
}

// plan lists the searches of a tier, cheapest first: every search gets an equal share of the time
// that is left, so the expensive ones at the end inherit whatever the cheap ones did not use.
func plan(thorough bool) []config {
	if !thorough {
		return []config{
			{Type: "gcounter", Universe: 1, Replicas: 2, Depth: 5},
			// increments near the 32-bit limit: the read is the true sum or a loud failure, never a wrapped number
			{Type: "gcounter", Universe: 0, Replicas: 2, Depth: 5, Ops: "big"},
			{Type: "gcounter", Universe: 0, Replicas: 3, Depth: 4, Ops: "big"},
			{Type: "gcounter", Universe: 0, Replicas: 3, Depth: 5},
			{Type: "aworset", Universe: 1, Replicas: 2, Depth: 5},
			{Type: "lww", Universe: 1, Replicas: 2, Depth: 5},
			// clocks that disagree: replica k stamps its updates skewOffsets[k] ahead of real time
			{Type: "lww", Universe: 0, Replicas: 3, Depth: 5, Elems: 1, Skew: true, NoGob: true},
			// the time order of updates multiplies the LWW state space: 3 replicas at depth 5 and beyond run in the thorough tier
			{Type: "lww", Universe: 0, Replicas: 3, Depth: 4},
			// two elements, three updating replicas (depth 5 and 6 run in the thorough tier)
			{Type: "aworset", Universe: 0, Replicas: 3, Depth: 4},
			// long histories of one element: two updating replicas and one slot that only holds a snapshot
			// which is delivered later (a delayed, possibly stale or duplicated message)
			{Type: "aworset", Universe: 0, Replicas: 3, Depth: 8, Elems: 1, Passive: 1, NoGob: true},
		}
	}
	return []config{
		{Type: "gcounter", Universe: 1, Replicas: 3, Depth: 5},
		{Type: "gcounter", Universe: 2, Replicas: 3, Depth: 5},
		{Type: "gcounter", Universe: 0, Replicas: 2, Depth: 8, Ops: "big"},
		{Type: "gcounter", Universe: 1, Replicas: 3, Depth: 6, Ops: "big"},
		{Type: "gcounter", Universe: 1, Replicas: 2, Depth: 10},
		{Type: "gcounter", Universe: 0, Replicas: 3, Depth: 7},
		{Type: "aworset", Universe: 1, Replicas: 3, Depth: 5},
		{Type: "aworset", Universe: 2, Replicas: 3, Depth: 5},
		{Type: "lww", Universe: 1, Replicas: 3, Depth: 5},
		{Type: "lww", Universe: 2, Replicas: 3, Depth: 5},
		{Type: "lww", Universe: 1, Replicas: 2, Depth: 6},
		{Type: "lww", Universe: 0, Replicas: 3, Depth: 7, Elems: 1, Skew: true, NoGob: true},
		{Type: "lww", Universe: 0, Replicas: 3, Depth: 5, Skew: true},
		{Type: "lww", Universe: 0, Replicas: 3, Depth: 8, Elems: 1, Passive: 1, NoGob: true},
		{Type: "aworset", Universe: 1, Replicas: 2, Depth: 7},
		{Type: "aworset", Universe: 0, Replicas: 3, Depth: 6},
		{Type: "aworset", Universe: 0, Replicas: 3, Depth: 9, Elems: 1, Passive: 1, NoGob: true},
		{Type: "lww", Universe: 0, Replicas: 3, Depth: 6},
	}
}

func TestCheck(t *testing.T) {
	hres.Main(t, func(env hres.Env) *hres.Result {
		res := &hres.Result{Property: "C12", Level: "model_checking"}
		col := &collector{m: map[string]*finding{}}
		if env.Replay != nil {
			var r replay
			if err := json.Unmarshal(env.Replay, &r); err != nil {
				t.Fatal(err)
			}
			s := &searcher{cfg: r.Cfg, u: mkUniverse(r.Cfg.Universe), ops: opsFor(r.Cfg), col: col, lawSeen: map[string]bool{}}
			lwwSkew = r.Cfg.Skew
			// re-execute the path from Init and run every check on every state along it
			for k := 0; k <= len(r.Path); k++ {
				n, err := s.execPath(r.Path[:k])
				if err != nil {
					col.add(s.cfg.Type+"/gob-error", &candidate{s: s, n: s.root(), law: "gob", observable: true, what: err.Error()})
					break
				}
				s.checkNode(n, true, nil)
			}
			res.Coverage = map[string]any{"states": len(r.Path) + 1, "transitions": len(r.Path), "traces_validated_against_impl": 1,
				"samples": []any{r.PathS}, "replay": true}
			rep, _ := col.finalize()
			for _, f := range rep {
				if f.key == r.Key {
					res.Violations = append(res.Violations, hres.Viol{Key: f.key, What: f.what, Replay: f.rep})
				}
			}
			return res
		}
		var results []*searchResult
		var samples []any
		states, transitions, traces, revalFail := 0, 0, 0, 0
		exhaustive := true
		checks := map[string]int{}
		cfgs := plan(env.Thorough())
		for i, cfg := range cfgs {
			s := &searcher{cfg: cfg, u: mkUniverse(cfg.Universe), ops: opsFor(cfg), col: col, lawSeen: map[string]bool{}}
			// share the remaining time evenly between the remaining searches
			rem := time.Until(env.Deadline)
			dl := time.Now().Add(rem / time.Duration(len(cfgs)-i))
			r := s.run(env.Workers, dl)
			results = append(results, r)
			samples = append(samples, r.samples...)
			states += r.States
			transitions += r.Transitions
			traces += r.Revalidated
			revalFail += r.RevalFail
			exhaustive = exhaustive && r.Exhaustive && r.Completed == cfg.Depth
			for k, v := range r.Checks {
				checks[k] += v
			}
		}
		rep, unobs := col.finalize()
		for _, f := range rep {
			res.Violations = append(res.Violations, hres.Viol{Key: f.key, What: f.what, Replay: f.rep})
		}
		res.Coverage = map[string]any{
			"states":                        states,
			"transitions":                   transitions,
			"traces_validated_against_impl": traces,
			"samples":                       samples,
			"exhaustive":                    exhaustive,
			"searches":                      results,
			"checks":                        checks,
			"divergences":                   revalFail,
			"loud_failures_accepted":        map[string]int64{"reads": loudReads.Load(), "updates": loudUpdates.Load()},
			"internal_only_differences_not_observable_within_3_steps": unobs,
			"note": "the model IS the implementation: every state is a tuple of real resources.CRDTValue values and every transition is a call of the real Write / Merge / gob codec; " +
				"traces_validated_against_impl counts BFS-tree paths (one per leaf state of the tree) re-executed from Init() on fresh values with fresh timestamps and required to reach the stored canonical state (divergences = mismatches)",
			"bounds": "replicas<=3 (third replica also plays the delayed/duplicated message), updates gcounter {+1,+2} (ops=big: {+1,+2^30,+MaxInt32}), sets {add,rem}x{e0,e1} (elems=1: e0 only), depth = updates+merges per history as listed per search; passive=1: the third replica never updates, it only holds snapshots delivered later",
		}
		res.Assumptions = []string{
			"laws are demanded on jointly reachable replica states (all ordered pairs/triples of the replicas of every reachable tuple state, plus their merges), not on arbitrary pairs from unrelated histories",
			"a law instance whose two sides differ only in internal state is reported only when a continuation of <=3 updates/merges makes the difference visible through Read(); otherwise it is counted under internal_only_differences_not_observable_within_3_steps",
			"LWWSet: the harness waits for the real clock to pass every existing timestamp by >= 1 microsecond before each update, so update timestamps are strictly increasing along a history and 'latest' is well defined; states are merged modulo the per-element order-isomorphism of timestamps",
			"each replica id is used by one replica only (Write is tagged with the writer id)",
			"the pointwise-max reference join is used only to attribute a failed law/read check to a root-cause key, never as an oracle on its own",
		}
		return res
	})
}

package c02

// ProcedureSpaghetti (pgo/test/files/general): step equality from every Go-reachable state.
//
// Full-graph equality from Init is meaningless for this pair: PGo emits the specialised copies of a
// procedure with the *same label names* (Proc1lbl1/Proc1lbl2/Proc2lbl1 four times, Arch1lbl four
// times); pcal renames the clashing labels (Proc1lbl2_, Proc1lbl2_P, Proc1lbl2_Pr, ...) but not
// the return address stored by `call Proc2k(); goto Proc1lbl2;`, so in the TLA+ translation every
// process comes back from Proc2k to the un-renamed label of the *last* copy.  The comparison
// therefore takes every state the generated Go reaches (complete BFS of the closed system),
// renders it as the spec state it stands for (right specialisation, right renamed labels, the
// stack frames the spec would hold), gives exactly those states to TLC as initial states and
// compares, state by state and action by action, the one-step successors - all 17 spec variables,
// `stack` included.  Differences are attributed by label:
//
//   - ProcedureSpaghetti/translation/renamed-value-param-not-substituted: label Proc1lbl2 of a
//     specialised copy whose value parameter was renamed (Proc11(b0), Proc12(b1), Proc13(b2)): the
//     emitted body still reads `b` (Proc10's parameter), the generated Go reads the procedure's
//     own parameter; and the spec successor is exactly "target := target + b[self]".
//   - ProcedureSpaghetti/translation/return-address-of-renamed-label: label Proc1lbl1 of a copy
//     whose labels pcal renamed: only `stack` differs, by the return address "Proc1lbl2" where the
//     Go side returns to this copy's own Proc1lbl2.
//   - anything else: ProcedureSpaghetti/step-differs (generic).

import (
	"context"
	"fmt"
	"os"
	"path/filepath"
	"regexp"
	"sort"
	"strings"
	"time"

	"github.com/DistCompiler/pgo/distsys/tla"
	"verif/mc/hres"
	ss "verif/mc/specstep"
	"verif/mc/sys/gotests"
	"verif/mc/tlabridge"
)

// extraCheck is a self-contained sub-check of C02 (own comparison, own violation keys).
type extraCheck struct {
	Name  string
	Quick bool
	Run   func(env hres.Env) (viol []hres.Viol, evidence map[string]any, states, steps int64, err error)
}

func extraChecks() []extraCheck {
	return []extraCheck{{Name: "gotests-ProcedureSpaghetti", Quick: true, Run: procSpaghettiCheck}}
}

// psReplay re-runs the sub-check (the harness reads "pair"); the rest documents the witness.
type psReplay struct {
	Pair     string `json:"pair"`
	Label    string `json:"label"`
	Self     int    `json:"self"`
	PreState psImg  `json:"pre_state"`
}

const (
	psKeyParam  = "ProcedureSpaghetti/translation/renamed-value-param-not-substituted"
	psKeyReturn = "ProcedureSpaghetti/translation/return-address-of-renamed-label"
	psKeyOther  = "ProcedureSpaghetti/step-differs"
)

var (
	psSelves = []int{1, 2, 3, 33, 4, 5} // process order of gotests.ProcedureSpaghetti()
	psSuffix = []string{"_", "_P", "_Pr", ""}
	psBVar   = []string{"b", "b0", "b1", "b2"}
	psCVar   = []string{"c0", "c1", "c2", "c3"}
	psFVar   = []string{"f", "f0", "f1", "f2"}
	psArch   = []string{"Arch1lbl_", "Arch1lbl_P", "Arch1lbl_Pr", "Arch1lbl"}
)

func psNum(v tla.Value) tla.Value {
	if v.Equal(tla.Value{}) {
		return tla.MakeNumber(0) // defaultInitValue = 0 in this comparison
	}
	return v
}

// psSpec: which specialised copy of Proc1/Proc2 process p (index) is in (or would call next).
func psSpec(p int, l map[string]tla.Value) int {
	switch p {
	case 0:
		return 0
	case 1:
		return 1
	case 2, 3:
		return 2
	case 4:
		if a, ok := l["Proc1.a"]; ok && a.IsString() && a.AsString() == "Pross4.c" {
			return 3
		}
		return 1
	}
	return 0
}

func psLabel(p, k int, goLabel string) string {
	i := strings.Index(goLabel, ".")
	arch, lbl := goLabel[:i], goLabel[i+1:]
	switch {
	case lbl == "Done":
		return "Done"
	case arch == "Arch1":
		return psArch[p]
	case arch == "Proc1" || arch == "Proc2":
		return lbl + psSuffix[k]
	}
	return lbl
}

type psImg map[string]string

// psImage renders a Go-side state as the 17 variables of the translation.
func psImage(s *ss.State) psImg {
	str, num := tla.MakeString, func(i int) tla.Value { return tla.MakeNumber(int32(i)) }
	img := psImg{"V1": ss.Canon(s.Globals["V1"]), "V2": ss.Canon(s.Globals["V2"]), "c": ss.Canon(psNum(s.Locals[4]["Pross4.c"]))}
	for p := 0; p < 4; p++ {
		img[psFVar[p]] = ss.Canon(s.Locals[p]["Arch1.f"])
	}
	var pc, stack []tla.RecordField
	bs, cs := make([][]tla.RecordField, 4), make([][]tla.RecordField, 4)
	for p, self := range psSelves {
		l := s.Locals[p]
		k := psSpec(p, l)
		pc = append(pc, tla.RecordField{Key: num(self), Value: str(psLabel(p, k, l[".pc"].AsString()))})
		for j := 0; j < 4; j++ {
			bv, cv := num(0), num(0)
			if j == k {
				bv, cv = psNum(l["Proc1.b"]), psNum(l["Proc1.c"])
			}
			bs[j] = append(bs[j], tla.RecordField{Key: num(self), Value: bv})
			cs[j] = append(cs[j], tla.RecordField{Key: num(self), Value: cv})
		}
		var frames []tla.Value
		if st, ok := l[".stack"]; ok && st.IsTuple() {
			it := st.AsTuple().Iterator()
			for !it.Done() {
				_, fr := it.Next()
				f := fr.AsFunction()
				ret, _ := f.Get(str(".pc"))
				rec := []tla.RecordField{{Key: str("pc"), Value: str(psLabel(p, k, ret.AsString()))}}
				if _, ok := f.Get(str("Proc1.a")); ok {
					sb, _ := f.Get(str("Proc1.b"))
					sc, _ := f.Get(str("Proc1.c"))
					rec = append(rec, tla.RecordField{Key: str("procedure"), Value: str(fmt.Sprintf("Proc1%d", k))},
						tla.RecordField{Key: str(psBVar[k]), Value: psNum(sb)}, tla.RecordField{Key: str(psCVar[k]), Value: psNum(sc)})
				} else if _, ok := f.Get(str("Proc2.a_")); ok {
					rec = append(rec, tla.RecordField{Key: str("procedure"), Value: str(fmt.Sprintf("Proc2%d", k))})
				} else {
					rec = append(rec, tla.RecordField{Key: str("procedure"), Value: str("RecursiveProcRef0")})
				}
				frames = append(frames, tla.MakeRecord(rec))
			}
		}
		stack = append(stack, tla.RecordField{Key: num(self), Value: tla.MakeTuple(frames...)})
	}
	img["pc"], img["stack"] = ss.Canon(tla.MakeRecord(pc)), ss.Canon(tla.MakeRecord(stack))
	for j := 0; j < 4; j++ {
		img[psBVar[j]], img[psCVar[j]] = ss.Canon(tla.MakeRecord(bs[j])), ss.Canon(tla.MakeRecord(cs[j]))
	}
	return img
}

func (m psImg) key() string {
	names := make([]string, 0, len(m))
	for n := range m {
		names = append(names, n)
	}
	sort.Strings(names)
	var b strings.Builder
	for _, n := range names {
		fmt.Fprintf(&b, "%s=%s\n", n, m[n])
	}
	return b.String()
}

var psEmptyConjunct = regexp.MustCompile(`(?m)^\s*/\\\s*\n`)

type psEdge struct {
	label string // spec label of the acting process
	self  int
	to    psImg
}

func procSpaghettiCheck(env hres.Env) (viol []hres.Viol, evidence map[string]any, nStates, nSteps int64, err error) {
	sys := gotests.ProcedureSpaghetti()
	outIdx := map[int32]int32{}
	var outStates []*ss.State
	// quick tier: the processes that share V1 (Pross1, Pross2, Pross4) and the ones that do not
	// (Pross3, Pross3Bis on V2; Pross5 only reads) are not interleaved with each other - either group
	// stays at its initial labels while the other runs through all its interleavings; thorough: the
	// full product.
	scope := func(s *ss.State) bool {
		if env.Thorough() {
			return true
		}
		a := s.PC(0) == "Arch1.Arch1lbl" && s.PC(1) == "Arch1.Arch1lbl" && s.PC(4) == "Pross4.Prosslbl1"
		b := s.PC(2) == "Arch1.Arch1lbl" && s.PC(3) == "Arch1.Arch1lbl" && s.PC(5) == "Pross5.Pross5lbl1"
		return a || b
	}
	// own deadline: a recorded finding must show on every run, whatever the pairs before it left of the budget
	r := sys.BFS(ss.BFSOptions{Workers: env.Workers, Deadline: time.Now().Add(30 * time.Minute), KeepGraph: true, Constraint: scope})
	{ // keep only the expanded states (and the edges leaving them); edge targets outside the scope are rendered on demand
		keep := make([]int32, len(r.GraphStates))
		var gs []*ss.State
		for i, s := range r.GraphStates {
			keep[i] = -1
			if scope(s) {
				keep[i] = int32(len(gs))
				gs = append(gs, s)
			}
		}
		targets := map[int32]*ss.State{}
		var ge []ss.Edge
		for _, e := range r.GraphEdges {
			if keep[e.From] < 0 {
				continue
			}
			ne := e
			ne.From = keep[e.From]
			if e.To >= 0 {
				if keep[e.To] >= 0 {
					ne.To = keep[e.To]
				} else { // target outside the scope: appended after the in-scope states, never given to TLC
					ne.To = int32(len(gs) + len(targets))
					if t, ok := outIdx[e.To]; ok {
						ne.To = t
					} else {
						outIdx[e.To] = ne.To
						targets[ne.To] = r.GraphStates[e.To]
						outStates = append(outStates, r.GraphStates[e.To])
					}
				}
			}
			ge = append(ge, ne)
		}
		r.GraphStates, r.GraphEdges = gs, ge
	}
	if !r.Exhaustive {
		return nil, nil, 0, 0, errNotCompared{"Go-side search not exhaustive (" + r.Cap + ")"}
	}
	if r.MemoMismatch > 0 {
		return nil, nil, 0, 0, fmt.Errorf("transition memo disagrees with the real code: %s", r.MemoFirstMismatch)
	}
	goErr := 0
	imgs := make([]psImg, len(r.GraphStates))
	keys := make([]string, len(r.GraphStates))
	byKey := map[string]int{}
	for i, s := range r.GraphStates {
		imgs[i] = psImage(s)
		keys[i] = imgs[i].key()
		if j, dup := byKey[keys[i]]; dup {
			return nil, nil, 0, 0, fmt.Errorf("two Go states have the same spec image (the image loses information): %d and %d\n%s", j, i, keys[i])
		}
		byKey[keys[i]] = i
	}
	nIn := len(r.GraphStates)
	for _, s := range outStates {
		im := psImage(s)
		imgs, keys = append(imgs, im), append(keys, im.key())
	}
	goSucc := make([]map[string]psEdge, nIn) // state -> "label(self)->key" -> edge
	for i := range goSucc {
		goSucc[i] = map[string]psEdge{}
	}
	for _, e := range r.GraphEdges {
		if e.To < 0 {
			goErr++
			continue
		}
		from := r.GraphStates[e.From]
		l := from.Locals[e.P]
		lbl := psLabel(e.P, psSpec(e.P, l), l[".pc"].AsString())
		goSucc[e.From][fmt.Sprintf("%s(%d)->%s", lbl, psSelves[e.P], keys[e.To])] = psEdge{lbl, psSelves[e.P], imgs[e.To]}
	}
	// TLC: exactly these states as initial states, one step of the spec's Next
	scratch := os.Getenv("VERIF_SCRATCH")
	if scratch == "" {
		scratch = os.TempDir()
	}
	dir, err := os.MkdirTemp(scratch, "c02ps-")
	if err != nil {
		return nil, nil, 0, 0, err
	}
	defer os.RemoveAll(dir)
	if _, err := retranslate("pgo/test/files/general/ProcedureSpaghetti.tla.expectpcal", "ProcedureSpaghetti", "", nil)(dir); err != nil {
		return nil, nil, 0, 0, err
	}
	tlaPath := filepath.Join(dir, "ProcedureSpaghetti.tla")
	src, err := os.ReadFile(tlaPath)
	if err != nil {
		return nil, nil, 0, 0, err
	}
	// pcal emits a conjunct consisting of nothing for the parameterless self tail call of
	// RecursiveProcRef0 (SANY rejects it): drop that vacuous line, nothing else
	fixed := psEmptyConjunct.ReplaceAll(src, nil)
	emptyConjuncts := strings.Count(string(src), "\n") - strings.Count(string(fixed), "\n")
	os.WriteFile(tlaPath, fixed, 0o644)
	os.Remove(filepath.Join(dir, "ProcedureSpaghetti.old"))
	varNames := make([]string, 0, 17)
	for n := range imgs[0] {
		varNames = append(varNames, n)
	}
	sort.Strings(varNames)
	var mc strings.Builder
	mc.WriteString("---- MODULE MCps ----\nEXTENDS ProcedureSpaghetti\n\nMCStates == {\n")
	for i, im := range imgs[:nIn] {
		mc.WriteString("  [")
		for j, n := range varNames {
			if j > 0 {
				mc.WriteString(", ")
			}
			fmt.Fprintf(&mc, "v_%s |-> %s", n, im[n])
		}
		mc.WriteString("]")
		if i+1 < nIn {
			mc.WriteString(",")
		}
		mc.WriteString("\n")
	}
	mc.WriteString("}\n\nMCInit == \\E r \\in MCStates :\n")
	for _, n := range varNames {
		fmt.Fprintf(&mc, "  /\\ %s = r.v_%s\n", n, n)
	}
	mc.WriteString("\n\\* level-2 states must satisfy the constraint to appear in the dump\nMCOneStep == TLCGet(\"level\") < 3\n====\n")
	os.WriteFile(filepath.Join(dir, "MCps.tla"), []byte(mc.String()), 0o644)
	os.WriteFile(filepath.Join(dir, "MC.cfg"), []byte("CONSTANT defaultInitValue = 0\nINIT MCInit\nNEXT Next\nCONSTRAINT MCOneStep\n"), 0o644)
	old := os.Getenv("VERIF_SCRATCH")
	os.Setenv("VERIF_SCRATCH", dir)
	ctx, cancel := context.WithTimeout(context.Background(), 20*time.Minute)
	defer cancel()
	g, out, err := tlabridge.DumpGraph(ctx, dir, "MCps", filepath.Join(dir, "MC.cfg"), 20*time.Minute, "-deadlock", "-workers", "4")
	os.Setenv("VERIF_SCRATCH", old)
	if err != nil {
		return nil, nil, 0, 0, fmt.Errorf("TLC (ProcedureSpaghetti): %w\n%s", err, tailStr(out, 2500))
	}
	specImg := map[string]psImg{}
	specKey := map[string]string{}
	for id, st := range g.States {
		m := psImg{}
		for n, v := range st.Vars {
			m[n] = ss.Canon(v)
		}
		specImg[id], specKey[id] = m, m.key()
	}
	specSucc := make([]map[string]psEdge, len(r.GraphStates))
	for i := range specSucc {
		specSucc[i] = map[string]psEdge{}
	}
	seenInit := map[int]bool{}
	for id, st := range g.States {
		if st.Initial {
			if i, ok := byKey[specKey[id]]; ok {
				seenInit[i] = true
			}
		}
	}
	if len(seenInit) != len(r.GraphStates) {
		for i := range r.GraphStates {
			if !seenInit[i] {
				return nil, nil, 0, 0, fmt.Errorf("TLC accepted %d of %d Go-side states as initial states; first missing (rendering problem):\n%s\n%s", len(seenInit), len(r.GraphStates), keys[i], tailStr(out, 1500))
			}
		}
	}
	specEdges := 0
	for _, e := range g.Edges {
		if e.Action == "Terminating" && e.From == e.To {
			continue
		}
		i, ok := byKey[specKey[e.From]]
		if !ok || !g.States[e.From].Initial {
			continue
		}
		lbl, self := e.Action, -1
		if j := strings.Index(lbl, "("); j >= 0 {
			fmt.Sscan(strings.TrimSuffix(lbl[j+1:], ")"), &self)
			lbl = lbl[:j]
		}
		if self < 0 { // `process (P = id)`: the action takes no argument; its label is unique
			for p, sv := range psSelves {
				l := r.GraphStates[i].Locals[p]
				if psLabel(p, psSpec(p, l), l[".pc"].AsString()) == lbl {
					self = sv
				}
			}
		}
		specSucc[i][fmt.Sprintf("%s(%d)->%s", lbl, self, specKey[e.To])] = psEdge{lbl, self, specImg[e.To]}
		specEdges++
	}
	// compare
	type diff struct {
		key, what string
	}
	counts := map[string]int{}
	first, firstOrd, firstAt := map[string]string{}, map[string]string{}, map[string]psReplay{}
	goEdges := 0
	for i := range r.GraphStates {
		goEdges += len(goSucc[i])
		// group by (label, self)
		type ls struct {
			l string
			s int
		}
		gs, sp := map[ls][]psEdge{}, map[ls][]psEdge{}
		for k, e := range goSucc[i] {
			if _, ok := specSucc[i][k]; !ok {
				gs[ls{e.label, e.self}] = append(gs[ls{e.label, e.self}], e)
			}
		}
		for k, e := range specSucc[i] {
			if _, ok := goSucc[i][k]; !ok {
				sp[ls{e.label, e.self}] = append(sp[ls{e.label, e.self}], e)
			}
		}
		seen := map[ls]bool{}
		for a := range gs {
			seen[a] = true
		}
		for a := range sp {
			seen[a] = true
		}
		for a := range seen {
			key := psKeyOther
			what := ""
			if len(gs[a]) == 1 && len(sp[a]) == 1 {
				key, what = psClassify(a.l, a.s, imgs[i], gs[a][0].to, sp[a][0].to)
			} else {
				what = fmt.Sprintf("step %s(%d): %d successors only in the generated Go, %d only in the spec", a.l, a.s, len(gs[a]), len(sp[a]))
			}
			counts[key]++
			if w := fmt.Sprintf("%s\npre-state:\n%s", what, keys[i]); first[key] == "" || psOrd(a.s, keys[i]+what) < firstOrd[key] {
				first[key], firstOrd[key] = w, psOrd(a.s, keys[i]+what)
				firstAt[key] = psReplay{Pair: "gotests-ProcedureSpaghetti", Label: a.l, Self: a.s, PreState: imgs[i]}
			}
		}
	}
	for _, k := range []string{psKeyParam, psKeyReturn, psKeyOther} {
		if counts[k] > 0 {
			viol = append(viol, hres.Viol{Key: k, What: fmt.Sprintf("%d (state, step) pairs; first: %s", counts[k], first[k]), Replay: firstAt[k]})
		}
	}
	if goErr > 0 {
		viol = append(viol, hres.Viol{Key: "ProcedureSpaghetti/go-error-edge", What: fmt.Sprintf("the generated Go fails on %d transitions", goErr), Replay: replay{"gotests-ProcedureSpaghetti"}})
	}
	evidence = map[string]any{"pair": "gotests-ProcedureSpaghetti", "mode": "step equality from every Go-reachable state (states injected into TLC as initial states; all 17 variables incl. stack compared)",
		"tier_scope": map[bool]string{true: "full product of all six processes", false: "V1-group (Pross1, Pross2, Pross4) and the rest (Pross3, Pross3Bis, Pross5) not interleaved with each other"}[env.Thorough()], "go_reachable_states_given_to_tlc": len(r.GraphStates), "go_steps": goEdges, "spec_steps": specEdges, "go_error_edges": goErr,
		"differing_state_step_pairs_by_key": counts, "empty_conjunct_lines_removed_from_pcal_output": emptyConjuncts, "tlc": tailStr(out, 300)}
	return viol, evidence, int64(len(r.GraphStates)), int64(goEdges), nil
}

// psClassify attributes one differing step (one Go successor, one spec successor).
func psClassify(label string, self int, pre, goTo, specTo psImg) (key, what string) {
	var differ []string
	for n := range goTo {
		if goTo[n] != specTo[n] {
			differ = append(differ, n)
		}
	}
	sort.Strings(differ)
	desc := fmt.Sprintf("step %s(%d): the generated Go and the spec's translation disagree on %v:", label, self, differ)
	for _, n := range differ {
		desc += fmt.Sprintf("\n  %s' = %s (Go)  vs  %s (spec)", n, goTo[n], specTo[n])
	}
	switch label {
	case "Proc1lbl2_P", "Proc1lbl2_Pr", "Proc1lbl2": // Proc11(b0), Proc12(b1), Proc13(b2)
		if len(differ) == 1 && (differ[0] == "V1" || differ[0] == "V2" || differ[0] == "c") {
			var preV, specV, bSelf int
			fmt.Sscan(pre[differ[0]], &preV)
			fmt.Sscan(specTo[differ[0]], &specV)
			bSelf = psFnAt(pre["b"], self)
			if specV == preV+bSelf {
				return psKeyParam, desc + fmt.Sprintf("\n  the emitted PlusCal body of this specialised copy reads `b` (Proc10's parameter, b[%d] = %d) instead of its own renamed parameter", self, bSelf)
			}
		}
	case "Proc1lbl1_", "Proc1lbl1_P", "Proc1lbl1_Pr":
		if len(differ) == 1 && differ[0] == "stack" && psOnlyDiff(goTo["stack"], specTo["stack"], strings.TrimPrefix(label, "Proc1lbl1")) {
			return psKeyReturn, desc + "\n  pcal renamed this copy's label Proc1lbl2 but not the return address stored by `call Proc2k(); goto Proc1lbl2;`"
		}
	}
	return psKeyOther, desc
}

// psOrd orders candidate witnesses: the instance of the original report (Pross2) first, then by pre-state.
func psOrd(self int, k string) string {
	if self == 2 {
		return "0" + k
	}
	return "1" + k
}

// psOnlyDiff: a and b are equal except that at one place a has extra where b has nothing, right
// after the text "Proc1lbl2.
func psOnlyDiff(a, b, extra string) bool {
	i := 0
	for i < len(a) && i < len(b) && a[i] == b[i] {
		i++
	}
	j := 0
	for j < len(a)-i && j < len(b)-i && a[len(a)-1-j] == b[len(b)-1-j] {
		j++
	}
	// the common prefix may have swallowed a leading "_" of extra shared with nothing; test both alignments
	mid, rest := a[i:len(a)-j], b[i:len(b)-j]
	if rest != "" || len(a)-len(b) != len(extra) {
		return false
	}
	_ = mid
	for k := 0; k+len(extra) <= len(a); k++ {
		if a[k:k+len(extra)] == extra && a[:k]+a[k+len(extra):] == b && strings.HasSuffix(a[:k], `"Proc1lbl2`) {
			return true
		}
	}
	return false
}

// psFnAt reads f[self] from the canonical rendering of a function over the process set
// ((1 :> x @@ 2 :> y @@ ...), keys sorted as strings).
func psFnAt(canon string, self int) int {
	m := regexp.MustCompile(fmt.Sprintf(`(?:^\(|@@ )%d :> (-?\d+)`, self)).FindStringSubmatch(canon)
	if m == nil {
		return 0
	}
	var v int
	fmt.Sscan(m[1], &v)
	return v
}

package c02

// Deep step equality: "from any reachable state".  Full-graph equality (c02_test.go) needs
// instances small enough for TLC and the Go side to enumerate completely, which keeps them near
// the initial state.  This sub-check takes reachable states that lie deep in a bigger instance
// (found by a seeded, delay-bounded search of the Go side in the spec's own bag-network mode),
// gives exactly those states to TLC as initial states, lets TLC compute their one-step successors
// (INIT = disjunction of the states, NEXT = the spec's Next, CONSTRAINT TLCGet("level") < 2) and
// demands that, state by state and action by action, the generated Go has the same successors
// under the spec's *unrestricted* nondeterminism.

import (
	"context"
	"fmt"
	"os"
	"path/filepath"
	"sort"
	"strings"
	"time"

	"verif/mc/hres"
	ss "verif/mc/specstep"
	"verif/mc/sys/raftkvs"
	"verif/mc/tlabridge"
)

type deepPair struct {
	Name    string
	SpecDir string
	Module  string
	// Consts are the CONSTANT lines of the TLC configuration.
	Consts string
	// ExtraInit gives, as TLA+ conjuncts, the spec variables that have no Go image
	// (constant process-parameter tables).
	ExtraInit []string
	// Explore builds the (seeded) system used to *find* states; Full builds the system with the
	// spec's unrestricted environment used to compute their successors.  Both must use the same
	// representation of globals (the spec's).
	Explore   func() (*ss.System, error)
	Full      func() *ss.System
	Delays    int
	MaxDev    int
	MaxStates int
	pair      *pair // rename tables etc.
	Quick     bool
}

func tlaText(canon string) string {
	return strings.ReplaceAll(canon, `"defaultInitValue"`, "defaultInitValue")
}

type deepResult struct {
	States, SpecEdges, GoEdges int
	Diffs                      []string
	GoErrorEdges               int
	NotCompared                string
}

func deepCompare(d *deepPair, env hres.Env) (*deepResult, error) {
	ex, err := d.Explore()
	if err != nil {
		return &deepResult{NotCompared: "seed not applicable: " + err.Error()}, nil
	}
	// 1. find deep reachable states (deterministic selection: the MaxStates smallest hashes)
	var all []*ss.State
	for _, ord := range ex.Orders() {
		r := ex.DelayBounded(ss.DelayOptions{MaxDelays: d.Delays, MaxDev: d.MaxDev, MaxDepth: 200, Order: ord, Workers: env.Workers,
			Deadline: time.Now().Add(60 * time.Second), KeepStates: true})
		if r.MemoMismatch > 0 {
			return nil, fmt.Errorf("transition memo disagrees with the real code: %s", r.MemoFirstMismatch)
		}
		all = append(all, r.GraphStates...)
	}
	full := d.Full()
	uniq := map[string]*ss.State{}
	for _, s := range all {
		s.Obs = ""
		uniq[keyOf(specImage(full, d.pair, s))] = s
	}
	keys := make([]string, 0, len(uniq))
	for k := range uniq {
		keys = append(keys, k)
	}
	sort.Slice(keys, func(i, j int) bool { return lessHash(uniq[keys[i]].Hash(), uniq[keys[j]].Hash()) })
	if len(keys) > d.MaxStates {
		keys = keys[:d.MaxStates]
	}
	res := &deepResult{States: len(keys)}
	if len(keys) == 0 {
		res.NotCompared = "no states found"
		return res, nil
	}
	// 2. Go successors under the unrestricted environment
	goEdges := map[string]bool{}
	for _, k := range keys {
		s := uniq[k]
		for p := range full.Procs {
			for _, a := range full.Succ(s, p) {
				switch a.Kind {
				case ss.Failed:
					res.GoErrorEdges++
				case ss.Commit:
					pc := s.PC(p)
					act := stripArch(pc) + "(" + ss.Canon(full.Procs[p].Self) + ")"
					if d.pair.ScalarArch[pc[:strings.Index(pc, ".")]] {
						act = stripArch(pc)
					}
					goEdges[k+"--"+act+"->\n"+keyOf(specImage(full, d.pair, a.Next))] = true
				}
			}
		}
	}
	// 3. TLC successors of exactly these states
	scratch := os.Getenv("VERIF_SCRATCH")
	if scratch == "" {
		scratch = os.TempDir()
	}
	dir, err := os.MkdirTemp(scratch, "c02deep-")
	if err != nil {
		return nil, err
	}
	defer os.RemoveAll(dir)
	src, err := os.ReadFile(filepath.Join(repo(), d.SpecDir, d.Module+".tla"))
	if err != nil {
		return nil, err
	}
	os.WriteFile(filepath.Join(dir, d.Module+".tla"), src, 0o644)
	var mc strings.Builder
	fmt.Fprintf(&mc, "---- MODULE MCdeep ----\nEXTENDS %s, TLC\n\n", d.Module)
	for i, k := range keys {
		img := specImage(full, d.pair, uniq[k])
		names := make([]string, 0, len(img))
		for n := range img {
			names = append(names, n)
		}
		sort.Strings(names)
		fmt.Fprintf(&mc, "S%d ==\n", i)
		for _, n := range names {
			fmt.Fprintf(&mc, "  /\\ %s = %s\n", n, tlaText(img[n]))
		}
		for _, e := range d.ExtraInit {
			fmt.Fprintf(&mc, "  /\\ %s\n", e)
		}
		mc.WriteString("\n")
	}
	mc.WriteString("MCInit ==\n")
	for i := range keys {
		fmt.Fprintf(&mc, "  \\/ S%d\n", i)
	}
	mc.WriteString("\n\\* level-2 states must satisfy the constraint to appear in the dump (TLC omits states that violate it)\nMCOneStep == TLCGet(\"level\") < 3\n====\n")
	os.WriteFile(filepath.Join(dir, "MCdeep.tla"), []byte(mc.String()), 0o644)
	cfg := "CONSTANT defaultInitValue = defaultInitValue\n" + d.Consts + "\nINIT MCInit\nNEXT Next\nCONSTRAINT MCOneStep\n"
	os.WriteFile(filepath.Join(dir, "MC.cfg"), []byte(cfg), 0o644)
	ctx, cancel := context.WithTimeout(context.Background(), 20*time.Minute)
	defer cancel()
	g, out, err := tlabridge.DumpGraph(ctx, dir, "MCdeep", filepath.Join(dir, "MC.cfg"), 20*time.Minute, "-deadlock", "-workers", "4")
	if err != nil {
		return nil, fmt.Errorf("TLC (deep): %w\n%s", err, tailStr(out, 2500))
	}
	goVars := specImage(full, d.pair, full.Init)
	specKey := map[string]string{}
	for id, st := range g.States {
		m := map[string]string{}
		for n, v := range st.Vars {
			if _, ok := goVars[n]; ok {
				m[n] = ss.Canon(v)
			}
		}
		specKey[id] = keyOf(m)
	}
	initSet := map[string]bool{}
	for _, k := range keys {
		initSet[k] = true
	}
	specEdges := map[string]bool{}
	for _, e := range g.Edges {
		if e.Action == "Terminating" && e.From == e.To {
			continue
		}
		if !initSet[specKey[e.From]] {
			continue // (cannot happen with the level constraint; defensive)
		}
		specEdges[specKey[e.From]+"--"+e.Action+"->\n"+specKey[e.To]] = true
	}
	// every given state must have been accepted by TLC as an initial state
	seenInit := map[string]bool{}
	for id, st := range g.States {
		if st.Initial {
			seenInit[specKey[id]] = true
		}
	}
	for _, k := range keys {
		if !seenInit[k] {
			res.Diffs = append(res.Diffs, "TLC did not reproduce this Go-side state as an initial state (rendering problem):\n"+k)
			break
		}
	}
	res.SpecEdges, res.GoEdges = len(specEdges), len(goEdges)
	for k := range specEdges {
		if !goEdges[k] && len(res.Diffs) < 3 {
			res.Diffs = append(res.Diffs, "step only in the spec:\n"+k)
		}
	}
	for k := range goEdges {
		if !specEdges[k] && len(res.Diffs) < 6 {
			res.Diffs = append(res.Diffs, "step only in the generated Go:\n"+k)
		}
	}
	return res, nil
}

func lessHash(a, b [16]byte) bool {
	for i := range a {
		if a[i] != b[i] {
			return a[i] < b[i]
		}
	}
	return false
}

func deepPairs(all []*pair) []*deepPair {
	find := func(prefix string) *pair {
		for _, p := range all {
			if strings.HasPrefix(p.Name, prefix) {
				return p
			}
		}
		panic("no pair " + prefix)
	}
	raftPair := find("raftkvs-")
	raftConsts := func(ns int) string {
		return fmt.Sprintf(`CONSTANT ExploreFail = FALSE
CONSTANT Debug = FALSE
CONSTANT NumServers = %d
CONSTANT NumClients = 1
CONSTANT BufferSize = 3
CONSTANT MaxTerm = 5
CONSTANT MaxCommitIndex = 5
CONSTANT MaxNodeFail = 1
CONSTANT LogConcat = 2
CONSTANT LogPop = 1
CONSTANT LeaderTimeoutReset = TRUE
CONSTANT NumRequests = 1
CONSTANT AllStrings = {"s1"}`, ns)
	}
	raftExtra := []string{
		`requestVoteSrvId = [i \in ServerRequestVoteSet |-> i - 1*NumServers]`,
		`appendEntriesSrvId = [i \in ServerAppendEntriesSet |-> i - 2*NumServers]`,
		`advanceCommitIndexSrvId = [i \in ServerAdvanceCommitIndexSet |-> i - 3*NumServers]`,
		`becomeLeaderSrvId = [i \in ServerBecomeLeaderSet |-> i - 4*NumServers]`,
		`crasherSrvId = [i \in ServerCrasherSet |-> i - 5*NumServers]`,
		`timeout = [self \in ClientSet |-> FALSE]`,
		`srvId4 = [self \in ServerCrasherSet |-> crasherSrvId[self]]`,
	}
	var out []*deepPair
	for _, dc := range []struct {
		ns         int
		seed       string
		delays, mx int
		quick      bool
	}{{2, "commit-lagging", 2, 150, true}, {3, "commit2-lagging", 2, 400, false}, {3, "elect", 3, 400, false}} {
		dc := dc
		base := raftkvs.Config{NumServers: dc.ns, NumClients: 1, MaxTerm: 5, MaxCommitIndex: 5, BufferSize: 3, AllStrings: []string{"s1"}}
		out = append(out, &deepPair{
			Name: fmt.Sprintf("raftkvs-deep-S%d-%s", dc.ns, dc.seed), SpecDir: "systems/raftkvs", Module: "raftkvs", Consts: raftConsts(dc.ns), ExtraInit: raftExtra,
			Explore: func() (*ss.System, error) {
				c := base
				c.Budgeted = true
				return raftkvs.Build(c, dc.seed, nil)
			},
			Full:   func() *ss.System { return raftkvs.New(base) },
			Delays: dc.delays, MaxDev: 1, MaxStates: dc.mx, pair: raftPair, Quick: dc.quick,
		})
	}
	return out
}

// C02: generated Go takes exactly the steps its spec's PlusCal translation prescribes.
// For every covered pair: G_spec (TLC, complete labelled state graph of the checked-in TLA+
// translation) must equal G_go (E4 BFS over the real generated critical sections with the spec's
// mapping macros), state by state and labelled edge by labelled edge.
package c02

import (
	"context"
	"encoding/json"
	"fmt"
	"os"
	"path/filepath"
	"sort"
	"strings"
	"sync"
	"testing"
	"time"

	"github.com/DistCompiler/pgo/distsys/tla"
	"verif/mc/hres"
	ss "verif/mc/specstep"
	"verif/mc/tlabridge"
)

// pair is one spec/Go pair with a constant assignment.
type pair struct {
	Name       string
	SpecDir    string // relative to the repo
	Module     string
	Cfg        string // TLC configuration text
	Sys        func() *ss.System
	Constraint func(*ss.State) bool
	// Rename maps a Go local ("Arch.var") to the variable name the PlusCal translation gave it
	// (only where the translator had to rename because of clashes); "-" drops it.
	Rename map[string]string
	// SkipSpecVars: spec variables that have no Go image (none expected)
	SkipSpecVars []string
	// Prepare, if set, writes the TLA+ module(s) into dir itself (copy a spec or .expectpcal, run
	// pcal, add an MC module defining operator constants) instead of comparePair copying
	// SpecDir/Module.tla; it returns the root module handed to TLC ("" = Module).
	Prepare func(dir string) (root string, err error)
	// ScalarArch: archetypes instantiated by `process (P = id)`: their locals are plain (not
	// self-indexed) variables in the translation.
	ScalarArch map[string]bool
	// SkipGoGlobals: environment bookkeeping of the Go-side model that is not a spec variable
	SkipGoGlobals []string
	Quick         bool
}

func repo() string {
	if r := os.Getenv("VERIF_REPO"); r != "" {
		return r
	}
	return "/repo"
}

func stripArch(pc string) string {
	if i := strings.Index(pc, "."); i >= 0 {
		return pc[i+1:]
	}
	return pc
}

func normNil(v tla.Value) tla.Value {
	if v.Equal(tla.Value{}) {
		return tla.MakeString("defaultInitValue")
	}
	return v
}

// specImage renders a Go-side state as the spec's variables.
func specImage(sys *ss.System, p *pair, s *ss.State) map[string]string {
	out := map[string]string{}
	for n, v := range s.Globals {
		out[n] = ss.Canon(normNil(v))
	}
	for _, n := range p.SkipGoGlobals {
		delete(out, n)
	}
	fn := map[string][]tla.RecordField{}
	for i, l := range s.Locals {
		self := sys.Procs[i].Self
		for n, v := range l {
			switch {
			case n == ".pc":
				fn["pc"] = append(fn["pc"], tla.RecordField{Key: self, Value: tla.MakeString(stripArch(v.AsString()))})
				continue
			case n == ".stack":
				continue // only archetypes with procedures have a stack variable (covered by C04)
			}
			if v.IsString() && strings.HasPrefix(v.AsString(), "&") {
				continue // ref-parameter indirection, not a spec variable
			}
			name := n[strings.Index(n, ".")+1:]
			if r, ok := p.Rename[n]; ok {
				name = r
			}
			if name == "-" {
				continue
			}
			if p.ScalarArch[n[:strings.Index(n, ".")]] {
				out[name] = ss.Canon(normNil(v))
				continue
			}
			fn[name] = append(fn[name], tla.RecordField{Key: self, Value: normNil(v)})
		}
	}
	for n, f := range fn {
		out[n] = ss.Canon(tla.MakeRecord(f))
	}
	return out
}

func keyOf(m map[string]string) string {
	names := make([]string, 0, len(m))
	for n := range m {
		names = append(names, n)
	}
	sort.Strings(names)
	var b strings.Builder
	for _, n := range names {
		b.WriteString(n)
		b.WriteString("=")
		b.WriteString(m[n])
		b.WriteString("\n")
	}
	return b.String()
}

type cmpResult struct {
	SpecStates, GoStates, SpecEdges, GoEdges int
	OnlySpec, OnlyGo                         []string
	EdgeDiffs                                []string
	TLCOutTail                               string
	GoErrorEdges                             int
}

func comparePair(p *pair, env hres.Env) (*cmpResult, error) {
	scratch := os.Getenv("VERIF_SCRATCH")
	if scratch == "" {
		scratch = os.TempDir()
	}
	dir, err := os.MkdirTemp(scratch, "c02-")
	if err != nil {
		return nil, err
	}
	defer os.RemoveAll(dir)
	root := p.Module
	if p.Prepare != nil {
		r, err := p.Prepare(dir)
		if err != nil {
			return nil, fmt.Errorf("prepare: %w", err)
		}
		if r != "" {
			root = r
		}
	} else {
		src, err := os.ReadFile(filepath.Join(repo(), p.SpecDir, p.Module+".tla"))
		if err != nil {
			return nil, err
		}
		os.WriteFile(filepath.Join(dir, p.Module+".tla"), src, 0o644)
	}
	os.WriteFile(filepath.Join(dir, "MC.cfg"), []byte(p.Cfg), 0o644)
	ctx, cancel := context.WithTimeout(context.Background(), 20*time.Minute)
	defer cancel()
	g, out, err := tlabridge.DumpGraph(ctx, dir, root, filepath.Join(dir, "MC.cfg"), 20*time.Minute, "-deadlock", "-workers", "4")
	if err != nil {
		return nil, fmt.Errorf("TLC: %w\n%s", err, tailStr(out, 2000))
	}
	res := &cmpResult{TLCOutTail: tailStr(out, 400)}
	sys := p.Sys()
	goVars := specImage(sys, p, sys.Init)
	// spec side
	specKey := map[string]string{} // id -> key
	specSet := map[string]bool{}
	for id, st := range g.States {
		m := map[string]string{}
		for n, v := range st.Vars {
			m[n] = ss.Canon(v)
		}
		for _, sk := range p.SkipSpecVars {
			delete(m, sk)
		}
		for n, v := range m {
			// a process-local variable of an archetype with no instance (empty process set) is the empty function
			if _, ok := goVars[n]; !ok && v == "<<>>" {
				delete(m, n)
			}
		}
		k := keyOf(m)
		specKey[id] = k
		specSet[k] = true
	}
	specEdges := map[string]bool{}
	for _, e := range g.Edges {
		if e.Action == "Terminating" && e.From == e.To {
			continue // the translator's stuttering step on the all-Done state is no process's step
		}
		specEdges[specKey[e.From]+"--"+e.Action+"->\n"+specKey[e.To]] = true
	}
	// Go side
	// the Go side gets its own generous deadline: a pair is either compared completely or reported as
	// not compared - a slow machine must never turn into a verdict
	goDeadline := time.Now().Add(15 * time.Minute)
	r := sys.BFS(ss.BFSOptions{Workers: env.Workers, Deadline: goDeadline, Constraint: p.Constraint, KeepGraph: true, NoMemo: false})
	if !r.Exhaustive {
		return nil, errNotCompared{fmt.Sprintf("Go-side search not exhaustive (%s)", r.Cap)}
	}
	if r.MemoMismatch > 0 {
		return nil, fmt.Errorf("transition memo disagrees with the real code: %s", r.MemoFirstMismatch)
	}
	goKey := make([]string, len(r.GraphStates))
	goSet := map[string]bool{}
	// TLC drops states that violate the CONSTRAINT (they are neither nodes nor edge targets of its dump)
	inside := make([]bool, len(r.GraphStates))
	for i, s := range r.GraphStates {
		inside[i] = p.Constraint == nil || p.Constraint(s)
		if !inside[i] {
			continue
		}
		goKey[i] = keyOf(specImage(sys, p, s))
		goSet[goKey[i]] = true
	}
	goEdges := map[string]bool{}
	for _, e := range r.GraphEdges {
		if e.To < 0 {
			res.GoErrorEdges++
			continue
		}
		if !inside[e.From] || !inside[e.To] {
			continue
		}
		pc := r.GraphStates[e.From].PC(e.P)
		act := stripArch(pc) + "(" + ss.Canon(sys.Procs[e.P].Self) + ")"
		if p.ScalarArch[pc[:strings.Index(pc, ".")]] {
			act = stripArch(pc) // `process (P = id)`: the translation's actions take no argument
		}
		goEdges[goKey[e.From]+"--"+act+"->\n"+goKey[e.To]] = true
	}
	if d := os.Getenv("VERIF_C02_DUMP"); d != "" { // debugging aid: dump both key sets
		dump := func(name string, m map[string]bool) {
			var ks []string
			for k := range m {
				ks = append(ks, k)
			}
			sort.Strings(ks)
			b, _ := json.Marshal(ks)
			os.WriteFile(filepath.Join(d, p.Name+"."+name+".json"), b, 0o644)
		}
		dump("spec", specSet)
		dump("go", goSet)
	}
	res.SpecStates, res.GoStates, res.SpecEdges, res.GoEdges = len(specSet), len(goSet), len(specEdges), len(goEdges)
	for k := range specSet {
		if !goSet[k] && len(res.OnlySpec) < 3 {
			res.OnlySpec = append(res.OnlySpec, k)
		}
	}
	for k := range goSet {
		if !specSet[k] && len(res.OnlyGo) < 3 {
			res.OnlyGo = append(res.OnlyGo, k)
		}
	}
	for k := range specEdges {
		if !goEdges[k] && len(res.EdgeDiffs) < 3 {
			res.EdgeDiffs = append(res.EdgeDiffs, "spec-only edge:\n"+k)
		}
	}
	for k := range goEdges {
		if !specEdges[k] && len(res.EdgeDiffs) < 6 {
			res.EdgeDiffs = append(res.EdgeDiffs, "go-only edge:\n"+k)
		}
	}
	return res, nil
}

type errNotCompared struct{ why string }

func (e errNotCompared) Error() string { return e.why }

func tailStr(s string, n int) string {
	if len(s) > n {
		return s[len(s)-n:]
	}
	return s
}

type replay struct {
	Pair string `json:"pair"`
}

func TestCheck(t *testing.T) {
	hres.Main(t, func(env hres.Env) *hres.Result {
		res := &hres.Result{Property: "C02", Level: "model_checking"}
		only := ""
		if env.Replay != nil {
			var r replay
			json.Unmarshal(env.Replay, &r)
			only = r.Pair
		}
		if o := os.Getenv("VERIF_C02_ONLY"); o != "" {
			only = o
		}
		var states, trans int64
		var per []any
		var samples []any
		var notCovered []string
		allCompared := true
		var todo []*pair
		for _, p := range pairs() {
			if only != "" && p.Name != only {
				continue
			}
			if only == "" && !env.Thorough() && !p.Quick {
				notCovered = append(notCovered, p.Name+" (thorough tier only)")
				continue
			}
			todo = append(todo, p)
		}
		// pairs are independent: run a few at a time (most of a small pair's cost is JVM start-up)
		type outcome struct {
			c   *cmpResult
			err error
		}
		results := make([]outcome, len(todo))
		conc := 4
		if env.Thorough() {
			conc = 2 // thorough pairs have dumps of up to a GB: bound memory
		}
		sem := make(chan struct{}, conc)
		var wg sync.WaitGroup
		penv := env
		penv.Workers = max(2, env.Workers/3)
		for i, p := range todo {
			wg.Add(1)
			go func() {
				defer wg.Done()
				sem <- struct{}{}
				defer func() { <-sem }()
				c, err := comparePair(p, penv)
				results[i] = outcome{c, err}
			}()
		}
		wg.Wait()
		for i, p := range todo {
			c, err := results[i].c, results[i].err
			if nc, ok := err.(errNotCompared); ok {
				notCovered = append(notCovered, p.Name+" (not compared: "+nc.why+")")
				allCompared = false
				continue
			}
			if err != nil {
				t.Fatalf("pair %s: %v", p.Name, err)
			}
			states += int64(c.GoStates)
			trans += int64(c.GoEdges)
			per = append(per, map[string]any{"pair": p.Name, "spec_states": c.SpecStates, "go_states": c.GoStates, "spec_edges": c.SpecEdges, "go_edges": c.GoEdges, "go_error_edges": c.GoErrorEdges})
			bad := func(kind, what string) {
				res.Violations = append(res.Violations, hres.Viol{Key: p.Name + "/" + kind, What: what, Replay: replay{p.Name}})
			}
			if len(c.OnlySpec) > 0 {
				bad("state-only-in-spec", fmt.Sprintf("%d spec states vs %d Go states; a state the spec reaches but the generated Go does not:\n%s", c.SpecStates, c.GoStates, c.OnlySpec[0]))
			}
			if len(c.OnlyGo) > 0 {
				bad("state-only-in-go", fmt.Sprintf("%d spec states vs %d Go states; a state the generated Go reaches but the spec does not:\n%s", c.SpecStates, c.GoStates, c.OnlyGo[0]))
			}
			if len(c.EdgeDiffs) > 0 && len(c.OnlySpec) == 0 && len(c.OnlyGo) == 0 {
				bad("edge-differs", c.EdgeDiffs[0])
			}
			if c.GoErrorEdges > 0 {
				bad("go-error-edge", fmt.Sprintf("the generated Go fails (assertion/panic) on %d transitions where TLC finished without error", c.GoErrorEdges))
			}
			if len(samples) < 2 {
				samples = append(samples, map[string]any{"pair": p.Name, "tlc": c.TLCOutTail})
			}
		}
		// deep step equality on states far from the initial state
		var deep []any
		for _, d := range deepPairs(pairs()) {
			if only != "" && d.Name != only {
				continue
			}
			if only == "" && !env.Thorough() && !d.Quick {
				notCovered = append(notCovered, d.Name+" (thorough tier only)")
				continue
			}
			dr, err := deepCompare(d, env)
			if err != nil {
				t.Fatalf("deep pair %s: %v", d.Name, err)
			}
			deep = append(deep, map[string]any{"pair": d.Name, "deep_states_given_to_tlc": dr.States, "spec_steps": dr.SpecEdges, "go_steps": dr.GoEdges, "go_error_edges": dr.GoErrorEdges, "not_compared": dr.NotCompared})
			if dr.NotCompared != "" {
				notCovered = append(notCovered, d.Name+" ("+dr.NotCompared+")")
				continue
			}
			states += int64(dr.States)
			trans += int64(dr.GoEdges)
			if len(dr.Diffs) > 0 {
				res.Violations = append(res.Violations, hres.Viol{Key: d.Name + "/deep-step-differs", What: dr.Diffs[0], Replay: replay{d.Name}})
			}
			if dr.GoErrorEdges > 0 {
				res.Violations = append(res.Violations, hres.Viol{Key: d.Name + "/deep-go-error-edge", What: fmt.Sprintf("the generated Go fails on %d steps from deep reachable states where TLC computed successors without error", dr.GoErrorEdges), Replay: replay{d.Name}})
			}
		}
		var extra []any
		for _, x := range extraChecks() { // self-contained sub-checks with their own keys (procs_sys_test.go)
			if only != "" && x.Name != only {
				continue
			}
			if only == "" && !env.Thorough() && !x.Quick {
				notCovered = append(notCovered, x.Name+" (thorough tier only)")
				continue
			}
			v, ev, st, tr, err := x.Run(env)
			if nc, ok := err.(errNotCompared); ok {
				notCovered = append(notCovered, x.Name+" (not compared: "+nc.why+")")
				allCompared = false
				continue
			}
			if err != nil {
				t.Fatalf("sub-check %s: %v", x.Name, err)
			}
			extra = append(extra, ev)
			states += st
			trans += tr
			res.Violations = append(res.Violations, v...)
		}
		res.Coverage = map[string]any{"step_equality_sub_checks": extra, "deep_step_equality": deep, "states": states, "transitions": trans, "traces_validated_against_impl": trans, "samples": samples, "pairs": per, "not_covered": notCovered,
			"exhaustive": allCompared, "explanation": "per pair: complete TLC state graph (-dump dot,actionlabels) == complete Go-side graph (every reachable spec state injected into the real generated critical sections; all choice resolutions); traces_validated = every edge of the model's graph is matched by an execution of the implementation"}
		return res
	})
}

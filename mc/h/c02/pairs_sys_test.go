package c02

import (
	"context"
	"fmt"
	"os"
	"path/filepath"
	"strings"
	"time"

	ss "verif/mc/specstep"
	"verif/mc/sys/dqueue"
	"verif/mc/sys/gcounter"
	"verif/mc/sys/gotests"
	"verif/mc/sys/loadbalancer"
	"verif/mc/sys/nestedcrdtimpl"
	"verif/mc/sys/proxy"
	"verif/mc/sys/shcounter"
	"verif/mc/sys/shopcart"
	"verif/mc/tlabridge"
)

// retranslate is a pair.Prepare: it copies /repo/<srcRel> to <dir>/<module>.tla and lets the
// installed PlusCal translator (`pcal.trans -nocfg`) regenerate the TLA+ translation from the
// file's own `--algorithm` text, i.e. from the PLUSCAL TRANSLATION block PGo wrote (pcal does not
// know `--mpcal` and translates the first `--algorithm` it finds).  Used where the TLA+
// translation checked in below that block is stale (load_balancer.tla, proxy.tla) or absent
// (compiler tests: the PlusCal PGo is expected to emit is X.tla.expectpcal).  extra = additional
// modules (an MC module defining operator constants / the state constraint); root = module TLC checks.
func retranslate(srcRel, module, root string, extra map[string]string) func(dir string) (string, error) {
	return func(dir string) (string, error) {
		src, err := os.ReadFile(filepath.Join(repo(), srcRel))
		if err != nil {
			return "", err
		}
		if err := os.WriteFile(filepath.Join(dir, module+".tla"), src, 0o644); err != nil {
			return "", err
		}
		ctx, cancel := context.WithTimeout(context.Background(), 5*time.Minute)
		defer cancel()
		out, err := tlabridge.RunTool(ctx, dir, 5*time.Minute, "pcal.trans", "-nocfg", module+".tla")
		if err != nil || !strings.Contains(out, "Translation completed") {
			return "", fmt.Errorf("pcal %s: %v\n%s", srcRel, err, out)
		}
		for n, txt := range extra {
			if err := os.WriteFile(filepath.Join(dir, n), []byte(txt), 0o644); err != nil {
				return "", err
			}
		}
		return root, nil
	}
}

// mcNested instantiates NestedCRDTImpl's operator constants as a G-Counter over RESOURCE_IDS (the same
// definitions as verif/mc/sys/nestedcrdtimpl).
const mcNested = `---- MODULE MCNested ----
EXTENDS NestedCRDTImpl
MCZero == [r \in RESOURCE_IDS |-> 0]
MCMax(a, b) == IF a > b THEN a ELSE b
MCCombine(a, b) == [k \in DOMAIN a |-> MCMax(a[k], b[k])]
MCUpdate(s, st, v) == [st EXCEPT ![s] = @ + v]
RECURSIVE MCSum(_, _)
MCSum(f, d) == IF d = {} THEN 0 ELSE LET x == CHOOSE x \in d : TRUE IN f[x] + MCSum(f, d \ {x})
MCView(st) == MCSum(st, DOMAIN st)
====
`

func tlaBool(b bool) string {
	if b {
		return "TRUE"
	}
	return "FALSE"
}

// morePairs lists the spec/Go pairs of the remaining systems and of the compiler's test programs
// (owned by the author of the C16 system models).
func morePairs() []*pair {
	var out []*pair

	// ---- dqueue (checked-in translation is current) ----
	for _, c := range []struct {
		cons, buf int
		quick     bool
	}{{2, 2, true}, {3, 3, false}, {3, 1, false}} {
		cfg := dqueue.Config{NumConsumers: c.cons, BufferSize: c.buf}
		out = append(out, &pair{
			Name: fmt.Sprintf("dqueue-C%d-B%d", c.cons, c.buf), SpecDir: "systems/dqueue", Module: "dqueue", Quick: c.quick,
			Cfg: fmt.Sprintf("CONSTANT defaultInitValue = defaultInitValue\nCONSTANT BUFFER_SIZE = %d\nCONSTANT NUM_CONSUMERS = %d\nCONSTANT PRODUCER = 0\nSPECIFICATION Spec\n", c.buf, c.cons),
			Sys: func() *ss.System { return dqueue.New(cfg) },
		})
	}

	// ---- loadbalancer (checked-in TLA+ translation predates the PlusCal block: re-translated) ----
	for _, c := range []struct {
		srv, cli, buf int
		quick         bool
	}{{2, 1, 1, true}, {2, 2, 2, false}} {
		cfg := loadbalancer.Config{NumServers: c.srv, NumClients: c.cli, BufferSize: c.buf}
		out = append(out, &pair{
			Name: fmt.Sprintf("loadbalancer-S%d-C%d-B%d", c.srv, c.cli, c.buf), SpecDir: "systems/loadbalancer", Module: "load_balancer", Quick: c.quick,
			Prepare: retranslate("systems/loadbalancer/load_balancer.tla", "load_balancer", "", nil),
			Cfg: fmt.Sprintf("CONSTANT defaultInitValue = defaultInitValue\nCONSTANT BUFFER_SIZE = %d\nCONSTANT LoadBalancerId = %d\nCONSTANT NUM_SERVERS = %d\nCONSTANT NUM_CLIENTS = %d\nCONSTANT GET_PAGE = %d\nCONSTANT WEB_PAGE = %d\nSPECIFICATION Spec\n",
				c.buf, loadbalancer.LoadBalancerID, c.srv, c.cli, loadbalancer.GetPage, loadbalancer.WebPage),
			Sys:        func() *ss.System { return loadbalancer.New(cfg) },
			Rename:     map[string]string{"AServer.msg": "msg0"},
			ScalarArch: map[string]bool{"ALoadBalancer": true},
		})
	}

	// ---- proxy ----
	proxyCfg := func(c proxy.Config, constraint bool) string {
		s := fmt.Sprintf("CONSTANT defaultInitValue = defaultInitValue\nCONSTANT NUM_SERVERS = %d\nCONSTANT NUM_CLIENTS = %d\nCONSTANT EXPLORE_FAIL = %s\nCONSTANT CLIENT_RUN = %s\nSPECIFICATION Spec\n",
			c.NumServers, c.NumClients, tlaBool(c.ExploreFail), tlaBool(c.ClientRun))
		if constraint {
			s += "CONSTRAINT MCConstraint\n"
		}
		return s
	}
	proxyRename := map[string]string{"AServer.msg": "msg0", "AServer.resp": "resp0", "AClient.resp": "resp1"}
	// (a) the checked-in TLA+ translation as it is: PerfectFD, input = self (no Requests macro)
	for _, c := range []struct {
		srv, cli int
		quick    bool
	}{{1, 1, true}, {2, 1, false}, {1, 2, false}} {
		cfg := proxy.Config{NumServers: c.srv, NumClients: c.cli, ExploreFail: true, ClientRun: true, PerfectFD: true}
		out = append(out, &pair{
			Name: fmt.Sprintf("proxy-checkedin-S%d-C%d", c.srv, c.cli), SpecDir: "systems/proxy", Module: "proxy", Quick: c.quick,
			Cfg: proxyCfg(cfg, false), Sys: func() *ss.System { return proxy.New(cfg) },
			Rename: proxyRename, ScalarArch: map[string]bool{"AProxy": true},
		})
	}
	// (b) what pcal makes of the spec's current PLUSCAL TRANSLATION block: PracticalFD + Requests
	// (an unbounded request counter, bounded here by a state constraint on both sides)
	for _, c := range []struct {
		srv, cli, maxIn int
		quick           bool
	}{{2, 1, 1, false}, {2, 1, 2, false}} {
		cfg := proxy.Config{NumServers: c.srv, NumClients: c.cli, ExploreFail: true, ClientRun: true, Requests: true, MaxInput: c.maxIn}
		mc := fmt.Sprintf("---- MODULE MCproxy ----\nEXTENDS proxy\nMCConstraint == \\A c \\in CLIENT_SET : input[c] <= %d\n====\n", c.maxIn)
		out = append(out, &pair{
			Name: fmt.Sprintf("proxy-S%d-C%d-in%d", c.srv, c.cli, c.maxIn), SpecDir: "systems/proxy", Module: "proxy", Quick: c.quick,
			Prepare: retranslate("systems/proxy/proxy.tla", "proxy", "MCproxy", map[string]string{"MCproxy.tla": mc}),
			Cfg:     proxyCfg(cfg, true), Sys: func() *ss.System { return proxy.New(cfg) }, Constraint: cfg.Constraint,
			Rename: proxyRename, ScalarArch: map[string]bool{"AProxy": true},
		})
	}

	// ---- shcounter (translation current; cntr unmapped) ----
	for _, n := range []int{2, 3, 4} {
		cfg := shcounter.Config{NumNodes: n}
		out = append(out, &pair{
			Name: fmt.Sprintf("shcounter-N%d", n), SpecDir: "systems/shcounter", Module: "shcounter", Quick: n == 3,
			Cfg: fmt.Sprintf("CONSTANT NUM_NODES = %d\nSPECIFICATION Spec\n", n),
			Sys: func() *ss.System { return shcounter.New(cfg) },
		})
	}

	// ---- gcounter (translation current; LocalGCntr/CasualHistory macros + the spec's merge process) ----
	for _, n := range []int{2, 3} {
		cfg := gcounter.Config{NumNodes: n}
		out = append(out, &pair{
			Name: fmt.Sprintf("gcounter-N%d", n), SpecDir: "systems/gcounter", Module: "gcounter", Quick: n == 2,
			Cfg: fmt.Sprintf("CONSTANT defaultInitValue = defaultInitValue\nCONSTANT NUM_NODES = %d\nCONSTANT BENCH_NUM_ROUNDS = 0\nSPECIFICATION Spec\n", n),
			Sys: func() *ss.System { return gcounter.New(cfg) }, ScalarArch: map[string]bool{"UpdateGCntr": true},
		})
	}

	// ---- shopcart (translation current; AWORSet macro + the spec's merge process; ANodeBench instance) ----
	for _, c := range []struct {
		n, rounds int
		quick     bool
	}{{2, 1, true}, {2, 2, false}, {3, 1, false}} {
		cfg := shopcart.Config{NumNodes: c.n, BenchNumRounds: c.rounds}
		var el []string
		for _, e := range cfg.ElemSet() {
			el = append(el, fmt.Sprint(e))
		}
		out = append(out, &pair{
			Name: fmt.Sprintf("shopcart-N%d-R%d", c.n, c.rounds), SpecDir: "systems/shopcart", Module: "shopcart", Quick: c.quick,
			Cfg: fmt.Sprintf("CONSTANT defaultInitValue = defaultInitValue\nCONSTANT NumNodes = %d\nCONSTANT BenchNumRounds = %d\nCONSTANT ElemSet = {%s}\nSPECIFICATION Spec\n", c.n, c.rounds, strings.Join(el, ", ")),
			Sys: func() *ss.System { return shopcart.New(cfg) }, ScalarArch: map[string]bool{"UpdateCRDT": true},
		})
	}
	// ---- nestedcrdtimpl (translation current; ACRDTResource generated, Node process transcribed) ----
	for _, c := range []struct {
		n, ops, buf int
		quick       bool
	}{{1, 2, 1, false}, {2, 1, 1, false}, {2, 2, 1, false}} {
		cfg := nestedcrdtimpl.Config{NumNodes: c.n, NumOps: c.ops, BufferSize: c.buf}
		var ids []string
		for i := 1; i <= c.n; i++ {
			ids = append(ids, fmt.Sprint(i))
		}
		cfgTxt := fmt.Sprintf("CONSTANT defaultInitValue = defaultInitValue\nCONSTANT BUFFER_SIZE = %d\nCONSTANT NUM_OPS = %d\nCONSTANT NODE_IDS = {%s}\nCONSTANT EMPTY_CELL = EMPTY_CELL\n", c.buf, c.ops, strings.Join(ids, ", ")) +
			"CONSTANT ZERO_VALUE <- MCZero\nCONSTANT COMBINE_FN <- MCCombine\nCONSTANT UPDATE_FN <- MCUpdate\nCONSTANT VIEW_FN <- MCView\n"
		for _, k := range []string{"READ", "WRITE", "ABORT", "PRECOMMIT", "COMMIT"} {
			cfgTxt += fmt.Sprintf("CONSTANT %s_REQ = \"%s_req\"\nCONSTANT %s_ACK = \"%s_ack\"\n", k, strings.ToLower(k), k, strings.ToLower(k))
		}
		out = append(out, &pair{
			Name: fmt.Sprintf("nestedcrdtimpl-N%d-O%d-B%d", c.n, c.ops, c.buf), SpecDir: "systems/nestedcrdtimpl", Module: "NestedCRDTImpl", Quick: c.quick,
			Prepare: func(dir string) (string, error) {
				src, err := os.ReadFile(filepath.Join(repo(), "systems/nestedcrdtimpl/NestedCRDTImpl.tla"))
				if err != nil {
					return "", err
				}
				if err := os.WriteFile(filepath.Join(dir, "NestedCRDTImpl.tla"), src, 0o644); err != nil {
					return "", err
				}
				return "MCNested", os.WriteFile(filepath.Join(dir, "MCNested.tla"), []byte(mcNested), 0o644)
			},
			Cfg: cfgTxt + "SPECIFICATION Spec\n", Sys: func() *ss.System { return nestedcrdtimpl.New(cfg) },
		})
	}

	// ---- compiler test programs: X.tla.expectpcal (the PlusCal PGo must emit) translated by pcal ----
	const gen = "pgo/test/files/general/"
	dflt := "CONSTANT defaultInitValue = defaultInitValue\n"
	out = append(out,
		&pair{Name: "gotests-hello", SpecDir: gen, Module: "hello", Quick: true,
			Prepare: retranslate(gen+"hello.tla.expectpcal", "hello", "MChello", map[string]string{
				"MChello.tla": "---- MODULE MChello ----\nEXTENDS hello\nMCMkHello(a, b) == a \\o b\n====\n"}),
			Cfg: dflt + "CONSTANT MK_HELLO <- MCMkHello\nSPECIFICATION Spec\n",
			Sys: gotests.Hello, ScalarArch: map[string]bool{"AHello": true}},
		// bug_119 (procedure `inc`, `process (Server = "1")`): the installed pcal leaves `self` unsubstituted
		// in the call argument of a single-process `call inc0(self)` (SANY: "Unknown operator: self");
		// Prepare writes the process identifier there, which is what `self` denotes.  Only the procedure's
		// parameter variable self_ and the stack hold that value and neither is compared (no comparable
		// Go image; call/return is C04's): pc, value and out are.
		&pair{Name: "gotests-bug_119", SpecDir: gen, Module: "test", Quick: true,
			Prepare: func(dir string) (string, error) {
				if _, err := retranslate(gen+"bug_119.tla.expectpcal", "test", "", nil)(dir); err != nil {
					return "", err
				}
				f := filepath.Join(dir, "test.tla")
				b, err := os.ReadFile(f)
				if err != nil {
					return "", err
				}
				const bad, good = `self_' = [self_ EXCEPT !["1"] = self]`, `self_' = [self_ EXCEPT !["1"] = "1"]`
				if strings.Count(string(b), bad) != 1 {
					return "", fmt.Errorf("bug_119: the translation no longer has the unsubstituted `self` this step repairs")
				}
				return "", os.WriteFile(f, []byte(strings.Replace(string(b), bad, good, 1)), 0o644)
			},
			Cfg: dflt + "SPECIFICATION Spec\n",
			Sys: gotests.Bug119, ScalarArch: map[string]bool{"Counter": true},
			Rename: map[string]string{"inc.self_": "-", "inc.counter": "-"}, SkipSpecVars: []string{"stack", "self_"}},
		&pair{Name: "gotests-bug2_124", SpecDir: gen, Module: "bug2", Quick: false,
			Prepare: retranslate(gen+"bug2_124.tla.expectpcal", "bug2", "", nil),
			Cfg:     dflt + "CONSTANT NUM_NODES = 2\nCONSTANT BUFFER_SIZE = 1\nSPECIFICATION Spec\n",
			Sys:     func() *ss.System { return gotests.Bug2(2, 1) }},
		&pair{Name: "gotests-PBFail4_bug125", SpecDir: gen, Module: "PBFail4", Quick: false,
			Prepare: retranslate(gen+"PBFail4_bug125.tla.expectpcal", "PBFail4", "", nil),
			Cfg:     dflt + "CONSTANT BUFFER_SIZE = 2\nCONSTANT NUM_REPLICAS = 2\nCONSTANT NUM_CLIENTS = 1\nCONSTANT EXPLORE_FAIL = FALSE\nSPECIFICATION Spec\n",
			Sys:     func() *ss.System { return gotests.PBFail4(2, 1, 2) },
			Rename:  map[string]string{"AClient.resp": "resp0", "AClient.idx": "idx0"}},
		&pair{Name: "gotests-IndexingLocals", SpecDir: gen, Module: "IndexingLocals", Quick: true,
			Prepare: retranslate(gen+"IndexingLocals.tla.expectpcal", "IndexingLocals", "", nil),
			Cfg:     dflt + "SPECIFICATION Spec\n", Sys: gotests.IndexingLocals},
		// AComplex's final assertion fails when `mark` misses an element after 20 rounds; TLC stops at the
		// first failing Assert, so those states are excluded from expansion on both sides (constraint).
		&pair{Name: "gotests-NonDetExploration", SpecDir: gen, Module: "NonDetExploration", Quick: false,
			Prepare: retranslate(gen+"NonDetExploration.tla.expectpcal", "NonDetExploration", "MCNonDet", map[string]string{
				"MCNonDet.tla": "---- MODULE MCNonDet ----\nEXTENDS NonDetExploration\nMCConstraint == ~(pc[3] = \"loop\" /\\ i = 20 /\\ mark # TheSet)\n====\n"}),
			Cfg: "SPECIFICATION Spec\nCONSTRAINT MCConstraint\n", Sys: gotests.NonDet, Constraint: gotests.NonDetConstraint,
			ScalarArch: map[string]bool{"ACoverage": true, "ACoincidence": true, "AComplex": true}},
	)
	return out
}

package c02

// morePairs lists the spec/Go pairs of the remaining systems and of the compiler's test programs
// (owned by the author of the C16 system models).
func morePairs() []*pair { return nil }

package c02

import (
	"fmt"

	ss "verif/mc/specstep"
	"verif/mc/sys/locksvc"
	"verif/mc/sys/pbkvs"
	"verif/mc/sys/raftkvs"
)

func pairs() []*pair {
	var out []*pair
	for n := 1; n <= 3; n++ {
		n := n
		out = append(out, &pair{
			Name: fmt.Sprintf("locksvc-N%d", n), SpecDir: "systems/locksvc", Module: "locksvc", Quick: n <= 2,
			Cfg: fmt.Sprintf("CONSTANT defaultInitValue = defaultInitValue\nCONSTANT NumClients = %d\nSPECIFICATION Spec\n", n),
			Sys: func() *ss.System { return locksvc.New(n) },
		})
	}
	raftCfg := func(ns, mt, mci int, fail bool) string {
		return fmt.Sprintf(`CONSTANT defaultInitValue = defaultInitValue
CONSTANT ExploreFail = %s
CONSTANT Debug = FALSE
CONSTANT NumServers = %d
CONSTANT NumClients = 1
CONSTANT BufferSize = 3
CONSTANT MaxTerm = %d
CONSTANT MaxCommitIndex = %d
CONSTANT MaxNodeFail = 1
CONSTANT LogConcat = 2
CONSTANT LogPop = 1
CONSTANT LeaderTimeoutReset = TRUE
CONSTANT NumRequests = 1
CONSTANT AllStrings = {"s1"}
CONSTRAINT MCConstraint
SPECIFICATION Spec
`, map[bool]string{true: "TRUE", false: "FALSE"}[fail], ns, mt, mci)
	}
	raftRename := map[string]string{
		"AServerRequestVote.idx": "idx0", "AServerRequestVote.srvId": "srvId0",
		"AServerAppendEntries.idx": "idx1", "AServerAppendEntries.srvId": "srvId1",
		"AServerAdvanceCommitIndex.srvId": "srvId2", "AServerBecomeLeader.srvId": "srvId3",
		"AClient.leader": "leader0", "AServerCrasher.srvId": "srvId4",
	}
	raftSkip := []string{"timeout", "requestVoteSrvId", "appendEntriesSrvId", "advanceCommitIndexSrvId", "becomeLeaderSrvId", "crasherSrvId"}
	for _, rc := range []struct {
		ns, mt, mci int
		fail, quick bool
	}{{2, 2, 1, false, true}, {2, 2, 1, true, false}} { // (1 server / MaxTerm 3 was tried: > 10 GB of TLC dump, dropped)
		rc := rc
		cfg := raftkvs.Config{NumServers: rc.ns, NumClients: 1, MaxTerm: rc.mt, MaxCommitIndex: rc.mci, BufferSize: 3, ExploreFail: rc.fail, MaxNodeFail: 1, AllStrings: []string{"s1"}}
		out = append(out, &pair{
			Name: fmt.Sprintf("raftkvs-S%d-T%d-C%d-fail%v", rc.ns, rc.mt, rc.mci, rc.fail), SpecDir: "systems/raftkvs", Module: "raftkvs", Quick: rc.quick,
			Cfg: raftCfg(rc.ns, rc.mt, rc.mci, rc.fail), Sys: func() *ss.System { return raftkvs.New(cfg) }, Constraint: cfg.Constraint,
			Rename: raftRename, SkipSpecVars: raftSkip, SkipGoGlobals: []string{"timeout"},
		})
	}
	for _, pc := range []struct {
		nr, nc int
		quick  bool
	}{{2, 1, true}, {3, 1, false}} { // R3-C1: ~140k states, 1.3 GB dump (thorough); R2-C2 dropped (larger still)
		pc := pc
		cfg := pbkvs.Config{NumReplicas: pc.nr, NumClients: pc.nc, ExploreFail: true}
		out = append(out, &pair{
			Name: fmt.Sprintf("pbkvs-R%d-C%d", pc.nr, pc.nc), SpecDir: "systems/pbkvs", Module: "pbkvs", Quick: pc.quick,
			Cfg: fmt.Sprintf("CONSTANT defaultInitValue = defaultInitValue\nCONSTANT NUM_REPLICAS = %d\nCONSTANT NUM_CLIENTS = %d\nCONSTANT DEBUG = FALSE\nCONSTANT EXPLORE_FAIL = TRUE\nCONSTRAINT VersionNumberCnst\nSPECIFICATION Spec\n", pc.nr, pc.nc),
			Sys: func() *ss.System { return pbkvs.New(cfg) }, Constraint: cfg.Constraint,
			Rename: map[string]string{"AClient.req": "req0", "AClient.resp": "resp0", "AClient.replica": "replica0", "AClient.idx": "idx0"},
		})
	}
	return append(out, morePairs()...)
}

package bubble

import (
	"fmt"
	"sync"
	"sync/atomic"

	"github.com/DistCompiler/pgo/distsys"
	"github.com/DistCompiler/pgo/distsys/tla"
)

// Gate is engine E2 inside a bubble: a distsys.FairnessCounter whose BeginCriticalSection parks the
// Run goroutine until the driver grants the thread.  MPCalContext.Run is a sequential loop, so
// gate-to-gate is exactly one attempt of one critical section (plus, before the gate, the loop
// head's poll of requestExit and the read of .pc).
type Gate struct {
	Th       *Thread
	Inner    distsys.FairnessCounter            // answers NextFairnessCounter unless Choose is set (default: the real round-robin counter)
	Choose   func(id string, ceiling uint) uint // optional: the driver resolves choice points
	OnBegin  func(pc string, attempt int)       // called before parking (in the Run goroutine)
	OnGrant  func(pc string, attempt int)       // called after the grant, right before the body runs
	ParkIf   func(pc string) bool               // optional: park only at these labels (e.g. not at the Done label)
	Attempts int
}

var _ distsys.FairnessCounter = &Gate{}

func NewGate(th *Thread) *Gate {
	return &Gate{Th: th, Inner: distsys.MakeRoundRobinFairnessCounter()}
}

func (g *Gate) BeginCriticalSection(pc string) {
	g.Attempts++
	if g.OnBegin != nil {
		g.OnBegin(pc, g.Attempts)
	}
	if g.ParkIf == nil || g.ParkIf(pc) {
		g.Th.Park("gate:" + pc)
	}
	if g.OnGrant != nil {
		g.OnGrant(pc, g.Attempts)
	}
	if g.Inner != nil {
		g.Inner.BeginCriticalSection(pc)
	}
}

func (g *Gate) NextFairnessCounter(id string, ceiling uint) uint {
	if g.Choose != nil {
		return g.Choose(id, ceiling)
	}
	return g.Inner.NextFairnessCounter(id, ceiling)
}

// ---------------------------------------------------------------------------------------------

// Event is one entry of the ground-truth log.
type Event struct {
	Seq int64     `json:"seq"`
	Who string    `json:"who"`           // thread / context that performed it
	Res string    `json:"res,omitempty"` // resource name
	Op  string    `json:"op"`            // read write index precommit commit abort close | harness-defined markers
	Val tla.Value `json:"-"`
	Has bool      `json:"-"`
	S   string    `json:"val,omitempty"`
	Err string    `json:"err,omitempty"`
}

func (e Event) String() string {
	s := fmt.Sprintf("%d:%s:%s", e.Seq, e.Who, e.Op)
	if e.Res != "" {
		s += "(" + e.Res + ")"
	}
	if e.S != "" {
		s += "=" + e.S
	}
	if e.Err != "" {
		s += "!" + e.Err
	}
	return s
}

// Log is a totally ordered ground-truth log shared by all wrappers of one execution.
type Log struct {
	mu sync.Mutex
	ev []Event
}

func (l *Log) Add(e Event) int64 {
	l.mu.Lock()
	defer l.mu.Unlock()
	e.Seq = int64(len(l.ev)) + 1
	if e.Has {
		e.S = e.Val.String()
	}
	l.ev = append(l.ev, e)
	return e.Seq
}

// Mark adds a harness-defined marker.
func (l *Log) Mark(who, op, detail string) int64 { return l.Add(Event{Who: who, Op: op, S: detail}) }

func (l *Log) Events() []Event {
	l.mu.Lock()
	defer l.mu.Unlock()
	return append([]Event(nil), l.ev...)
}

func errStr(err error) string {
	if err == nil {
		return ""
	}
	return err.Error()
}

// ---------------------------------------------------------------------------------------------

// Logging records every operation really performed on Inner (with its result) and every Close
// call.  When ClosePark is set, Close is a scheduling point of that thread: the cleanup of this
// resource lasts until the driver grants it (cleanup of arbitrary duration).
type Logging struct {
	Inner     distsys.ArchetypeResource
	Name      string
	Who       string
	Log       *Log
	ClosePark *Thread
	ParkAfter bool // with ClosePark: a second scheduling point ("closed") after Inner.Close returned
	CloseErr  error
	closes    atomic.Int32
	sub       bool
}

var _ distsys.ArchetypeResource = &Logging{}

func (l *Logging) Closes() int { return int(l.closes.Load()) }

func (l *Logging) Abort(iface distsys.ArchetypeInterface) chan struct{} {
	l.Log.Add(Event{Who: l.Who, Res: l.Name, Op: "abort"})
	return l.Inner.Abort(iface)
}

func (l *Logging) PreCommit(iface distsys.ArchetypeInterface) chan error {
	l.Log.Add(Event{Who: l.Who, Res: l.Name, Op: "precommit"})
	ch := l.Inner.PreCommit(iface)
	if ch == nil {
		return nil
	}
	// an asynchronous pre-commit: record its result (ground truth of why a commit did not go ahead)
	out := make(chan error, 1)
	go func() {
		err := <-ch
		l.Log.Add(Event{Who: l.Who, Res: l.Name, Op: "precommitted", Err: errStr(err)})
		out <- err
	}()
	return out
}

func (l *Logging) Commit(iface distsys.ArchetypeInterface) chan struct{} {
	l.Log.Add(Event{Who: l.Who, Res: l.Name, Op: "commit"})
	return l.Inner.Commit(iface)
}

func (l *Logging) ReadValue(iface distsys.ArchetypeInterface) (tla.Value, error) {
	v, err := l.Inner.ReadValue(iface)
	e := Event{Who: l.Who, Res: l.Name, Op: "read", Err: errStr(err)}
	if err == nil {
		e.Val, e.Has = v.StripVClock(), true
	}
	l.Log.Add(e)
	return v, err
}

func (l *Logging) WriteValue(iface distsys.ArchetypeInterface, value tla.Value) error {
	err := l.Inner.WriteValue(iface, value)
	l.Log.Add(Event{Who: l.Who, Res: l.Name, Op: "write", Val: value.StripVClock(), Has: true, Err: errStr(err)})
	return err
}

func (l *Logging) Index(iface distsys.ArchetypeInterface, index tla.Value) (distsys.ArchetypeResource, error) {
	sub, err := l.Inner.Index(iface, index)
	l.Log.Add(Event{Who: l.Who, Res: l.Name, Op: "index", Val: index, Has: true, Err: errStr(err)})
	if err != nil {
		return sub, err
	}
	if _, already := sub.(*Logging); already {
		return sub, nil // map elements that are Logging resources themselves keep their own identity
	}
	return &Logging{Inner: sub, Name: l.Name + "[" + index.String() + "]", Who: l.Who, Log: l.Log, sub: true}, nil
}

func (l *Logging) Close() error {
	n := l.closes.Add(1)
	l.Log.Add(Event{Who: l.Who, Res: l.Name, Op: "close", S: fmt.Sprint(n)})
	if l.ClosePark != nil {
		l.ClosePark.Park("close")
	}
	err := l.Inner.Close()
	l.Log.Add(Event{Who: l.Who, Res: l.Name, Op: "closed", S: fmt.Sprint(n)})
	if l.ClosePark != nil && l.ParkAfter {
		l.ClosePark.Park("closed")
	}
	if l.CloseErr != nil {
		return l.CloseErr
	}
	return err
}

// GetState forwards to a Persistable inner resource.
func (l *Logging) GetState() ([]byte, error) {
	if p, ok := l.Inner.(interface{ GetState() ([]byte, error) }); ok {
		return p.GetState()
	}
	return nil, fmt.Errorf("bubble.Logging: inner resource has no GetState")
}

// ---------------------------------------------------------------------------------------------

// Faulty refuses the FailOp-th read/write/index operation and/or the FailPreCommit-th PreCommit
// (counted from 1 over the lifetime of the wrapper; 0 = never) with Err, without calling Inner.
type Faulty struct {
	Inner         distsys.ArchetypeResource
	FailOp        int
	FailPreCommit int
	Err           error
	ops, pcs      int
	Fired         int
}

var _ distsys.ArchetypeResource = &Faulty{}

func (f *Faulty) op() bool {
	f.ops++
	if f.ops == f.FailOp {
		f.Fired++
		return true
	}
	return false
}

func (f *Faulty) Abort(iface distsys.ArchetypeInterface) chan struct{} { return f.Inner.Abort(iface) }
func (f *Faulty) Commit(iface distsys.ArchetypeInterface) chan struct{} {
	return f.Inner.Commit(iface)
}
func (f *Faulty) PreCommit(iface distsys.ArchetypeInterface) chan error {
	f.pcs++
	if f.pcs == f.FailPreCommit {
		f.Fired++
		ch := make(chan error, 1)
		ch <- f.Err
		return ch
	}
	return f.Inner.PreCommit(iface)
}
func (f *Faulty) ReadValue(iface distsys.ArchetypeInterface) (tla.Value, error) {
	if f.op() {
		return tla.Value{}, f.Err
	}
	return f.Inner.ReadValue(iface)
}
func (f *Faulty) WriteValue(iface distsys.ArchetypeInterface, value tla.Value) error {
	if f.op() {
		return f.Err
	}
	return f.Inner.WriteValue(iface, value)
}
func (f *Faulty) Index(iface distsys.ArchetypeInterface, index tla.Value) (distsys.ArchetypeResource, error) {
	if f.op() {
		return nil, f.Err
	}
	return f.Inner.Index(iface, index)
}
func (f *Faulty) Close() error { return f.Inner.Close() }

// ---------------------------------------------------------------------------------------------

// Txn makes the commit / abort phase of one context deterministic.  MPCalContext.commit and
// .abort walk the set of touched resources in Go map order, i.e. in an order that differs from run
// to run.  The Yielding wrappers of one context share a Txn: their Commit (Abort) calls are
// collected, and when the last touched wrapper has been called the inner Commits (Aborts) are
// performed - in the Run goroutine, before that last call returns, hence before MPCalContext.commit
// returns - in an order fixed by the harness (by name, or Order), with a scheduling point before
// each.  Every order produced this way is an order the map iteration could have produced.
type Txn struct {
	Th      *Thread
	Order   func(names []string) []int // optional: permutation of the (name-sorted) touched resources
	OnPhase func(phase string)         // called once per phase ("commit" / "abort") before the first inner call: all locks are still held

	touched []*Yielding
	calls   int
}

func (t *Txn) touch(y *Yielding) {
	if t.calls != 0 {
		panic("bubble.Txn: resource operation while a commit/abort phase is incomplete (touched set and dirty set differ)")
	}
	for _, o := range t.touched {
		if o == y {
			return
		}
	}
	t.touched = append(t.touched, y)
}

func (t *Txn) phase(y *Yielding, iface distsys.ArchetypeInterface, commit bool) {
	known := false
	for _, o := range t.touched {
		if o == y {
			known = true
		}
	}
	if !known { // never touched through the wrapper: pass through
		y.direct(iface, commit)
		return
	}
	t.calls++
	if t.calls < len(t.touched) {
		return
	}
	ys := t.touched
	t.touched, t.calls = nil, 0
	sortYielding(ys)
	if t.Order != nil && len(ys) > 1 {
		names := make([]string, len(ys))
		for i, o := range ys {
			names[i] = o.Name
		}
		perm := t.Order(names)
		if len(perm) == len(ys) {
			ord := make([]*Yielding, len(ys))
			for i, j := range perm {
				ord[i] = ys[j]
			}
			ys = ord
		}
	}
	ph := "abort"
	if commit {
		ph = "commit"
	}
	if t.OnPhase != nil {
		t.OnPhase(ph)
	}
	for _, o := range ys {
		t.Th.Park(ph + ":" + o.Name)
		o.direct(iface, commit)
	}
}

func sortYielding(ys []*Yielding) {
	for i := 1; i < len(ys); i++ {
		for j := i; j > 0 && ys[j].Name < ys[j-1].Name; j-- {
			ys[j], ys[j-1] = ys[j-1], ys[j]
		}
	}
}

// Yielding puts a scheduling point of thread Th before every read / write / index operation of
// Inner (and, with a Txn, before every inner Commit / Abort).
type Yielding struct {
	Inner distsys.ArchetypeResource
	Th    *Thread
	Name  string
	Txn   *Txn
	sub   bool
}

var _ distsys.ArchetypeResource = &Yielding{}

func (y *Yielding) direct(iface distsys.ArchetypeInterface, commit bool) {
	var ch chan struct{}
	if commit {
		ch = y.Inner.Commit(iface)
	} else {
		ch = y.Inner.Abort(iface)
	}
	if ch != nil {
		<-ch
	}
}

func (y *Yielding) before(op string) {
	if y.Txn != nil && !y.sub {
		y.Txn.touch(y)
	}
	y.Th.Park(op + ":" + y.Name)
}

func (y *Yielding) Abort(iface distsys.ArchetypeInterface) chan struct{} {
	if y.Txn == nil || y.sub {
		return y.Inner.Abort(iface)
	}
	y.Txn.phase(y, iface, false)
	return nil
}

func (y *Yielding) PreCommit(iface distsys.ArchetypeInterface) chan error {
	return y.Inner.PreCommit(iface)
}

func (y *Yielding) Commit(iface distsys.ArchetypeInterface) chan struct{} {
	if y.Txn == nil || y.sub {
		return y.Inner.Commit(iface)
	}
	y.Txn.phase(y, iface, true)
	return nil
}

func (y *Yielding) ReadValue(iface distsys.ArchetypeInterface) (tla.Value, error) {
	y.before("read")
	return y.Inner.ReadValue(iface)
}

func (y *Yielding) WriteValue(iface distsys.ArchetypeInterface, value tla.Value) error {
	y.before("write")
	return y.Inner.WriteValue(iface, value)
}

func (y *Yielding) Index(iface distsys.ArchetypeInterface, index tla.Value) (distsys.ArchetypeResource, error) {
	y.before("index")
	sub, err := y.Inner.Index(iface, index)
	if err != nil {
		return sub, err
	}
	return &Yielding{Inner: sub, Th: y.Th, Name: y.Name + "[" + index.String() + "]", sub: true}, nil
}

func (y *Yielding) Close() error { return y.Inner.Close() }

// Package bubble is engine E3 (and its own copy of E2, the gate): a cooperative scheduler
// over REAL goroutines running inside one testing/synctest bubble per execution.
//
// Threads are real goroutines (MPCalContext.Run goroutines advanced one step at a time by the
// gating FairnessCounter of gate.go, Stop callers, ...).  A thread runs only between a Grant and
// its next Park (or its end); the driver (the function handed to Run, also inside the bubble)
// repeats
//
//	s.Settle()                 // 1 µs of virtual time + synctest.Wait(): everything is durably blocked
//	m := s.Pick(c, opts)       // enabled moves: grant a parked thread | let virtual time advance
//	s.Grant(m.Th) / s.AdvanceTime()
//
// so that the same list of answers always produces the same execution.  Virtual time moves only
// while the driver itself sleeps (AdvanceTime), in slices, until a thread changes state.
//
// Goroutines blocked on a sync.Mutex are not durably blocked: synctest.Wait would never return.
// Run therefore watches every bubble from OUTSIDE, in real time: when the driver makes no progress
// it takes a goroutine dump (a stop-the-world snapshot), keeps the goroutines of this bubble, and
// gives a deadlock verdict only if every one of them sits in a channel or mutex wait - in strict
// mode only after Options.StrictAfter (60 s) without progress.  Anything else (a goroutine asleep,
// in a select that may contain a timer, runnable, ...) is "inconclusive": never a verdict.
package bubble

import (
	"fmt"
	"runtime"
	"runtime/debug"
	"sort"
	"strings"
	"sync"
	"sync/atomic"
	"testing"
	"testing/synctest"
	"time"
)

// Options configure one execution.
type Options struct {
	Tick      time.Duration // virtual time burnt by every Settle so that timers get distinct deadlines (default 1 µs)
	TimeSlice time.Duration // AdvanceTime slice (default 1 ms)
	TimeCap   time.Duration // AdvanceTime gives up after this much virtual time without any thread changing state (default 10 s)

	SuspectAfter time.Duration // real time without progress before the watchdog takes its first dump (default 1500 ms)
	Strict       bool          // a deadlock verdict additionally needs StrictAfter of real time without progress
	StrictAfter  time.Duration // default 60 s
	HangCap      time.Duration // real time after which an inconclusive hang is abandoned (default 150 s)
	// SelectIsChanWait: a goroutine of the bubble blocked in a select counts as a channel wait.
	// Off by default because a select may contain a timer case that cannot fire while virtual time is stuck.
	SelectIsChanWait bool
}

func (o *Options) defaults() {
	if o.Tick == 0 {
		o.Tick = time.Microsecond
	}
	if o.TimeSlice == 0 {
		o.TimeSlice = time.Millisecond
	}
	if o.TimeCap == 0 {
		o.TimeCap = 10 * time.Second
	}
	if o.SuspectAfter == 0 {
		o.SuspectAfter = 1500 * time.Millisecond
	}
	if o.StrictAfter == 0 {
		o.StrictAfter = 60 * time.Second
	}
	if o.HangCap == 0 {
		o.HangCap = 150 * time.Second
	}
}

// State of a thread as seen by the driver after Settle.
type State int

const (
	Running  State = iota // granted and neither parked nor finished: after Settle this means durably blocked inside its step
	Parked                // waiting for a Grant at a scheduling point
	Finished              // its function returned (or panicked; see Panic)
)

func (s State) String() string { return [...]string{"blocked", "parked", "finished"}[s] }

// Thread is a goroutine under the control of the scheduler.
type Thread struct {
	s        *Sched
	Name     string
	idx      int
	external bool // goroutine spawned by the code under test; only ever seen when it parks
	grant    chan struct{}

	mu       sync.Mutex
	state    State
	label    string
	seq      int64
	panicVal any
	panicStk string
}

// Sched is the scheduler of one execution (one bubble).
type Sched struct {
	opt     Options
	T       *testing.T
	threads []*Thread
	freeCh  chan struct{}
	free    atomic.Bool
	last    *Thread
	Steps   int

	onDrain []func()

	progress   atomic.Int64
	draining   atomic.Bool
	driverGoid atomic.Int64
	bubbleID   atomic.Int64
}

// Go creates a thread; it is parked at label "start" until its first Grant.
func (s *Sched) Go(name string, fn func()) *Thread {
	th := s.newThread(name, false)
	go func() {
		defer th.finish()
		th.Park("start")
		fn()
	}()
	return th
}

// NewThread creates a thread handle whose goroutine is started later with Start: wrappers that
// need the handle can be built before the function that uses them.
func (s *Sched) NewThread(name string) *Thread { return s.newThread(name, false) }

// Start launches the goroutine of a thread made by NewThread.  It starts running at once (as if
// already granted) and is first seen by the driver at its first scheduling point; use
// th.Park("start") as the first statement of fn for a thread that must wait for its first Grant.
func (th *Thread) Start(fn func()) {
	go func() {
		defer th.finish()
		fn()
	}()
}

// External registers a handle for a goroutine that the code under test spawns itself (for
// example the Run goroutine of a nested context).  It is invisible to the scheduler except
// while it is parked at a scheduling point reached through the handle.
func (s *Sched) External(name string) *Thread { return s.newThread(name, true) }

func (s *Sched) newThread(name string, ext bool) *Thread {
	th := &Thread{s: s, Name: name, idx: len(s.threads), external: ext, grant: make(chan struct{}, 1), state: Running}
	s.threads = append(s.threads, th)
	return th
}

func (th *Thread) finish() {
	x := recover()
	th.mu.Lock()
	if x != nil {
		th.panicVal = x
		th.panicStk = string(debug.Stack())
	}
	th.state = Finished
	th.seq++
	th.mu.Unlock()
	th.s.progress.Add(1)
}

// Park is a scheduling point: the calling goroutine waits until the driver grants th again.
// In free-running mode (after Free) it returns immediately.  A nil thread never parks.
func (th *Thread) Park(label string) {
	if th == nil {
		return
	}
	s := th.s
	if s.free.Load() {
		return
	}
	th.mu.Lock()
	th.state = Parked
	th.label = label
	th.seq++
	th.mu.Unlock()
	s.progress.Add(1)
	select {
	case <-th.grant:
	case <-s.freeCh:
		th.mu.Lock()
		th.state = Running
		th.mu.Unlock()
	}
}

func (th *Thread) State() State {
	th.mu.Lock()
	defer th.mu.Unlock()
	return th.state
}

// Label is the scheduling point at which the thread is (or was last) parked.
func (th *Thread) Label() string {
	th.mu.Lock()
	defer th.mu.Unlock()
	return th.label
}

// Panic returns the value and stack of a panic that ended the thread's function (nil if none).
func (th *Thread) Panic() (any, string) {
	th.mu.Lock()
	defer th.mu.Unlock()
	return th.panicVal, th.panicStk
}

func (th *Thread) External() bool { return th.external }

// Settle lets every granted thread run until it is parked, finished or durably blocked.
//
// When a thread is blocked inside its step (it may have armed a timer just before blocking),
// Settle burns one Tick of virtual time, so that timers armed in different steps have different
// deadlines and fire in a reproducible order.
func (s *Sched) Settle() {
	synctest.Wait()
	if len(s.Blocked()) > 0 {
		time.Sleep(s.opt.Tick)
		synctest.Wait()
	}
	s.progress.Add(1)
}

// Grant lets a parked thread run its next step (call Settle afterwards).
func (s *Sched) Grant(th *Thread) {
	th.mu.Lock()
	if th.state != Parked {
		st := th.state
		th.mu.Unlock()
		panic(fmt.Sprintf("bubble: Grant(%s) but thread is %v", th.Name, st))
	}
	th.state = Running
	th.mu.Unlock()
	s.last = th
	s.Steps++
	th.grant <- struct{}{}
}

// Threads returns all threads in creation order.
func (s *Sched) Threads() []*Thread { return s.threads }

// Last is the thread granted most recently.
func (s *Sched) Last() *Thread { return s.last }

// ParkedThreads returns the parked threads in creation order.
func (s *Sched) ParkedThreads() []*Thread {
	var out []*Thread
	for _, th := range s.threads {
		if th.State() == Parked {
			out = append(out, th)
		}
	}
	return out
}

// Blocked returns the non-external threads that are inside a step (durably blocked after Settle).
func (s *Sched) Blocked() []*Thread {
	var out []*Thread
	for _, th := range s.threads {
		if !th.external && th.State() == Running {
			out = append(out, th)
		}
	}
	return out
}

// Unfinished tells whether some non-external thread has not finished.
func (s *Sched) Unfinished() bool {
	for _, th := range s.threads {
		if !th.external && th.State() != Finished {
			return true
		}
	}
	return false
}

func (s *Sched) seqSum() int64 {
	var n int64
	for _, th := range s.threads {
		th.mu.Lock()
		n += th.seq
		th.mu.Unlock()
	}
	return n
}

// AdvanceTime lets virtual time pass (the driver sleeps in slices; inside a bubble the clock jumps
// to the next timer as soon as every goroutine is durably blocked) until some thread parks or
// finishes.  It returns false when Options.TimeCap of virtual time passed without that: no timer
// of the code under test (all are far below the cap) can unblock anything any more.
func (s *Sched) AdvanceTime() bool {
	base := s.seqSum()
	var elapsed time.Duration
	for elapsed < s.opt.TimeCap {
		sl := s.opt.TimeSlice
		if elapsed >= 250*s.opt.TimeSlice {
			sl = 100 * s.opt.TimeSlice
		}
		time.Sleep(sl)
		synctest.Wait()
		s.progress.Add(1)
		elapsed += sl
		if s.seqSum() != base {
			return true
		}
	}
	return false
}

// Free switches to free-running mode: every parked thread is released and no scheduling point
// parks any more.  Used at the end of an execution so that the bubble can drain.
func (s *Sched) Free() {
	s.draining.Store(true)
	if s.free.CompareAndSwap(false, true) {
		close(s.freeCh)
		for _, f := range s.onDrain {
			go f()
		}
	}
}

// OnDrain registers a function that is started (in its own goroutine, inside the bubble) when the
// scheduler switches to free-running mode: typically ctx.Stop of every context, so that the bubble
// drains whatever state the execution was left in.  Must be called by the driver goroutine.
func (s *Sched) OnDrain(f func()) { s.onDrain = append(s.onDrain, f) }

// Chooser is the part of explore.Ctx the scheduler needs.
type Chooser interface {
	Choose(n int, label string) int
	Deviate(n int, label string) int
}

// PickOpt configures one scheduling decision.
type PickOpt struct {
	Enabled      func(th *Thread) bool // nil: every parked thread is enabled
	PreemptCosts bool                  // switching away from the still-enabled last thread is a deviation (cost 1)
	OfferTime    bool                  // when a thread is blocked inside its step, "let virtual time advance" is offered as an alternative
	LastYielded  bool                  // the last thread gave up its turn by itself (e.g. its attempt aborted): it is offered last and leaving it is no preemption
}

// Move is a scheduling decision.
type Move struct {
	Th   *Thread // grant this thread, or
	Time bool    // let virtual time advance
	// Forced: no thread was enabled (Time is then the only thing left to try).
	Forced bool
}

// Pick collects the enabled moves and asks the chooser.  Order of the alternatives: the thread
// granted last (if still enabled) first - so that the default answer 0 means "no preemption" -
// then the others in creation order, then time.  ok is false when nothing is left to do (no
// enabled thread and no unfinished non-external thread blocked inside a step).
func (s *Sched) Pick(c Chooser, o PickOpt) (m Move, ok bool) {
	var en []*Thread
	lastEnabled := false
	for _, th := range s.threads {
		if th.State() != Parked || (o.Enabled != nil && !o.Enabled(th)) {
			continue
		}
		if th == s.last {
			lastEnabled = true
			continue
		}
		en = append(en, th)
	}
	if lastEnabled && o.LastYielded {
		en = append(en, s.last)
		lastEnabled = false
	}
	if lastEnabled {
		en = append([]*Thread{s.last}, en...)
	}
	blocked := len(s.Blocked()) > 0
	if len(en) == 0 {
		if blocked {
			return Move{Time: true, Forced: true}, true
		}
		return Move{}, false
	}
	n := len(en)
	if o.OfferTime && blocked {
		n++
	}
	k := 0
	if n > 1 {
		var b strings.Builder
		b.WriteString("sched")
		for _, th := range en {
			b.WriteString(" ")
			b.WriteString(th.Name)
			b.WriteString("@")
			b.WriteString(th.Label())
		}
		if n > len(en) {
			b.WriteString(" time")
		}
		if o.PreemptCosts && lastEnabled {
			k = c.Deviate(n, b.String())
		} else {
			k = c.Choose(n, b.String())
		}
	}
	if k >= len(en) {
		return Move{Time: true}, true
	}
	return Move{Th: en[k]}, true
}

// Describe renders the thread states (for witnesses).
func (s *Sched) Describe() string {
	var parts []string
	for _, th := range s.threads {
		st := th.State()
		d := th.Name + ":" + st.String()
		if st == Parked {
			d += "@" + th.Label()
		}
		parts = append(parts, d)
	}
	return strings.Join(parts, " ")
}

// ---------------------------------------------------------------------------------------------

// GInfo is one goroutine of a dump.
type GInfo struct {
	ID      int64  `json:"id"`
	State   string `json:"state"`
	Durable bool   `json:"durable,omitempty"`
	Bubble  int64  `json:"-"`
	Top     string `json:"top"` // innermost frames that are not runtime/sync internals
}

// Hang is the watchdog's report about an execution that stopped making progress.
type Hang struct {
	Deadlock   bool    `json:"deadlock"` // every goroutine of the bubble is in a channel or mutex wait
	Mutex      bool    `json:"mutex"`    // at least one of them waits for a sync.Mutex
	Draining   bool    `json:"draining"` // it happened after Free (not attributable to the explored schedule)
	Reason     string  `json:"reason"`
	IdleS      float64 `json:"idle_s"`
	Goroutines []GInfo `json:"goroutines"`
}

// Outcome of Run.
type Outcome struct {
	Completed bool   // the driver returned and every goroutine of the bubble exited
	Hang      *Hang  // the watchdog abandoned the bubble (its goroutines are leaked)
	Panic     string // a panic left the bubble (synctest's own "deadlock: ..." panic when blocked goroutines remain at the end)
}

var leaked atomic.Int64

// Leaked is the number of bubbles abandoned by the watchdog in this process so far.
func Leaked() int64 { return leaked.Load() }

// Run executes driver inside a fresh bubble and watches it from outside.  After driver returns the
// scheduler is switched to free-running mode and Run waits for every goroutine of the bubble to exit.
func Run(t *testing.T, opt Options, driver func(s *Sched)) (out Outcome) {
	opt.defaults()
	s := &Sched{opt: opt, T: t}
	done := make(chan struct{})
	var panicMsg atomic.Value
	var driverPanic any // a panic of the driver itself (explore's control-flow panics): re-raised in the caller of Run
	go func() {
		defer close(done)
		defer func() {
			if x := recover(); x != nil {
				panicMsg.Store(fmt.Sprint(x))
			}
		}()
		synctest.Test(t, func(t *testing.T) {
			s.freeCh = make(chan struct{})
			gid, bid := curGoid()
			s.driverGoid.Store(gid)
			s.bubbleID.Store(bid)
			defer s.Free()
			defer func() {
				if x := recover(); x != nil {
					driverPanic = x
				}
			}()
			driver(s)
		})
	}()

	tick := opt.SuspectAfter / 4
	if tick < 20*time.Millisecond {
		tick = 20 * time.Millisecond
	}
	var timer *time.Timer
	last, lastChange := int64(-1), time.Now()
	for {
		if timer == nil {
			// most executions finish within microseconds: try without a timer first
			select {
			case <-done:
				finishRun(&out, &panicMsg, driverPanic)
				return
			default:
			}
			timer = time.NewTimer(tick)
			defer timer.Stop()
		}
		select {
		case <-done:
			finishRun(&out, &panicMsg, driverPanic)
			return
		case <-timer.C:
			timer.Reset(tick)
		}
		p := s.progress.Load()
		if p != last {
			last, lastChange = p, time.Now()
			continue
		}
		idle := time.Since(lastChange)
		if idle < opt.SuspectAfter {
			continue
		}
		h := s.inspect(idle)
		if h == nil { // progress was made meanwhile
			continue
		}
		if h.Draining && (h.Deadlock || idle >= opt.HangCap) {
			// the driver has returned (its results stand); what is left of the bubble cannot exit: abandon it
			leaked.Add(1)
			out.Hang = h
			return
		}
		if h.Draining {
			continue
		}
		if h.Deadlock && (!opt.Strict || idle >= opt.StrictAfter) {
			leaked.Add(1)
			out.Hang = h
			return
		}
		if !h.Deadlock && idle >= opt.HangCap {
			leaked.Add(1)
			out.Hang = h
			return
		}
		if h.Deadlock && opt.Strict {
			// keep waiting (in larger steps) until StrictAfter
			timer.Reset(minDur(2*time.Second, opt.StrictAfter-idle+10*time.Millisecond))
		}
	}
}

func finishRun(out *Outcome, panicMsg *atomic.Value, driverPanic any) {
	if driverPanic != nil {
		panic(driverPanic)
	}
	out.Completed = panicMsg.Load() == nil
	if !out.Completed {
		out.Panic = panicMsg.Load().(string)
	}
}

func minDur(a, b time.Duration) time.Duration {
	if a < b {
		return a
	}
	return b
}

// inspect takes two goroutine dumps 50 ms apart and classifies the goroutines of this bubble.
func (s *Sched) inspect(idle time.Duration) *Hang {
	p0 := s.progress.Load()
	g1 := s.bubbleGoroutines()
	time.Sleep(50 * time.Millisecond)
	g2 := s.bubbleGoroutines()
	if s.progress.Load() != p0 {
		return nil
	}
	h := &Hang{IdleS: idle.Seconds(), Draining: s.draining.Load(), Goroutines: g2}
	if g2 == nil {
		h.Reason = "the bubble was not found in the goroutine dump"
		return h
	}
	if fmt.Sprint(ids(g1)) != fmt.Sprint(ids(g2)) || fmt.Sprint(summary(g1)) != fmt.Sprint(summary(g2)) {
		h.Reason = "goroutine states still changing"
		return h
	}
	drv := s.driverGoid.Load()
	h.Deadlock = true
	for _, g := range g2 {
		if g.ID == drv {
			// the driver must be the one that is stuck waiting for the others (synctest.Wait, or its tick sleep
			// that cannot end while some goroutine is not durably blocked)
			if g.State != "synctest.Wait" && g.State != "sleep" {
				h.Deadlock = false
				h.Reason = fmt.Sprintf("the driver is in state %q: not stuck", g.State)
			}
			continue
		}
		switch g.State {
		case "chan receive", "chan send", "chan receive (nil chan)", "chan send (nil chan)",
			"synctest.Run", "synctest.Wait", "sync.WaitGroup.Wait", "sync.Cond.Wait":
		case "sync.Mutex.Lock", "sync.RWMutex.Lock", "sync.RWMutex.RLock", "semacquire":
			h.Mutex = true
		case "select", "select (no cases)":
			if !s.opt.SelectIsChanWait && h.Deadlock {
				h.Deadlock = false
				h.Reason = fmt.Sprintf("goroutine %d is in a select (may contain a timer): inconclusive", g.ID)
			}
		default:
			if h.Deadlock {
				h.Reason = fmt.Sprintf("goroutine %d is in state %q: not a channel or mutex wait", g.ID, g.State)
			}
			h.Deadlock = false
		}
	}
	if h.Deadlock {
		h.Reason = "every goroutine of the bubble is in a channel or mutex wait: " + strings.Join(summary(g2), "; ")
	}
	return h
}

func ids(gs []GInfo) []int64 {
	var out []int64
	for _, g := range gs {
		out = append(out, g.ID)
	}
	sort.Slice(out, func(i, j int) bool { return out[i] < out[j] })
	return out
}

func summary(gs []GInfo) []string {
	var out []string
	for _, g := range gs {
		out = append(out, fmt.Sprintf("[%s] %s", g.State, g.Top))
	}
	sort.Strings(out)
	return out
}

// bubbleGoroutines returns the goroutines that belong to the same bubble as the driver.
func (s *Sched) bubbleGoroutines() []GInfo {
	bubble := s.bubbleID.Load()
	if bubble == 0 {
		return nil
	}
	all := ParseDump(fullDump())
	var out []GInfo
	for _, g := range all {
		if g.Bubble == bubble {
			out = append(out, g)
		}
	}
	return out
}

func fullDump() string {
	for size := 1 << 20; ; size *= 2 {
		buf := make([]byte, size)
		n := runtime.Stack(buf, true)
		if n < size || size >= 256<<20 {
			return string(buf[:n])
		}
	}
}

// curGoid returns the id of the calling goroutine and of its synctest bubble (0 outside bubbles).
func curGoid() (id, bubble int64) {
	buf := make([]byte, 160)
	n := runtime.Stack(buf, false)
	hd := string(buf[:n])
	if i := strings.IndexByte(hd, '\n'); i >= 0 {
		hd = hd[:i]
	}
	fmt.Sscanf(hd, "goroutine %d ", &id)
	if i := strings.Index(hd, "synctest bubble "); i >= 0 {
		fmt.Sscanf(hd[i:], "synctest bubble %d", &bubble)
	}
	return
}

// ParseDump parses the output of runtime.Stack(all).
func ParseDump(dump string) []GInfo {
	var out []GInfo
	for _, blk := range strings.Split(dump, "\n\n") {
		lines := strings.Split(strings.TrimSpace(blk), "\n")
		if len(lines) == 0 || !strings.HasPrefix(lines[0], "goroutine ") {
			continue
		}
		hd := lines[0]
		var g GInfo
		if _, err := fmt.Sscanf(hd, "goroutine %d ", &g.ID); err != nil {
			continue
		}
		lb, rb := strings.Index(hd, "["), strings.LastIndex(hd, "]")
		if lb < 0 || rb < lb {
			continue
		}
		for i, part := range strings.Split(hd[lb+1:rb], ", ") {
			switch {
			case i == 0:
				if strings.HasSuffix(part, " (durable)") {
					g.Durable = true
					part = strings.TrimSuffix(part, " (durable)")
				}
				g.State = part
			case strings.HasPrefix(part, "synctest bubble "):
				fmt.Sscanf(part, "synctest bubble %d", &g.Bubble)
			}
		}
		// innermost frames outside the runtime and sync internals, at most two
		var tops []string
		for _, l := range lines[1:] {
			if strings.HasPrefix(l, "\t") || strings.HasPrefix(l, "created by ") {
				continue
			}
			fn := l
			if i := strings.LastIndex(fn, "("); i > 0 {
				fn = fn[:i]
			}
			if strings.HasPrefix(fn, "runtime.") || strings.HasPrefix(fn, "internal/") || strings.HasPrefix(fn, "sync.") || strings.HasPrefix(fn, "time.") {
				continue
			}
			tops = append(tops, fn)
			if len(tops) == 2 {
				break
			}
		}
		g.Top = strings.Join(tops, " < ")
		out = append(out, g)
	}
	return out
}

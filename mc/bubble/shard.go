package bubble

import (
	"bufio"
	"encoding/json"
	"fmt"
	"io"
	"os"
	"os/exec"
	"strconv"
	"strings"
	"sync"
	"time"
)

// Sharding.  A scheduled execution is a chain of hand-offs between the driver and one thread at a
// time; with several Ps every hand-off wakes an idle P (futex), which measured 6x slower than a
// single P.  Harnesses therefore run their explorations in child processes of the test binary with
// GOMAXPROCS=1, one per core, fed with task numbers over stdin and answering one JSON line per task
// on stdout.  A child that dies (crash, fatal deadlock) is attributed to the task it was running.

const childEnv = "VERIF_BUBBLE_CHILD"
const resPrefix = "@@BUBBLE-RES "
const curPrefix = "@@BUBBLE-CUR "

// Announce tells the parent (one line on stdout) what this shard worker is about to do, e.g. the
// choices of the execution in progress.  When the worker dies - a panic in a goroutine spawned by the
// code under test cannot be caught - the parent attributes the death to the last announcement.
func Announce(s string) {
	if IsChild() {
		os.Stdout.WriteString(curPrefix + s + "\n")
	}
}

// IsChild tells whether this process is a shard worker.
func IsChild() bool { return os.Getenv(childEnv) != "" }

// ChildDeadline is the soft deadline handed down by the parent (zero if none).
func ChildDeadline() time.Time {
	n, _ := strconv.ParseInt(os.Getenv("VERIF_BUBBLE_DEADLINE"), 10, 64)
	if n == 0 {
		return time.Time{}
	}
	return time.Unix(0, n)
}

// ChildLoop serves tasks until stdin is closed.  run must return something JSON-serialisable.
func ChildLoop(run func(task int) any) {
	in := bufio.NewReader(os.Stdin)
	out := bufio.NewWriter(os.Stdout)
	for {
		line, err := in.ReadString('\n')
		line = strings.TrimSpace(line)
		if line != "" {
			task, perr := strconv.Atoi(line)
			if perr != nil {
				return
			}
			b, merr := json.Marshal(run(task))
			if merr != nil {
				b, _ = json.Marshal(map[string]string{"error": merr.Error()})
			}
			fmt.Fprintf(out, "%s%d %s\n", resPrefix, task, b)
			out.Flush()
		}
		if err != nil {
			return
		}
	}
}

// TaskResult is what the parent gets back for one task.
type TaskResult struct {
	Task   int
	JSON   json.RawMessage // nil when the child died while running the task
	Died   string          // tail of the child's output in that case
	Cur    string          // in that case: what the child announced last (see Announce), i.e. the execution it was running
	WallS  float64
	Worker int
}

// RunSharded runs the tasks (in the given order) in `workers` child processes started as
// `self -test.run ^<testName>$` with GOMAXPROCS=1 and calls handle for every result (serialised).
func RunSharded(self, testName string, workers int, tasks []int, deadline time.Time, extraEnv []string, handle func(r TaskResult)) error {
	if self == "" {
		self = os.Args[0]
	}
	if workers < 1 {
		workers = 1
	}
	if workers > len(tasks) {
		workers = len(tasks)
	}
	queue := make(chan int, len(tasks))
	for _, t := range tasks {
		queue <- t
	}
	close(queue)
	var mu sync.Mutex
	var wg sync.WaitGroup
	var firstErr error
	for w := 0; w < workers; w++ {
		wg.Add(1)
		go func(w int) {
			defer wg.Done()
			for {
				// (re)start a child; it serves tasks until the queue is empty or it dies
				task, ok := <-queue
				if !ok {
					return
				}
				cmd := exec.Command(self, "-test.run", "^"+testName+"$", "-test.timeout", "0", "-test.count", "1")
				cmd.Env = append(os.Environ(), childEnv+"=1", "GOMAXPROCS=1", "VERIF_OUT=", "VERIF_REPLAY=")
				if !deadline.IsZero() {
					cmd.Env = append(cmd.Env, "VERIF_BUBBLE_DEADLINE="+strconv.FormatInt(deadline.UnixNano(), 10))
				}
				cmd.Env = append(cmd.Env, extraEnv...)
				stdin, err := cmd.StdinPipe()
				if err == nil {
					var stdout io.ReadCloser
					stdout, err = cmd.StdoutPipe()
					if err == nil {
						cmd.Stderr = cmd.Stdout
						err = cmd.Start()
						if err == nil {
							rd := bufio.NewReaderSize(stdout, 1<<20)
							var noise []string
							cur := ""
							alive := true
							for alive {
								start := time.Now()
								fmt.Fprintf(stdin, "%d\n", task)
								var res json.RawMessage
								for {
									line, rerr := rd.ReadString('\n')
									if strings.HasPrefix(line, resPrefix) {
										rest := strings.TrimPrefix(line, resPrefix)
										sp := strings.IndexByte(rest, ' ')
										if sp > 0 {
											res = json.RawMessage(strings.TrimSpace(rest[sp+1:]))
										}
										break
									}
									if strings.HasPrefix(line, curPrefix) {
										cur = strings.TrimSpace(strings.TrimPrefix(line, curPrefix))
										continue
									}
									if line != "" {
										noise = append(noise, strings.TrimRight(line, "\n"))
										if len(noise) > 60 {
											noise = noise[len(noise)-60:]
										}
									}
									if rerr != nil {
										alive = false
										break
									}
								}
								r := TaskResult{Task: task, JSON: res, WallS: time.Since(start).Seconds(), Worker: w}
								if res == nil {
									r.Cur = cur
									r.Died = strings.Join(noise, "\n")
								}
								mu.Lock()
								handle(r)
								mu.Unlock()
								if !alive {
									break
								}
								task, ok = <-queue
								if !ok {
									break
								}
							}
							stdin.Close()
							io.Copy(io.Discard, rd)
							cmd.Wait()
							if !ok {
								return
							}
							continue
						}
					}
				}
				mu.Lock()
				if firstErr == nil {
					firstErr = err
				}
				handle(TaskResult{Task: task, Died: "cannot start child: " + err.Error(), Worker: w})
				mu.Unlock()
			}
		}(w)
	}
	wg.Wait()
	return firstErr
}

package probe

import (
	"fmt"
	"runtime"
	"sync"
	"testing"
	"testing/synctest"
	"time"
)

func TestDump(t *testing.T) {
	var wg sync.WaitGroup
	for w := 0; w < 4; w++ {
		wg.Add(1)
		go func() {
			defer wg.Done()
			for i := 0; i < 1000; i++ {
				synctest.Test(t, func(t *testing.T) {
					ch := make(chan int)
					go func() { ch <- 1 }()
					synctest.Wait()
					<-ch
				})
			}
		}()
	}
	wg.Wait()
	start := time.Now()
	for i := 0; i < 10000; i++ {
		synctest.Test(t, func(t *testing.T) {
			ch := make(chan int)
			go func() { ch <- 1 }()
			synctest.Wait()
			<-ch
		})
	}
	fmt.Println("per bubble", time.Since(start)/10000)

	done := make(chan struct{})
	go func() {
		defer func() { fmt.Println("recovered:", recover()); close(done) }()
		synctest.Test(t, func(t *testing.T) {
			var mu sync.Mutex
			mu.Lock()
			ch := make(chan int)
			go func() { <-ch }()
			go func() { select { case <-ch: case <-time.After(time.Second): } }()
			go func() { time.Sleep(time.Hour) }()
			go func() { mu.Lock() }()
			buf := make([]byte, 1<<10)
			n := runtime.Stack(buf, false)
			fmt.Println("SELF:", string(buf[:n]))
			synctest.Wait()
			fmt.Println("wait returned")
		})
	}()
	time.Sleep(300 * time.Millisecond)
	buf := make([]byte, 1<<20)
	n := runtime.Stack(buf, true)
	fmt.Println(string(buf[:n]))
}

// Package explore is engine E1: a stateless, replay-based, deviation-bounded
// enumerator of choice trees.  A harness body is ordinary Go code that calls
// c.Choose / c.Deviate wherever something is nondeterministic; Run executes the
// body once per leaf of the resulting tree (depth first, work shared between
// goroutines), replaying a recorded prefix of answers and answering 0 afterwards.
package explore

import (
	"fmt"
	"hash/fnv"
	"runtime/debug"
	"sort"
	"strings"
	"sync"
	"sync/atomic"
	"time"
)

// Point is one choice point met during an execution.
type Point struct {
	Label string `json:"l"`
	N     int    `json:"n"`
	Pick  int    `json:"p"`
	Cost  int    `json:"c,omitempty"` // cost of each non-default answer at this point
}

// Violation is a property violation reported by the body.
type Violation struct {
	Key     string  `json:"key"`  // canonical identity (used for known-finding matching and dedup)
	What    string  `json:"what"` // human-readable
	Choices []int   `json:"choices"`
	Points  []Point `json:"points,omitempty"`
	Detail  any     `json:"detail,omitempty"`
	Repro   int     `json:"reproduced"` // how many of the confirmation re-runs failed the same way
}

type divergence struct{}
type pruned struct{}
type failed struct{}

// Ctx is handed to the body for one execution.
type Ctx struct {
	e       *Explorer
	prefix  []int
	points  []Point
	spent   int
	outcome []string
	viol    *Violation
	diverge string
	W       int // worker index (0..Workers-1), for per-worker resources such as ports
	User    any
}

// Choose enumerates all n answers at no deviation cost.
func (c *Ctx) Choose(n int, label string) int { return c.choose(n, label, 0) }

// Deviate enumerates n answers where every answer other than 0 costs one unit of the deviation budget.
func (c *Ctx) Deviate(n int, label string) int { return c.choose(n, label, 1) }

func (c *Ctx) choose(n int, label string, cost int) int {
	if n <= 0 {
		panic(fmt.Sprintf("explore: Choose(%d,%q)", n, label))
	}
	i := len(c.points)
	pick := 0
	if i < len(c.prefix) {
		pick = c.prefix[i]
		if pick >= n {
			c.diverge = fmt.Sprintf("replay divergence at point %d (%s): recorded pick %d but only %d answers", i, label, pick, n)
			panic(divergence{})
		}
	}
	if pick != 0 {
		c.spent += cost
	}
	c.points = append(c.points, Point{Label: label, N: n, Pick: pick, Cost: cost})
	return pick
}

// Remaining returns the unspent deviation budget.
func (c *Ctx) Remaining() int { return c.e.Opt.Budget - c.spent }

// Replaying tells whether the execution is still inside the replayed prefix.
func (c *Ctx) Replaying() bool { return len(c.points) < len(c.prefix) }

// Visit registers a canonical state key.  It returns false when the same key
// was already expanded with at least the current remaining budget; the body
// must then stop (Prune does that).  Only called when the key determines the
// future of the execution.  Never prunes while still replaying the prefix.
func (c *Ctx) Visit(key string) bool {
	if c.Replaying() {
		return true
	}
	h := fnv.New64a()
	h.Write([]byte(key))
	k := h.Sum64()
	rem := c.Remaining()
	sh := &c.e.seen[k%uint64(len(c.e.seen))]
	sh.mu.Lock()
	defer sh.mu.Unlock()
	if old, ok := sh.m[k]; ok && old >= rem {
		return false
	}
	sh.m[k] = rem
	return true
}

// Prune ends the execution (it counts as pruned, not as an outcome).
func (c *Ctx) Prune() { panic(pruned{}) }

// VisitOrPrune = if !Visit(key) { Prune() }.
func (c *Ctx) VisitOrPrune(key string) {
	if !c.Visit(key) {
		c.Prune()
	}
}

// Outcome adds a component to the observed outcome of this execution (distinct outcomes are counted).
func (c *Ctx) Outcome(s string) { c.outcome = append(c.outcome, s) }

// Fail reports a violation and ends the execution.
func (c *Ctx) Fail(key, what string, detail any) {
	c.viol = &Violation{Key: key, What: what, Detail: detail}
	panic(failed{})
}

// Failf is Fail with formatting.
func (c *Ctx) Failf(key string, format string, args ...any) {
	c.Fail(key, fmt.Sprintf(format, args...), nil)
}

// Choices returns the picks made so far.
func (c *Ctx) Choices() []int {
	r := make([]int, len(c.points))
	for i, p := range c.points {
		r[i] = p.Pick
	}
	return r
}

// Options configure a run.
type Options struct {
	Budget     int             // deviation budget (sum of costs of non-default answers)
	MaxDepth   int             // max number of choice points per execution (0 = 10000); exceeding it is a cap, not an error
	Workers    int             // goroutines (0 = 1)
	Deadline   time.Time       // zero = none
	MaxExec    int64           // 0 = none
	Confirm    int             // re-runs to confirm a violation (default 5)
	MaxViol    int             // stop collecting distinct violation keys after this many (default 50)
	Samples    int             // executions to keep as samples (default 3)
	PanicIsBug bool            // a panic escaping the body is a harness bug (re-panic) if true; else reported as violation "panic"
	Setup      func(w int) any // per-worker user data
}

// Stats is what a run covered.
type Stats struct {
	Executions   int64          `json:"executions"`
	Pruned       int64          `json:"pruned"`
	Points       int64          `json:"choice_points"`
	Outcomes     int            `json:"distinct_outcomes"`
	MaxDepthSeen int            `json:"max_depth_seen"`
	Divergences  int64          `json:"divergences"`
	DepthCapped  int64          `json:"depth_capped"`
	Budget       int            `json:"budget"`
	Exhaustive   bool           `json:"exhaustive"`
	CapHit       string         `json:"cap_hit,omitempty"`
	Violations   []*Violation   `json:"violations,omitempty"`
	Samples      []Sample       `json:"samples,omitempty"`
	OutcomeHist  map[string]int `json:"-"`
	WallS        float64        `json:"wall_s"`
}

type Sample struct {
	Choices string `json:"choices"`
	Outcome string `json:"outcome"`
}

type shard struct {
	mu sync.Mutex
	m  map[uint64]int
}

type Explorer struct {
	Opt  Options
	Body func(c *Ctx)
	seen []shard

	mu       sync.Mutex
	stack    [][]int
	inflight int
	cond     *sync.Cond
	outcomes map[uint64]int
	outcomeS map[uint64]string
	viol     map[string]*Violation
	stats    Stats
	stop     atomic.Bool
}

type execResult struct {
	points  []Point
	outcome string
	viol    *Violation
	pruned  bool
	diverge string
	capped  bool
}

func (e *Explorer) execute(prefix []int, w int, user any) (r execResult) {
	c := &Ctx{e: e, prefix: prefix, W: w, User: user}
	defer func() {
		r.points = c.points
		r.outcome = strings.Join(c.outcome, "|")
		if x := recover(); x != nil {
			switch x.(type) {
			case divergence:
				r.diverge = c.diverge
			case pruned:
				r.pruned = true
			case failed:
				r.viol = c.viol
			case depthCap:
				r.capped = true
			default:
				if e.Opt.PanicIsBug {
					panic(fmt.Sprintf("%v\n%s", x, debug.Stack()))
				}
				r.viol = &Violation{Key: "panic", What: fmt.Sprintf("panic: %v", x), Detail: string(debug.Stack())}
			}
		}
		if r.viol != nil {
			r.viol.Choices = c.Choices()
			r.viol.Points = c.points
		}
	}()
	e.Body(c)
	return
}

type depthCap struct{}

// Run explores the whole tree of body within the options' bounds.
func Run(body func(c *Ctx), opt Options) *Stats {
	if opt.Workers <= 0 {
		opt.Workers = 1
	}
	if opt.Confirm == 0 {
		opt.Confirm = 5
	}
	if opt.MaxViol == 0 {
		opt.MaxViol = 50
	}
	if opt.Samples == 0 {
		opt.Samples = 3
	}
	if opt.MaxDepth == 0 {
		opt.MaxDepth = 10000
	}
	e := &Explorer{Opt: opt, Body: body, seen: make([]shard, 64),
		outcomes: map[uint64]int{}, outcomeS: map[uint64]string{}, viol: map[string]*Violation{}}
	for i := range e.seen {
		e.seen[i].m = map[uint64]int{}
	}
	e.cond = sync.NewCond(&e.mu)
	e.stack = [][]int{{}}
	e.stats.Budget = opt.Budget
	start := time.Now()
	var wg sync.WaitGroup
	for w := 0; w < opt.Workers; w++ {
		wg.Add(1)
		go func(w int) {
			defer wg.Done()
			var user any
			if opt.Setup != nil {
				user = opt.Setup(w)
			}
			e.worker(w, user)
		}(w)
	}
	wg.Wait()
	st := &e.stats
	st.WallS = time.Since(start).Seconds()
	st.Outcomes = len(e.outcomes)
	st.Exhaustive = st.CapHit == "" && st.Divergences == 0 && st.DepthCapped == 0
	st.OutcomeHist = map[string]int{}
	for k, n := range e.outcomes {
		st.OutcomeHist[e.outcomeS[k]] = n
	}
	keys := make([]string, 0, len(e.viol))
	for k := range e.viol {
		keys = append(keys, k)
	}
	sort.Strings(keys)
	for _, k := range keys {
		st.Violations = append(st.Violations, e.viol[k])
	}
	return st
}

func (e *Explorer) worker(w int, user any) {
	for {
		e.mu.Lock()
		for len(e.stack) == 0 && e.inflight > 0 && !e.stop.Load() {
			e.cond.Wait()
		}
		if e.stop.Load() || len(e.stack) == 0 {
			e.mu.Unlock()
			e.cond.Broadcast()
			return
		}
		if !e.Opt.Deadline.IsZero() && time.Now().After(e.Opt.Deadline) {
			e.stats.CapHit = "deadline"
			e.stop.Store(true)
			e.mu.Unlock()
			e.cond.Broadcast()
			return
		}
		if e.Opt.MaxExec > 0 && e.stats.Executions >= e.Opt.MaxExec {
			e.stats.CapHit = "max_executions"
			e.stop.Store(true)
			e.mu.Unlock()
			e.cond.Broadcast()
			return
		}
		prefix := e.stack[len(e.stack)-1]
		e.stack = e.stack[:len(e.stack)-1]
		e.inflight++
		e.mu.Unlock()

		r := e.execute(prefix, w, user)
		if r.diverge != "" {
			// retry up to 3 times; persistent divergence is counted, never a violation
			for i := 0; i < 3 && r.diverge != ""; i++ {
				r = e.execute(prefix, w, user)
			}
		}
		var children [][]int
		if r.diverge == "" {
			// expand alternatives at every point after the prefix
			spent := 0
			for i, p := range r.points {
				if i >= len(prefix) {
					for alt := p.N - 1; alt >= 1; alt-- {
						if spent+p.Cost > e.Opt.Budget {
							continue
						}
						if i+1 > e.Opt.MaxDepth {
							continue
						}
						ch := make([]int, i+1)
						for j := 0; j < i; j++ {
							ch[j] = r.points[j].Pick
						}
						ch[i] = alt
						children = append(children, ch)
					}
				}
				if p.Pick != 0 {
					spent += p.Cost
				}
			}
		}
		var confirmed *Violation
		if r.viol != nil {
			confirmed = e.confirm(r.viol, w, user)
		}

		e.mu.Lock()
		e.inflight--
		st := &e.stats
		if r.diverge != "" {
			st.Divergences++
		} else {
			// children are ordered shallow..deep; LIFO pops the deepest first (depth-first, bounded stack)
			e.stack = append(e.stack, children...)
			st.Points += int64(len(r.points) - len(prefix))
			if len(r.points) > st.MaxDepthSeen {
				st.MaxDepthSeen = len(r.points)
			}
			if r.pruned {
				st.Pruned++
			} else if r.capped {
				st.DepthCapped++
			} else {
				st.Executions++
				if r.viol == nil {
					h := fnv.New64a()
					h.Write([]byte(r.outcome))
					k := h.Sum64()
					if _, ok := e.outcomes[k]; !ok {
						o := r.outcome
						if len(o) > 300 {
							o = o[:300] + "…"
						}
						e.outcomeS[k] = o
					}
					e.outcomes[k]++
					if len(st.Samples) < e.Opt.Samples && len(r.points) > 0 {
						st.Samples = append(st.Samples, Sample{Choices: RenderPoints(r.points), Outcome: trunc(r.outcome, 400)})
					}
				}
			}
			if confirmed != nil {
				if _, ok := e.viol[confirmed.Key]; !ok && len(e.viol) < e.Opt.MaxViol {
					e.viol[confirmed.Key] = confirmed
				}
			} else if r.viol != nil {
				st.Divergences++ // did not reproduce: nondeterminism, never reported as a violation
			}
		}
		e.mu.Unlock()
		e.cond.Broadcast()
	}
}

func (e *Explorer) confirm(v *Violation, w int, user any) *Violation {
	e.mu.Lock()
	_, dup := e.viol[v.Key]
	e.mu.Unlock()
	if dup {
		return v
	}
	ok := 0
	for i := 0; i < e.Opt.Confirm; i++ {
		r := e.execute(v.Choices, w, user)
		if r.viol != nil && r.viol.Key == v.Key {
			ok++
		}
	}
	v.Repro = ok
	if ok == e.Opt.Confirm {
		return v
	}
	return nil
}

// ReplayOnce runs the body on one recorded choice list.
func ReplayOnce(body func(c *Ctx), choices []int, budget int, user any) (*Violation, string, []Point) {
	e := &Explorer{Opt: Options{Budget: budget, MaxDepth: 1 << 30}, Body: body, seen: make([]shard, 1)}
	e.seen[0].m = map[uint64]int{}
	r := e.execute(choices, 0, user)
	if r.diverge != "" {
		return nil, "DIVERGED: " + r.diverge, r.points
	}
	return r.viol, r.outcome, r.points
}

func RenderPoints(ps []Point) string {
	var b strings.Builder
	for i, p := range ps {
		if i > 0 {
			b.WriteString(" ")
		}
		fmt.Fprintf(&b, "%s=%d/%d", p.Label, p.Pick, p.N)
	}
	return trunc(b.String(), 600)
}

func trunc(s string, n int) string {
	if len(s) > n {
		return s[:n] + "…"
	}
	return s
}

// CheckDepth lets a body abandon an execution that exceeds the depth cap.
func (c *Ctx) CheckDepth() {
	if len(c.points) >= c.e.Opt.MaxDepth {
		panic(depthCap{})
	}
}
